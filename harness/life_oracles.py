"""Property oracles of the lifecycle family (C01 C02 C03 C12 C14 C15 C16): direct
statements of the property texts over the observation log of one scenario
(harness/life_runner.py).  Each returns a list of (signature, what)."""
from __future__ import annotations

EDGES = {
    ('created', 'initialized'), ('initialized', 'running'), ('running', 'finished'),
    ('initialized', 'initialized'), ('finished', 'initialized'),
    ('created', 'closed'), ('initialized', 'closed'), ('running', 'closed'), ('finished', 'closed'),
    ('closed', 'closed'),
}


def dedup(seq):
    out = []
    for x in seq:
        if not out or out[-1] != x:
            out.append(x)
    return out


def path_ok(seq):
    for a, b in zip(seq, seq[1:]):
        if (a, b) not in EDGES:
            return (a, b)
    return None


def runner_problem(obs):
    for o in obs:
        if o.get('k') in ('runner_error', 'runner_dead', 'scenario_timeout'):
            return o
    return None


# ------------------------------------------------------------------ C01

def c01(scn, obs):
    bad = []
    states = dedup([o['state'] for o in obs if isinstance(o.get('state'), str) and not o['state'].startswith('!')])
    e = path_ok(states)
    if e:
        bad.append((f'state-attr:{e[0]}->{e[1]}', f'state attribute went {e[0]} -> {e[1]} (sampled sequence {states})'))
    pubs = dedup([o['value'] for o in obs if o.get('k') == 'pub' and o.get('topic') == 'state_name'])
    e = path_ok(pubs)
    if e:
        bad.append((f'subscription:{e[0]}->{e[1]}', f'state subscription yielded {e[0]} -> {e[1]} (sequence {pubs})'))
    if pubs and pubs[0] not in ('initialized', 'created'):
        pass
    # a refused run/reset changes nothing (checked for refusals that are immediate)
    for a, b in zip(obs, obs[1:]):
        if a.get('k') == 'call' and b.get('k') == 'ret' and a.get('task') == b.get('task') \
                and a.get('api') in ('run', 'reset') and b.get('res') == 'MachineError':
            if a['state'] != b['state']:
                bad.append((f'refused-changed-state:{a["api"]}', f'refused {a["api"]} changed state {a["state"]} -> {b["state"]}'))
    # a run/reset that the state does not allow is refused WITH AN ERROR: if the state was never
    # one that allows the request between the call and its normal return, it was wrongly accepted
    for i, a in enumerate(obs):
        if a.get('k') == 'call' and a.get('api') in ('run', 'reset', 'run_and_continue', 'run_session', 'run_continue_and_wait'):
            ret = next((b for b in obs[i + 1:] if b.get('k') == 'ret' and b.get('task') == a['task'] and b.get('api') == a['api']), None)
            if ret is None or ret['res'] != 'ok':
                continue
            allowed = ('initialized', 'finished') if a['api'] == 'reset' else ('initialized',)
            seen = {o.get('state') for o in obs[i:ret['i'] + 1]}
            if not (seen & set(allowed)):
                bad.append((f'invalid-accepted:{a["api"]}@{a["state"]}', f'{a["api"]}() issued in state {a["state"]} returned without error although the state was never one of {allowed}'))
    return bad


# ------------------------------------------------------------------ C03

def c03(scn, obs):
    """close() always completes and leaves everything shut down.  The scenario is
    expected to end with: release_all, (child allowed to end unless the scenario is
    about an open prompt), settle."""
    bad = []
    closes = [o for o in obs if o.get('k') == 'call' and o.get('api') in ('close', 'aexit')]
    if not closes:
        return bad
    end = next((o for o in obs if o.get('k') == 'end'), None)
    point = scn.get('meta', {}).get('point', '?')
    first = True
    _c0 = closes[0]
    _r0 = next((b for b in obs[_c0['i'] + 1:] if b.get('k') == 'ret' and b.get('task') == _c0['task'] and b.get('api') == _c0['api']), None)
    ret0_i = _r0['i'] if _r0 is not None else None
    for c in closes:
        ret = next((b for b in obs[c['i'] + 1:] if b.get('k') == 'ret' and b.get('task') == c['task'] and b.get('api') == c['api']), None)
        who = scn.get('meta', {}).get('who', '?')
        tag = f'{point}:{who}'
        if ret is None:
            # the harness itself still withholds a hook gate at the end of the scenario (a generated label sequence
            # that stopped mid-flight): nothing can be said about this close
            exited = {(o['hook'], o['n']) for o in obs if o.get('k') == 'gate_exit'}
            if any(o.get('k') == 'hook' and o.get('held') and (o['hook'], o['n']) not in exited for o in obs):
                first = False
                continue
            bad.append((f'close-never-returns:{tag}', f'close() issued at [{point}] by task {c["task"]} never returned (state {obs[-1].get("state")})'))
            first = False
            continue
        if ret['res'] != 'ok':
            bad.append((f'close-raises:{ret["res"]}:{tag}', f'close() issued at [{point}] raised {ret["res"]}: {ret.get("msg", "")}'))
        elif ret['state'] != 'closed' and not (not first and (ret0_i is None or c['i'] < ret0_i)):
            # (a close() issued while the FIRST close is still in flight "does nothing" and returns at once:
            #  close || close is not among the lifecycle points C03 quantifies over; DESIGN 6.1.  A close issued
            #  after the first one returned must find the state closed.)
            bad.append((f'close-returns-not-closed:{ret["state"]}:{tag}', f'close() issued at [{point}] by task {c["task"]} returned but state is {ret["state"]}'))
        if ret['res'] == 'ok' and ret.get('alive', 0) > 0 and not (not first and (ret0_i is None or c['i'] < ret0_i)):
            bad.append((f'close-child-alive:{tag}', f'close() returned while {ret["alive"]} child process(es) alive'))
        if not first and ret['res'] == 'ok':
            # a second close does nothing: no hook may run between its call and its return
            between = [o for o in obs[c['i'] + 1:ret['i']] if o.get('k') == 'hook' and o.get('task') != '?']
            # hooks of OTHER in-flight calls may interleave; only hooks in a task spawned by this call count;
            # conservatively require the state unchanged
            if c['state'] == 'closed' and ret['state'] != 'closed':
                bad.append((f'second-close-changed-state:{tag}', 'second close() changed the state'))
        first = False
    # every subscription handed out before the first close has terminated
    c0 = closes[0]
    ret0 = next((b for b in obs[c0['i'] + 1:] if b.get('k') == 'ret' and b.get('task') == c0['task'] and b.get('api') == c0['api']), None)
    if ret0 is not None and ret0['res'] == 'ok' and end is not None and end.get('subs_open', 0) > 0:
        ended = {o['topic'] for o in obs if o.get('k') in ('sub_end', 'sub_err')}
        allt = {'state_name', 'run_info', 'run_no', 'statement', 'trace_nos', 'continuous', 'prompt_notice'}
        missing = sorted(allt - ended)
        # topics never published on and never ended: subscribe() on a broker key creates the topic; they must end too
        bad.append((f'subs-open:{",".join(missing)}:{point}', f'after close() returned, subscriptions {missing} have not terminated'))
    return bad


# ------------------------------------------------------------------ C12 / C02

EVENT_HOOKS = ('on_start_trace', 'on_end_trace', 'on_start_prompt', 'on_end_prompt',
               'on_write_stdout', 'on_start_trace_call', 'on_end_trace_call', 'on_start_cmdloop', 'on_end_cmdloop')   # the last five only with config extra_hooks


def c12(scn, obs):
    bad = []
    seq = [o for o in obs if (o.get('k') == 'hook' and o['hook'] in ('on_initialize_run', 'on_start_run', 'on_end_run', 'on_finished') + EVENT_HOOKS)
           or (o.get('k') == 'failing' and o.get('what') == 'run_ctx')]
    cur = None           # run number being initialised / run
    phase = 'none'       # none | init | started | ended | finished
    for o in seq:
        if o.get('k') == 'failing':
            # the run session failed to start (a plugin's session context raised before the child was spawned):
            # no start-run / end-run for it; the machine still reaches 'finished' and on_finished is delivered
            if phase == 'init':
                phase = 'failed-to-start'
            continue
        h = o['hook']
        if h in EVENT_HOOKS:
            # the run's in-process events come after start-run and before end-run
            if phase != 'started':
                bad.append((f'event-outside-run:{phase}', f'{h} (event of run {o.get("ev_run_no")}) delivered in phase {phase}, i.e. not between on_start_run and on_end_run'))
            elif o.get('ev_run_no') is not None and o.get('ev_run_no') != cur:
                bad.append(('event-of-other-run', f'{h} carries run {o.get("ev_run_no")} during run {cur}'))
            continue
        if h == 'on_initialize_run':
            if phase in ('started', 'ended'):
                bad.append((f'init-during-run', f'on_initialize_run (run {o["run_no"]}) delivered while run {cur} has not finished'))
            if not o['run_arg']:
                bad.append(('init-without-run-arg', 'on_initialize_run without run arguments in the context'))
            cur, phase = o['run_no'], 'init'
        elif h == 'on_start_run':
            if phase != 'init' or o['run_no'] != cur:
                bad.append((f'start-without-init', f'on_start_run (run {o["run_no"]}) without a preceding on_initialize_run for it (phase {phase}, initialised run {cur})'))
            if not o['run_arg']:
                bad.append(('start-without-run-arg', 'on_start_run without run arguments'))
            cur, phase = o['run_no'], 'started'
        elif h == 'on_end_run':
            if phase != 'started' or o['run_no'] != cur:
                bad.append(('end-without-start', f'on_end_run (run {o["run_no"]}) without on_start_run (phase {phase})'))
            if o['state'] != 'running':
                bad.append((f'end-run-in-state:{o["state"]}', f'on_end_run delivered while state is {o["state"]}'))
            if not o['run_arg']:
                bad.append(('end-without-run-arg', 'on_end_run without run arguments'))
            phase = 'ended'
        elif h == 'on_finished':
            if phase not in ('ended', 'failed-to-start'):
                bad.append((f'finished-without-end:{phase}', f'on_finished delivered in phase {phase} (no on_start_run/on_end_run for this run)'))
            if o['state'] != 'finished':
                bad.append((f'finished-in-state:{o["state"]}', f'on_finished delivered while state is {o["state"]}'))
            if o['run_arg']:
                bad.append(('run-arg-not-withdrawn', 'run arguments still in the context at on_finished'))
            phase = 'finished'
    # an event hook that was entered during the run has RETURNED before end-run is called (a held hook logs its exit)
    for o in obs:
        if o.get('k') == 'hook' and o['hook'] in EVENT_HOOKS and o.get('held'):
            ex = next((x for x in obs[o['i'] + 1:] if x.get('k') == 'gate_exit' and x.get('hook') == o['hook'] and x.get('n') == o['n']), None)
            er = next((x for x in obs[o['i'] + 1:] if x.get('k') == 'hook' and x['hook'] == 'on_end_run'), None)
            if er is not None and (ex is None or ex['i'] > er['i']):
                bad.append(('end-run-before-event-hook-returned', f"on_end_run (run {er.get('run_no')}) was called while the {o['hook']} hook entered before it had not returned"))
                break
    # a (slow) implementation of on_end_run / on_finished is still INSIDE the protocol position of its run when it resumes:
    # end-run while the state is 'running' with the run's arguments, finished while the state is 'finished' with the
    # arguments withdrawn -- the next cycle's initialise-run does not begin before it has returned
    for x in obs:
        if x.get('k') == 'gate_exit' and x.get('released') and x.get('hook') in ('on_end_run', 'on_finished'):
            want_state = 'running' if x['hook'] == 'on_end_run' else 'finished'
            if x.get('state') != want_state:
                bad.append((f'{x["hook"]}-resumes-in-state:{x.get("state")}',
                            f'a held {x["hook"]} implementation (run {x.get("entered_run_no")}) resumed while the state was {x.get("state")}'))
                break
            if x['hook'] == 'on_finished' and x.get('run_arg'):
                bad.append(('run-arg-not-withdrawn:next-run-began-during-on_finished',
                            f'when a held on_finished implementation resumed the context carried the arguments of run {x.get("run_no")}'))
                break
            if x['hook'] == 'on_end_run' and x.get('run_no') != x.get('entered_run_no'):
                bad.append(('end-run-resumes-with-other-run-arg', f'a held on_end_run of run {x.get("entered_run_no")} resumed with run arguments {x.get("run_no")}'))
                break
    # a plugin registered / unregistered between hook calls receives exactly the hook calls made
    # while it was registered (compared with what the always-registered plugin saw)
    tags = {o['plugin'] for o in obs if o.get('k') in ('registered',)}
    for tag in tags:
        inside = False
        want, got = [], []
        for o in obs:
            if o.get('k') == 'registered' and o['plugin'] == tag:
                inside = True
            elif o.get('k') == 'unregistered' and o['plugin'] == tag:
                inside = False
            elif o.get('k') == 'hook' and inside:
                want.append(o['hook'])
            elif o.get('k') == 'hook2' and o.get('plugin') == tag:
                got.append(o['hook'])
                if not inside:
                    bad.append(('hook-to-unregistered-plugin', f'plugin {tag} received {o["hook"]} while not registered'))
        if sorted(want) != sorted(got):
            miss = [h for h in want if h not in got]
            bad.append(('registered-plugin-missed-hooks', f'plugin {tag} registered between runs received {len(got)} of the {len(want)} hook calls made while it was registered (e.g. missing {miss[:3]})'))
    # completeness: a run that was started and whose child has ended must be closed out
    endobs = next((o for o in obs if o.get('k') == 'end'), None)
    if endobs is not None and phase in ('started', 'ended') and not endobs.get('pids_alive') and scn.get('meta', {}).get('expect_complete', True):
        bad.append((f'run-not-closed-out:{phase}', f'run {cur}: hooks stopped in phase {phase} although the child has exited'))
    return bad


def c02(scn, obs):
    bad = []
    # a record begins at each 'initialized' publication (numbers can legitimately repeat when the
    # caller restarts the numbering): initialized, running, finished, exactly once, one number
    records = []
    for o in obs:
        if o.get('k') == 'pub' and o.get('topic') == 'run_info':
            v = o['value']
            if v['state'] == 'initialized' or not records:
                records.append([])
            records[-1].append((v['run_no'], v['state']))
    full = ['initialized', 'running', 'finished']
    per = {}
    for i, rec in enumerate(records):
        seq = [st for _, st in rec]
        nos = {n for n, _ in rec}
        per[i] = seq
        if seq != full[:len(seq)]:
            bad.append((f'run-info-order:{"-".join(seq)}', f'run record {rec[0][0]}: run_info went {seq}'))
        if len(nos) > 1:
            bad.append(('run-info-number-changes', f'one run record carries the numbers {sorted(nos)}'))
    endobs = next((o for o in obs if o.get('k') == 'end'), None)
    # every accepted run has a record and completes
    accepted = [o for o in obs if o.get('k') == 'ret' and o.get('api') in ('run', 'run_and_continue', 'run_continue_and_wait', 'run_session') and o.get('res') == 'ok']
    started = [o for o in obs if o.get('k') == 'hook' and o['hook'] == 'on_start_run']
    n_running = sum(1 for s in per.values() if 'running' in s)
    n_finished = sum(1 for s in per.values() if 'finished' in s)
    if scn.get('meta', {}).get('expect_complete', True) and endobs is not None:
        if len(accepted) > n_finished and not endobs.get('pids_alive') and not any(o.get('k') == 'call' and o.get('api') in ('close', 'aexit') for o in obs):
            bad.append((f'accepted-run-without-record:{len(accepted)}>{n_finished}',
                        f'{len(accepted)} run request(s) accepted but only {n_finished} run record(s) reached finished'))
        if endobs.get('state') == 'running' and not endobs.get('pids_alive'):
            bad.append(('stuck-running', 'state is still running although the child has exited'))
    # result / exception reported afterwards are those of that run
    exp = scn.get('meta', {}).get('expect_result')
    if exp == 'KeyboardInterrupt' and any(
            "UnboundLocalError: cannot access local variable 'entered'" in ' '.join(o['value'].get('exc') or [])
            for o in obs if o.get('k') == 'pub' and o.get('topic') == 'run_info' and o['value']['state'] == 'finished'):
        # one recorded class (known_findings.json): the signal arrived at the instant the dependency apluggy's
        # stack_gen_ctxs generator had entered its `try` but not yet bound `entered`
        return bad + [('interrupt:replaced-by-UnboundLocalError-in-apluggy-stack',
                       'Ctrl-C while the script was busy: the run ended with "UnboundLocalError: cannot access local variable '
                       "'entered'\" raised by apluggy/stack/sync.py (its finally block reads `entered`, which the interrupted try "
                       'block had not bound yet) instead of the KeyboardInterrupt')]
    if exp is not None:
        r = next((o for o in reversed(obs) if o.get('k') == 'ret' and o.get('api') == 'result' and o.get('res') == 'ok'), None)
        if r is not None:
            got = r['value']
            last = (got['exc'] or [''])[-1]
            if exp == 'none' and (got['result'] is not None or got['exc']):
                bad.append((f'result-mismatch:{exp}', f'expected empty result/exception, got {got}'))
            elif exp not in ('none',) and exp not in last:
                bad.append((f'result-mismatch:{exp}', f'expected exception {exp}, got {got}'))
        fin = [o['value'] for o in obs if o.get('k') == 'pub' and o.get('topic') == 'run_info' and o['value']['state'] == 'finished']
        if fin:
            last = (fin[-1]['exc'] or [''])[-1]
            if exp == 'none' and fin[-1]['exc']:
                bad.append((f'run-info-exception-mismatch:{exp}', f'finished record carries exception {fin[-1]["exc"]}'))
            elif exp != 'none' and exp not in last:
                bad.append((f'run-info-exception-mismatch:{exp}', f'finished record carries {fin[-1]["exc"]}, expected {exp}'))
    # anything waiting for the run returns
    outcome = scn.get('meta', {}).get('outcome')
    abrupt = outcome in ('hard', 'terminate', 'kill')
    hung = any(o.get('k') in ('await_timeout', 'scenario_timeout') for o in obs)
    if hung:
        if abrupt:
            # one class, whatever else it drags along (stuck state, missing record)
            return [(f'run-never-finishes:child-died-abruptly:{outcome}',
                     f'the child process ended by {outcome} and the run never finished (waiters never return, state stays running)')]
        for o in obs:
            if o.get('k') == 'await_timeout':
                bad.append((f'waiter-never-returns:{outcome or o["task"]}', f'task {o["task"]} waiting for the run never returned'))
    return bad


# ------------------------------------------------------------------ C14

def c14(scn, obs):
    bad = []
    displayed = None          # last published statement id
    prev_rn = None
    restart_values = set()    # run_no_start_from values requested so far (applied or in flight)
    calls = {}
    for o in obs:
        k = o.get('k')
        if k == 'pub' and o['topic'] == 'statement':
            displayed = o['value']
        elif k == 'call' and o['api'] == 'reset':
            calls[o['task']] = o
            v = (o.get('args') or {}).get('run_no_start_from')
            if v is not None:
                restart_values.add(v)
        elif k == 'ret' and o['api'] == 'reset':
            c = calls.pop(o['task'], None)
            if c is not None and o['res'] != 'ok' and o['res'] != 'CancelledError':
                # "... or is refused; it is never half applied": a reset that raised has changed nothing of what the object displays
                # and hands out (read by the harness client right before the call and right after its return)
                before = next((x for x in reversed(obs[:c['i']]) if x.get('k') == 'peek'), None)
                after = next((x for x in obs[o['i'] + 1:] if x.get('k') in ('peek', 'call')), None)
                if before is not None and after is not None and after.get('k') == 'peek':
                    for fld, name in (('shown_statement', 'statement'), ('shown_source', 'get_source()'), ('run_no', 'run_no')):
                        if fld in before and fld in after and before[fld] != after[fld]:
                            bad.append((f'reset-half-applied:refused-but-{fld.replace("shown_", "")}-changed',
                                        f'reset({c.get("args")}) raised {o["res"]} but {name} went {before[fld]!r} -> {after[fld]!r}'))
                            break
            if c is not None and o['res'] == 'ok':
                a = c.get('args') or {}
                # a reset that returned normally took FULL effect: its own re-initialisation
                # carries everything it asked for, and no run starts before it has returned
                # (its own re-initialisation is the last one before it returns: a request may
                # first have to wait for another transition in progress)
                inits = [x for x in obs[c['i'] + 1:o['i']] if x.get('k') == 'hook' and x['hook'] == 'on_initialize_run']
                init = inits[-1] if inits else None
                start = next((x for x in obs[(init['i'] if init else c['i']) + 1:] if x.get('k') == 'hook' and x['hook'] == 'on_start_run'), None)
                if init is None or (start is not None and start['i'] < o['i']):
                    what = 'the run that followed started without a re-initialisation' if start is not None else 'no re-initialisation happened'
                    bad.append(('reset-half-applied:no-reinitialisation', f'reset({a}) returned normally but {what}'))
                else:
                    if a.get('run_no_start_from') is not None and init['run_no'] != a['run_no_start_from']:
                        bad.append(('reset-half-applied:run_no', f'reset(run_no_start_from={a["run_no_start_from"]}) returned normally but re-initialised run number {init["run_no"]}'))
                    if 'statement' in a and init.get('script_id') != a['statement']:
                        bad.append(('reset-half-applied:statement', f'reset(statement={a["statement"]}) returned normally but re-initialised with script {init.get("script_id")}'))
                    for opt in ('trace_threads', 'trace_modules'):
                        if a.get(opt) is not None and opt in init and init[opt] != a[opt]:
                            bad.append((f'reset-half-applied:{opt}', f'reset({opt}={a[opt]}) returned normally but re-initialised with {opt}={init[opt]}'))
        elif k == 'hook' and o['hook'] == 'on_initialize_run':
            rn = o['run_no']
            if prev_rn is not None and rn != prev_rn + 1 and rn not in restart_values:
                bad.append(('run-no-not-consecutive', f'run number went {prev_rn} -> {rn}'))
            if prev_rn is not None and rn == prev_rn and rn not in restart_values:
                bad.append(('run-no-repeated', f'run number {rn} handed out twice'))
            prev_rn = rn
        elif k == 'hook' and o['hook'] == 'on_start_run':
            if o.get('script_id') != displayed:
                bad.append(('executed-not-displayed', f'run {o["run_no"]} executes script {o.get("script_id")} while the object displays {displayed}'))
            # ... according to every reporting call of the object at that moment
            for how in ('shown_statement', 'shown_source', 'shown_lines'):
                if how in o and o[how] != o.get('script_id'):
                    bad.append((f'executed-not-displayed:{how[6:]}', f'run {o["run_no"]} executes script {o.get("script_id")} while '
                                f'{ {"shown_statement": "statement", "shown_source": "get_source()", "shown_lines": "get_source_line()"}[how] } shows {o[how]}'))
            if 'shown_error' in o:
                bad.append(('executed-not-displayed:reporting-call-raises', f'a reporting call raised {o["shown_error"]} at the start of run {o["run_no"]}'))
            # the tracing options the run executes with are those frozen at its initialisation
            init = next((x for x in reversed(obs[:o['i']]) if x.get('k') == 'hook' and x['hook'] == 'on_initialize_run'), None)
            for opt in ('trace_threads', 'trace_modules'):
                if init is not None and opt in init and opt in o and init[opt] != o[opt]:
                    bad.append((f'executed-not-initialised:{opt}', f'run {o["run_no"]} starts with {opt}={o[opt]} but was initialised with {init[opt]}'))
            if o.get('run_no') != prev_rn:
                bad.append(('start-run-no-mismatch', f'on_start_run carries run {o.get("run_no")} but the last initialised run is {prev_rn}'))
            ri = [x['value'] for x in obs[:o['i']] if x.get('k') == 'pub' and x['topic'] == 'run_info']
            if ri and ri[-1]['run_no'] != o.get('run_no'):
                bad.append(('run-info-other-number', f'run {o.get("run_no")} starts while the published run info is for run {ri[-1]["run_no"]}'))
    # the script the child really executed
    for s in [o for o in obs if o.get('k') == 'sample']:
        ids = [x.split()[0] for x in s.get('ids', [])]
        started = [o.get('script_id') for o in obs if o.get('k') == 'hook' and o['hook'] == 'on_start_run' and o['i'] < s['i']]
        if ids and started and ids[:len(started)] != started[:len(ids)]:
            bad.append(('child-executed-other-script', f'children executed {ids}, runs were started with {started}'))
    return bad


# ------------------------------------------------------------------ C15

def c15(scn, obs):
    bad = []
    for o in obs:
        if o.get('alive', 0) > 1:
            bad.append(('two-children-alive', f'{o["alive"]} child processes alive at observation {o["i"]} ({o.get("k")})'))
            break
    for o in obs:
        fin = (o.get('k') == 'hook' and o['hook'] == 'on_finished') or \
              (o.get('k') == 'hook' and o['hook'] == 'on_change_state' and o.get('state_name') == 'finished') or \
              (o.get('k') == 'pub' and o['topic'] == 'state_name' and o['value'] == 'finished')
        if fin and o.get('alive', 0) > 0:
            bad.append(('finished-with-live-child', f"'finished' reported ({o.get('k')} {o.get('hook', o.get('topic'))}) while the run's child process is alive"))
            break
    for o in obs:
        if o.get('k') == 'hook' and o['hook'] in ('reset', 'on_initialize_run') and o.get('alive', 0) > 0:
            bad.append(('reset-during-run', f'{o["hook"]} executed while a child process is alive'))
            break
    # a second run request while one is starting or running is refused
    n_start = 0
    for o in obs:
        if o.get('k') == 'hook' and o['hook'] == 'on_start_run':
            n_start += 1
        if o.get('k') == 'ret' and o.get('api') == 'run' and o.get('res') == 'ok' and o.get('state') == 'running':
            pass
    return bad


# ------------------------------------------------------------------ C16

def c16(scn, obs):
    bad = []
    # the flag: true from an accepted run-and-continue request until that run finishes, false otherwise
    flag = None
    cont_run_active = False
    pending_cont = 0
    for o in obs:
        k = o.get('k')
        if k == 'call' and o['api'] in ('run_and_continue', 'run_continue_and_wait'):
            pending_cont += 1
        if k == 'ret' and o['api'] in ('run_and_continue', 'run_continue_and_wait'):
            pending_cont -= 1
            if o['res'] == 'ok':
                cont_run_active = o['state'] == 'running'
        if k == 'hook' and o['hook'] == 'on_start_run' and pending_cont > 0:
            cont_run_active = True
        if k == 'hook' and o['hook'] == 'on_change_state' and o.get('state_name') == 'finished':
            cont_run_active = False
        if k == 'ret' and o['api'] == 'enabled' and o['res'] == 'ok':
            v = o['value']
            if v and not cont_run_active and pending_cont == 0:
                why = 'after a refused request' if any(x.get('k') == 'ret' and x.get('api') in ('run_and_continue', 'run_continue_and_wait') and x.get('res') != 'ok' and x['i'] < o['i'] for x in obs) else 'outside a continuous run'
                bad.append((f'flag-true:{why.replace(" ", "-")}', f'continuous_enabled is True {why} (state {o["state"]})'))
            if not v and cont_run_active:
                bad.append(('flag-false-during-continuous-run', 'continuous_enabled is False during a run started with run-and-continue'))
    # a plain run is never auto-answered: with the harness not answering (config answer=None), any
    # on_end_prompt during a run started by run() must be preceded by a harness 'send' call
    if scn.get('config', {}).get('answer', 'continue') is None:
        plain = False
        for o in obs:
            k = o.get('k')
            if k == 'ret' and o['api'] == 'run' and o['res'] == 'ok':
                plain = True
            if k == 'ret' and o['api'] in ('run_and_continue', 'run_continue_and_wait') and o['res'] == 'ok':
                plain = False
            if k == 'hook' and o['hook'] == 'on_change_state' and o.get('state_name') == 'finished':
                plain = False
            if plain and k == 'hook' and o['hook'] == 'on_end_prompt':
                sent = any(x.get('k') == 'call' and x.get('api') == 'send' and x['i'] < o['i'] for x in obs)
                if not sent:
                    bad.append(('plain-run-auto-answered', f'a prompt of a run started with run() was answered automatically (run {o.get("run_no")})'))
                    break
    return bad


def _trimmed(f):
    def g(scn, obs):
        # nothing after the 'end' marker counts: the epilogue cancels whatever is left
        cut = next((o['i'] for o in obs if o.get('k') == 'end'), None)
        return f(scn, obs if cut is None else obs[:cut + 1])
    return g


def _c14_specific(f):
    """violations met in a history in which the task awaiting reset() was CANCELLED while the reset was suspended in a hook are
    reported under a signature that says so (the recorded finding is about exactly these histories, nothing else)"""
    def g(scn, obs):
        bad = f(scn, obs)
        m = scn.get('meta', {})
        if m.get('family') == 'cancelled-reset' and bad:
            bad = [(f'reset-half-applied:caller-cancelled@{m.get("gate")}:from-{m.get("frm")}',
                    f'the task awaiting reset(statement, run_no_start_from) was cancelled while the reset was suspended in the {m.get("gate")} hook of a '
                    f'user plugin (state {m.get("frm")}): reset() returned normally (transitions swallows the CancelledError of a root trigger) with the '
                    'request half applied: ' + '; '.join(what for _, what in bad[:3]))]
        return bad
    return g


c14 = _c14_specific(c14)

ORACLES = {k: _trimmed(f) for k, f in {'C01': c01, 'C02': c02, 'C03': c03, 'C12': c12, 'C14': c14, 'C15': c15, 'C16': c16}.items()}
