"""Worker functions executed in the CHILD process of `nextline.utils.run_in_process`
by the C17 matrix (harness/props/c17.py, harness/proc_runner.py).

They live in an importable module because the spawn context pickles the callable by
reference and the child re-imports it.  Use through functools.partial(work, spec).

spec = {
  'outcome': 'return' | 'raise' | 'unpicklable' | 'sysexit' | 'hardexit' | 'block',
  'n': int,                 # value returned / exit status
  'exc': str,               # 'raise': which exception class (see EXC_KINDS; default 'worker')
  'started': path | None,   # written (pid) when the function body starts
  'dur': float,             # seconds of work before the outcome (time.sleep in 5 ms slices)
  'log': int,               # number of log records emitted (logging.getLogger('verif.worker'))
  'log_size': int,          # characters per record
  'release': path | None,   # 'block': wait until this file exists, then return n
  'linger': float,          # a NON-daemon thread keeps the worker process alive this long after the function ended
}
"""
from __future__ import annotations

import logging
import os
import sys
import time


class WorkerError(Exception):
    """The exception raised by the 'raise' outcome (picklable, importable)."""


class WorkerBaseError(BaseException):
    """A custom BaseException subclass (not an Exception): picklable, importable."""


class UnpicklableError(Exception):
    """Cannot be pickled in the child (it holds a lambda)."""

    def __init__(self, n):
        super().__init__(n)
        self.hook = lambda: n


class UnloadableError(Exception):
    """Pickles in the child but cannot be rebuilt in the parent (two-argument constructor)."""

    def __init__(self, a, b):
        super().__init__(a)
        self.b = b


# kind -> qualified class name the parent must see in `raised`
EXC_KINDS = {
    'worker': 'harness.proc_workers.WorkerError',
    'value': 'builtins.ValueError',
    'kbint': 'builtins.KeyboardInterrupt',
    'aio_cancelled': 'asyncio.exceptions.CancelledError',
    'cf_cancelled': 'concurrent.futures._base.CancelledError',
    'genexit': 'builtins.GeneratorExit',
    'custom_base': 'harness.proc_workers.WorkerBaseError',
    'stopiter': 'builtins.StopIteration',
    'stopaiter': 'builtins.StopAsyncIteration',
    'unpicklable_exc': 'harness.proc_workers.UnpicklableError',
    'unloadable_exc': 'harness.proc_workers.UnloadableError',
}


def make_exc(kind: str, n: int) -> BaseException:
    if kind == 'worker':
        return WorkerError(n)
    if kind == 'value':
        return ValueError(n)
    if kind == 'kbint':
        return KeyboardInterrupt(n)
    if kind == 'aio_cancelled':
        import asyncio
        return asyncio.CancelledError(n)
    if kind == 'cf_cancelled':
        import concurrent.futures
        return concurrent.futures.CancelledError(n)
    if kind == 'genexit':
        return GeneratorExit(n)
    if kind == 'custom_base':
        return WorkerBaseError(n)
    if kind == 'stopiter':
        return StopIteration(n)
    if kind == 'stopaiter':
        return StopAsyncIteration(n)
    if kind == 'unpicklable_exc':
        return UnpicklableError(n)
    if kind == 'unloadable_exc':
        return UnloadableError(n, n)
    raise ValueError(kind)


def init(marker: str) -> None:
    """initializer: leaves a trace that it ran in the child"""
    with open(marker, 'a') as f:
        f.write(f'{os.getpid()}\n')


def _spend(dur: float) -> None:
    t_end = time.monotonic() + dur
    while True:
        left = t_end - time.monotonic()
        if left <= 0:
            return
        time.sleep(min(0.005, left))


def work(spec: dict):
    started = spec.get('started')
    if started:
        # diagnostic only: the runner's watchdog can ask a stuck worker for its stacks (SIGUSR1)
        try:
            import faulthandler
            import signal
            globals()['_dump_file'] = open(started + '.dump', 'w')
            faulthandler.register(signal.SIGUSR1, file=globals()['_dump_file'], all_threads=True)
        except Exception:
            pass
        tmp = started + '.tmp'
        with open(tmp, 'w') as f:
            f.write(str(os.getpid()))
        os.replace(tmp, started)
    n_log = int(spec.get('log', 0))
    if n_log:
        logger = logging.getLogger('verif.worker')
        body = 'x' * int(spec.get('log_size', 10))
        for i in range(n_log):
            logger.warning('%d %s', i, body)
    _spend(float(spec.get('dur', 0.0)))
    if spec.get('linger'):
        import threading
        threading.Thread(target=time.sleep, args=(float(spec['linger']),), daemon=False).start()
    out = spec.get('outcome', 'return')
    n = int(spec.get('n', 0))
    if out == 'return':
        return ('value', n)
    if out == 'raise':
        raise make_exc(spec.get('exc', 'worker'), n)
    if out == 'unpicklable':
        return lambda: n          # a lambda cannot be pickled
    if out == 'sysexit':
        sys.exit(n)
    if out == 'hardexit':
        os._exit(n)
    if out == 'block':
        rel = spec['release']
        while not os.path.exists(rel):
            time.sleep(0.005)
        return ('value', n)
    if out == 'logloop':
        # log for ever (until killed): large records keep the logging pipe busy
        logger = logging.getLogger('verif.worker')
        body = 'y' * int(spec.get('log_size', 10))
        i = 0
        while True:
            logger.warning('%d %s', i, body)
            i += 1
    raise ValueError(out)
