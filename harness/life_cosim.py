"""Co-simulation of the lifecycle LTS (coq/theories/Life/Model.v) against the real
nextline: the same controlled label sequence is executed by the model (inside Coq,
vm_compute) and by the implementation with EVERY hook gate held by a user plugin, and
the observations after each label are compared."""
from __future__ import annotations

import json
import random
import re

from . import common as C
from . import life

HOLD = ['start', 'close', 'reset', 'on_change_state', 'on_change_script', 'on_initialize_run',
        'on_start_run', 'on_end_run', 'on_finished']
# (kill / send_command are not held: a held send_command blocks the relay of the child's events,
#  because Continue.on_start_prompt awaits it inside the monitor task)
STMT = {'A': 1, 'B': 2, 'C': 3}
STMT_R = {v: k for k, v in STMT.items()}
FSM = ['created', 'initialized', 'running', 'finished', 'closed']
HOOKS = ['start', 'on_change_script', 'on_initialize_run', 'on_change_state', 'on_start_run', 'on_end_run',
         'on_finished', 'reset', 'close', 'kill', 'send_command']
OUTC = {'return': 'OReturn', 'raise': 'ORaise', 'exit': 'OSysExit', 'hard': 'ODied'}
OUTN = {'return': 0, 'raise': 1, 'exit': 2, 'hard': 0}
CALLS = ['start', 'run', 'reset', 'close', 'run_and_continue', 'run_continue_and_wait', 'run_session', 'kill', 'send']
RES = {'ok': 0, 'MachineError': 1, 'AssertionError': 2, 'AttributeError': 3, 'RuntimeError': 4}

# which gates the harness opens for Step at a given pc code / StepRun at a given rpc code (see Life/Obs.v)
PC_GATES = {4: [('start', {}), ('on_change_script', {})], 5: [('on_initialize_run', {})], 6: [('on_change_state', {'state_name': 'initialized'})],
            8: [('on_change_state', {'state_name': 'running'})], 9: [('on_change_script', {})], 10: [('reset', {})],
            12: [('on_initialize_run', {})], 13: [('on_change_state', {'state_name': 'initialized'})],
            16: [('close', {})], 17: [('on_change_state', {'state_name': 'closed'})], 19: [('kill', {}), ('send_command', {})]}
RPC_GATES = {2: [('on_start_run', {})], 4: [('on_end_run', {})], 5: [('on_finished', {})], 6: [('on_change_state', {'state_name': 'finished'})]}


def gen_labels(rng: random.Random, n: int) -> list:
    """Candidate labels; Coq decides which are possible in the state reached."""
    out = []
    started = rng.random() < 0.93
    if started:
        out.append(['call', 1, 'start', {}])
        for _ in range(4):
            out.append(['step', 1])
    for _ in range(n):
        r = rng.random()
        t = rng.randint(1, 4)
        if r < 0.30:
            # (no kill / hard exit here: a child that dies abruptly can leave a multiprocessing queue lock
            #  taken and hang the run -- a recorded finding of C02/C17, exercised by their own scenarios)
            api = rng.choice(['run', 'run', 'run', 'reset', 'reset', 'close', 'run_and_continue', 'run_continue_and_wait',
                              'run_session', 'start', 'kill_idle', 'send'])
            if api == 'kill_idle':
                api = 'kill' if rng.random() < 0.0 else 'send'
            args = {}
            if api == 'reset':
                args = rng.choice([{'statement': 'B', 'run_no_start_from': 10}, {'statement': 'C'}, {'run_no_start_from': 20}, {}, None])
                if args is None:      # any subset of the options, each tracing option absent / on / off
                    args = {}
                    if rng.random() < 0.4:
                        args['statement'] = rng.choice('ABC')
                    if rng.random() < 0.3:
                        args['run_no_start_from'] = rng.choice([1, 5, 10, 20])
                    for o in ('trace_threads', 'trace_modules'):
                        v = rng.choice([None, True, False])
                        if v is not None:
                            args[o] = v
            out.append(['call', t, api, args])
        elif r < 0.62:
            out.append(['step', t])
        elif r < 0.90:
            out.append(['steprun'])
        else:
            out.append(['child', rng.choice(['return', 'return', 'raise', 'exit'])])
    # drain: let everything finish
    for _ in range(6):
        for t in (1, 2, 3, 4):
            out.append(['step', t])
        out.append(['steprun'])
        out.append(['child', 'return'])
    return out


def opt(x, f=str):
    return 'None' if x is None else f'(Some {f(x)})'


def label_term(l) -> str:
    k = l[0]
    if k == 'call':
        _, t, api, a = l
        c = {'start': 'CStart', 'run': 'CRun', 'close': 'CClose', 'run_and_continue': 'CRunCont',
             'run_continue_and_wait': 'CRunContWait', 'run_session': 'CRunSession', 'kill': 'CSignal', 'send': 'CSend'}.get(api)
        if api == 'reset':
            c = '(CReset (mkOpts %s %s %s %s))' % (
                opt(STMT[a['statement']] if 'statement' in a else None, C.cz), opt(a.get('run_no_start_from'), C.cz),
                opt(a.get('trace_threads'), C.cbool), opt(a.get('trace_modules'), C.cbool))
        return f'Call {t}%nat {c}'
    if k == 'step':
        return f'Step {l[1]}%nat'
    if k == 'steprun':
        return 'StepRun'
    if k == 'child':
        return 'ChildExit ' + {'return': 'OReturn', 'raise': 'ORaise', 'exit': 'OSysExit', 'hard': 'ODied', 'killed': 'ODied'}[l[1]]
    raise ValueError(l)


def coq_file(cases: list[list]) -> str:
    rows = ['[' + '; '.join(label_term(l) for l in ls) + ']' for ls in cases]
    return ('From NL Require Import Life.Model Life.Obs.\nOpen Scope Z_scope.\n'
            'Definition s0 := init_state 1 1 false false.\n'
            'Definition cases : list (list label) := [\n ' + ';\n '.join(rows) + '].\n'
            'Eval vm_compute in map (fun ls => (cosim s0 ls, summary (final_of s0 ls))) cases.\n')


def parse_coq(out: str):
    m = re.search(r'=\s*(\[.*\])\s*:\s*list', out, re.S)
    if not m:
        return None
    t = m.group(1)
    t = t.replace('%Z', '').replace('%nat', '').replace(';', ',').replace('(', '[').replace(')', ']')
    t = re.sub(r'\s+', ' ', t)
    return json.loads(t)


def to_scenario(labels: list, pred: list) -> tuple[dict, list[int]]:
    """Scenario for the runner from the labels Coq found possible; returns also their indices."""
    steps = []
    idx = []
    for i, (l, p) in enumerate(zip(labels, pred)):
        ok, where, _ = p
        if not ok:
            continue
        idx.append(i)
        steps.append(['mark', i])
        k = l[0]
        if k == 'call':
            api = l[2]
            args = dict(l[3])
            if api == 'send':
                args = {'command': 'pass', 'prompt_no': 1, 'trace_no': 1}
            steps.append(['call', f'T{l[1]}', api, args])
            if api == 'kill':
                steps.append(['wait_child_exit', 3.0])
        elif k == 'step':
            for hook, want in PC_GATES.get(where, []):
                steps.append(['release_first', hook, want])
        elif k == 'steprun':
            for hook, want in RPC_GATES.get(where, []):
                steps.append(['release_first', hook, want])
        elif k == 'child':
            if l[1] != 'killed':
                steps.append(['child', l[1]])
        if k == 'child':
            steps.append(['wait_child_exit', 25.0])
        steps.append(['settle', 0.12, 6.0])
        if k == 'child':
            steps.append(['child_reset'])
    steps.append(['mark', -1])
    steps.append(['sample'])
    return {'config': {'hold': HOLD, 'statement': 'A'}, 'steps': steps, 'meta': {'family': 'cosim', 'expect_complete': False}, 'timeout': 120}, idx


def canon_impl(obs: list[dict]) -> dict[int, list]:
    """observations of the implementation per mark, in the model's encoding"""
    per: dict[int, list] = {}
    cur = None
    ended_all = False
    for o in obs:
        k = o.get('k')
        if k == 'mark':
            cur = o['n']
            per.setdefault(cur, [])
            continue
        if cur is None or cur == -1:
            continue
        if k == 'hook' and o['hook'] == 'send_command' and o.get('cmd') == 'continue':
            continue        # the harness answering a prompt of the child, not a label
        if k == 'hook' and o['hook'] in HOOKS:
            h = HOOKS.index(o['hook'])
            if o['hook'] in ('kill',):
                h = 9
            if o['hook'] == 'send_command':
                h = 10
            stmt = STMT.get(o.get('script_id'), -1) if o.get('script_id') else -1
            if o['hook'] not in ('on_change_script', 'on_initialize_run', 'on_start_run'):
                stmt = -1
            per[cur].append([1, h, FSM.index(o['state']), o['run_no'] if o['run_no'] is not None else -1, stmt])
            if o['hook'] == 'on_initialize_run':    # the tracing options frozen into the run arguments
                f = lambda x: -1 if x is None else 1 if x else 0
                per[cur].append([4, f(o.get('trace_threads')), f(o.get('trace_modules'))])
        elif k == 'pub':
            t, v = o['topic'], o['value']
            if t == 'state_name':
                per[cur].append([2, 0, FSM.index(v)])
            elif t == 'run_info':
                exc = (v['exc'] or [''])[-1]
                oc = 1 if 'ValueError' in exc else 2 if 'SystemExit' in exc else 3 if 'KeyboardInterrupt' in exc else 0
                per[cur].append([2, 1, v['run_no'], ['initialized', 'running', 'finished'].index(v['state']), STMT.get(v['script_id'], -1), oc])
            elif t == 'run_no':
                per[cur].append([2, 2, v])
            elif t == 'statement':
                per[cur].append([2, 3, STMT.get(v, -1)])
            elif t == 'continuous':
                per[cur].append([2, 4, 1 if v else 0])
        elif k == 'sub_end':
            if o['topic'] == 'state_name':
                per[cur].append([2, 5])
            elif o['topic'] == 'continuous':
                per[cur].append([2, 6])
        elif k == 'ret' and o.get('task', '').startswith('T'):
            api = o['api']
            per[cur].append([3, int(o['task'][1:]), CALLS.index(api) if api != 'send' else 8, RES.get(o['res'], 9)])
    return per


def canon_model(delta: list, ended_all: bool) -> tuple[list, bool]:
    """drop what the harness cannot see: broker topics after PubSub.close()"""
    out = []
    for d in delta:
        if d[0] == 0:
            continue        # the call itself: the harness issued it
        if d[0] == 2 and d[1] == 5:
            if ended_all:
                continue    # the second pubsub.close() at the end of close(): the harness's subscribers ended at the first
            ended_all = True
            out.append(d)
            continue
        if d[0] == 2 and d[1] in (0, 1, 2, 3) and ended_all:
            continue
        if d[0] == 2 and d[1] == 1:
            d = d[:5] + [d[5]]
        out.append(d)
    return out, ended_all


def compare(labels, pred, obs) -> list[dict]:
    per = canon_impl(obs)
    mism = []
    ended = False
    for i, (l, p) in enumerate(zip(labels, pred)):
        ok, where, delta = p
        if not ok:
            continue
        model, ended = canon_model(delta, ended)
        impl = per.get(i)
        if impl is None:
            if i == 0 or any(o.get('k') in ('runner_dead', 'runner_error', 'scenario_timeout', 'child_still_alive') for o in obs):
                break       # the runner itself failed: inconclusive, counted by the caller
            mism.append({'label_index': i, 'label': l, 'model': model, 'impl': 'not reached'})
            break
        # run_info 'finished' outcome canon and order-insensitive comparison within one step
        if sorted(map(json.dumps, model)) != sorted(map(json.dumps, impl)):
            if any(o.get('k') == 'child_still_alive' for o in obs):
                break       # the machine was too slow for the child to end within the harness's bound: inconclusive
            mism.append({'label_index': i, 'label': l, 'where': where, 'model': sorted(model), 'impl': sorted(impl)})
            break
    return mism


def run(ctx, n_cases: int, n_labels: int, rng=None) -> dict:
    rng = rng or ctx.rng
    cases = [gen_labels(rng, n_labels) for _ in range(n_cases)]
    files = {}
    CH = 40
    for i in range(0, len(cases), CH):
        files[f'cosim_{i // CH}'] = coq_file(cases[i:i + CH])
    res = ctx.coq_eval_many(files)
    preds = []
    for i in range(0, len(cases), CH):
        ok, out = res[f'cosim_{i // CH}']
        p = parse_coq(out) if ok else None
        if p is None:
            return {'error': 'coq-eval-failed: ' + out[-800:], 'cases': 0, 'mismatches': [], 'observations': []}
        preds += p
    scns = []
    for ls, (pr, summ) in zip(cases, preds):
        scn, idx = to_scenario(ls, pr)
        scns.append(scn)
    obs_all = life.run_many(scns)
    # a runner that died or timed out says nothing about the model: retry once
    for i, o in enumerate(obs_all):
        if any(x.get('k') in ('runner_dead', 'runner_error', 'scenario_timeout') for x in o):
            obs_all[i] = life.run_one(scns[i])
    mism = []
    n_eff = 0
    n_inconclusive = 0
    hist: dict[str, int] = {}
    for ls, (pr, summ), scn, obs in zip(cases, preds, scns, obs_all):
        if any(o.get('k') in ('runner_dead', 'runner_error', 'scenario_timeout', 'child_still_alive') for o in obs):
            n_inconclusive += 1
        eff = [l for l, p in zip(ls, pr) if p[0]]
        n_eff += len(eff)
        for l in eff:
            key = l[0] + (':' + l[2] if l[0] == 'call' else '')
            hist[key] = hist.get(key, 0) + 1
        m = compare(ls, pr, obs)
        for x in m:
            x['labels'] = [l for l, p in zip(ls, pr) if p[0]]
            mism.append(x)
    if n_inconclusive > max(2, len(cases) // 5):
        mism.append({'label_index': -1, 'label': 'harness', 'model': '', 'impl': f'{n_inconclusive} of {len(cases)} scenario runners died or timed out'})
    return {'cases': len(cases), 'inconclusive': n_inconclusive, 'effective_labels': n_eff, 'label_histogram': hist, 'mismatches': mism,
            'observations': list(zip(scns, obs_all)),
            'sample': {'labels': [l for l, p in zip(cases[0], preds[0][0]) if p[0]][:14]}}


if __name__ == '__main__':
    import sys
    ctx = C.Ctx('LIFE', 'quick', int(sys.argv[2]) if len(sys.argv) > 2 else 0)
    r = run(ctx, int(sys.argv[1]) if len(sys.argv) > 1 else 4, 30)
    print({k: v for k, v in r.items() if k not in ('observations', 'mismatches')})
    for m in r['mismatches'][:6]:
        print(json.dumps(m)[:1500])
    ctx.cleanup()
