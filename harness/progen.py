"""Grammar-based generator of small Python programs for the child-side properties (C04, C05).

A program is a sequence of statements from the grammar below; `size` = number of grammar nodes.
`enumerate_programs(n)` yields EVERY program of size <= n (exhaustive), `random_program(rng, n)`
draws a larger one.  Every program is deterministic, terminates, and uses only literals and names it
defines itself, so it means the same as source text, file, code object and as the body of a callable.

  stmt ::= Assign | Print | If(block, block) | For(block) | While(block) | Def(block) | Class(block)
         | Try(block, block) | TryFinally(block) | Raise | Lambda | LambdaCalls(block) | MapLambda
         | Gen(block) | GenNext | GenExpr | YieldFrom | Thread(block) | Threads2(block, block)
         | Task(block) | Tasks2(block, block) | WaitFor(block) | Lib(block) | LibThread | Break | Return
  block ::= stmt+

`Raise` raises an exception that nothing in the statement itself catches (it is caught by an enclosing
`Try`, or ends the thread / task / program).  `Lib` builds a tiny module object in the program
(`types.ModuleType`) whose functions call back into the script: library code for the filters.
"""
from __future__ import annotations

import itertools
from dataclasses import dataclass, field
from typing import Iterator

LIB_NAME = 'verif_helperlib'
LIB_FILE = '<verif_helperlib>'
LIB_SRC = ('def apply(f, x):\\n'
           '    y = f(x)\\n'
           '    return y\\n'
           'def twice(f, x):\\n'
           '    a = f(x)\\n'
           '    b = f(a)\\n'
           '    return b\\n'
           'def plain(x):\\n'
           '    z = x + 1\\n'
           '    return z\\n')


class Ctx:
    """emission context: unique names, what the program needs"""

    def __init__(self, prints: bool = True):
        self.n = 0
        self.prints = prints
        self.need: set = set()
        self.in_loop = 0
        self.in_func = 0
        self.in_async = 0

    def fresh(self, p: str) -> str:
        self.n += 1
        return f'{p}{self.n}'

    def out(self, ind: str, text: str) -> str:
        """a statement that reports `text` (print, or a C-level append when the program must not print)"""
        if self.prints:
            return f'{ind}print({text})'
        self.need.add('sink')
        return f'{ind}_sink({text})'


@dataclass
class Node:
    kind: str
    kids: list = field(default_factory=list)      # list of blocks (each a list of Node)

    def size(self) -> int:
        return 1 + sum(n.size() for b in self.kids for n in b)

    def kinds(self) -> set:
        s = {self.kind}
        for b in self.kids:
            for n in b:
                s |= n.kinds()
        return s

    def to_json(self):
        return [self.kind, [[n.to_json() for n in b] for b in self.kids]]


def from_json(j) -> Node:
    return Node(j[0], [[from_json(n) for n in b] for b in j[1]])


# kind -> number of blocks
ARITY = {
    'Assign': 0, 'Print': 0, 'If': 2, 'For': 1, 'While': 1, 'Def': 1, 'Class': 1, 'Try': 2, 'TryFinally': 1, 'Raise': 0,
    'Lambda': 0, 'LambdaCalls': 1, 'MapLambda': 0, 'Gen': 1, 'GenNext': 0, 'GenExpr': 0, 'YieldFrom': 0,
    'Thread': 1, 'Threads2': 2, 'Task': 1, 'Tasks2': 2, 'Lib': 1, 'LibThread': 0, 'Break': 0, 'Return': 0, 'WaitFor': 1,
}
LEAVES = [k for k, a in ARITY.items() if a == 0]
# kinds used by the exhaustive enumeration (Break/Return only make sense in a context; the random generator adds them)
ENUM_KINDS = ['Assign', 'Print', 'If', 'For', 'While', 'Def', 'Class', 'Try', 'TryFinally', 'Raise', 'Lambda', 'LambdaCalls',
              'MapLambda', 'Gen', 'GenNext', 'GenExpr', 'YieldFrom', 'Thread', 'Threads2', 'Task', 'Tasks2', 'Lib', 'LibThread', 'WaitFor']


def emit_block(block: list, ind: str, cx: Ctx) -> list:
    out: list = []
    for n in block:
        out += emit(n, ind, cx)
    return out or [ind + 'pass']


def emit(n: Node, ind: str, cx: Ctx) -> list:
    k = n.kind
    i2 = ind + '    '
    if k == 'Assign':
        v = cx.fresh('v')
        return [f'{ind}{v} = {cx.n} + 1']
    if k == 'Print':
        return [cx.out(ind, repr(cx.fresh('p')))]
    if k == 'If':
        c = cx.fresh('c')
        cond = 'i % 2' if cx.in_loop else f'len({c!r}) > 2'
        return [f'{ind}if {cond}:'] + emit_block(n.kids[0], i2, cx) + [f'{ind}else:'] + emit_block(n.kids[1], i2, cx)
    if k == 'For':
        cx.in_loop += 1
        body = emit_block(n.kids[0], i2, cx)
        cx.in_loop -= 1
        return [f'{ind}for i in range(2):'] + body
    if k == 'While':
        w = cx.fresh('w')
        cx.in_loop += 1
        body = emit_block(n.kids[0], i2, cx)
        cx.in_loop -= 1
        return [f'{ind}{w} = 2', f'{ind}while {w}:', f'{i2}{w} -= 1', f'{i2}i = {w}'] + body
    if k == 'Break':
        return [f'{ind}break'] if cx.in_loop else [f'{ind}pass']
    if k == 'Return':
        return [f'{ind}return 7'] if cx.in_func else [f'{ind}pass']
    if k == 'Def':
        f = cx.fresh('f')
        cx.in_func += 1
        la, cx.in_async = cx.in_async, 0
        lp, cx.in_loop = cx.in_loop, 0
        body = emit_block(n.kids[0], i2, cx)
        cx.in_loop = lp
        cx.in_async = la
        cx.in_func -= 1
        return [f'{ind}def {f}(a):'] + body + [f'{i2}return a + 1', f'{ind}r = {f}(1)', f'{ind}r = {f}(r)']
    if k == 'Class':
        c = cx.fresh('K')
        cx.in_func += 1
        la, cx.in_async = cx.in_async, 0
        lp, cx.in_loop = cx.in_loop, 0
        body = emit_block(n.kids[0], i2 + '    ', cx)
        cx.in_loop = lp
        cx.in_async = la
        cx.in_func -= 1
        return [f'{ind}class {c}:', f'{i2}k = 3', f'{i2}def __init__(self):', f'{i2}    self.q = 1',
                f'{i2}def m(self, a):'] + body + [f'{i2}    return a + self.q + self.k', f'{ind}o = {c}()', f'{ind}r = o.m(2)']
    if k == 'Try':
        return ([f'{ind}try:'] + emit_block(n.kids[0], i2, cx) + [f'{ind}except ValueError as e:']
                + emit_block(n.kids[1], i2, cx))
    if k == 'TryFinally':
        t = cx.fresh('t')
        return [f'{ind}try:'] + emit_block(n.kids[0], i2, cx) + [f'{ind}finally:', f'{i2}{t} = 0']
    if k == 'Raise':
        return [f'{ind}raise ValueError({cx.fresh("e")!r})']
    if k == 'Lambda':
        g = cx.fresh('g')
        return [f'{ind}{g} = lambda a: a * 2', f'{ind}r = {g}(3)']
    if k == 'LambdaCalls':
        f = cx.fresh('f')
        g = cx.fresh('g')
        cx.in_func += 1
        la, cx.in_async = cx.in_async, 0
        lp, cx.in_loop = cx.in_loop, 0
        body = emit_block(n.kids[0], i2, cx)
        cx.in_loop = lp
        cx.in_async = la
        cx.in_func -= 1
        return [f'{ind}def {f}(a):'] + body + [f'{i2}return a', f'{ind}{g} = lambda a: {f}(a) + 1', f'{ind}r = {g}(4)']
    if k == 'MapLambda':
        return [f'{ind}r = sorted([3, 1, 2], key=lambda a: -a)', f'{ind}r = list(map(lambda a: a + 1, r))']
    if k == 'Gen':
        g = cx.fresh('gen')
        cx.in_func += 1
        la, cx.in_async = cx.in_async, 0
        lp, cx.in_loop = cx.in_loop, 0
        body = emit_block(n.kids[0], i2, cx)
        cx.in_loop = lp
        cx.in_async = la
        cx.in_func -= 1
        return [f'{ind}def {g}(a):', f'{i2}yield a'] + body + [f'{i2}yield a + 1', f'{ind}for u in {g}(1):', f'{i2}r = u']
    if k == 'GenNext':
        g = cx.fresh('gen')
        return [f'{ind}def {g}():', f'{i2}b = yield 1', f'{i2}c = yield b', f'{ind}it = {g}()', f'{ind}r = next(it)',
                f'{ind}r = it.send(5)', f'{ind}r = next(it, None)']
    if k == 'GenExpr':
        return [f'{ind}r = sum(j * 2 for j in range(2))', f'{ind}r = [j for j in range(2)]']
    if k == 'YieldFrom':
        g = cx.fresh('gen')
        h = cx.fresh('gen')
        return [f'{ind}def {g}():', f'{i2}yield 1', f'{i2}return 2', f'{ind}def {h}():', f'{i2}b = yield from {g}()', f'{i2}yield b',
                f'{ind}r = list({h}())']
    if k == 'Thread':
        cx.need.add('threading')
        f = cx.fresh('tf')
        cx.in_func += 1
        la, cx.in_async = cx.in_async, 0
        lp, cx.in_loop = cx.in_loop, 0
        body = emit_block(n.kids[0], i2, cx)
        cx.in_loop = lp
        cx.in_async = la
        cx.in_func -= 1
        t = cx.fresh('th')
        return [f'{ind}def {f}():'] + body + [f'{ind}{t} = threading.Thread(target={f})', f'{ind}{t}.start()', f'{ind}{t}.join()']
    if k == 'Threads2':
        cx.need.add('threading')
        f1, f2 = cx.fresh('tf'), cx.fresh('tf')
        cx.in_func += 1
        la, cx.in_async = cx.in_async, 0
        lp, cx.in_loop = cx.in_loop, 0
        b1 = emit_block(n.kids[0], i2, cx)
        b2 = emit_block(n.kids[1], i2, cx)
        cx.in_loop = lp
        cx.in_async = la
        cx.in_func -= 1
        t1, t2 = cx.fresh('th'), cx.fresh('th')
        return ([f'{ind}def {f1}():'] + b1 + [f'{ind}def {f2}():'] + b2 +
                [f'{ind}{t1} = threading.Thread(target={f1})', f'{ind}{t2} = threading.Thread(target={f2})',
                 f'{ind}{t1}.start()', f'{ind}{t2}.start()', f'{ind}{t1}.join()', f'{ind}{t2}.join()'])
    if k == 'Task':
        if cx.in_async:
            c = cx.fresh('co')
            lp, cx.in_loop = cx.in_loop, 0
            body = emit_block(n.kids[0], i2, cx)
            cx.in_loop = lp
            return [f'{ind}async def {c}():', f'{i2}await asyncio.sleep(0)'] + body + [f'{i2}return 5',
                                                                                       f'{ind}r = await asyncio.create_task({c}())']
        cx.need.add('asyncio')
        c, m = cx.fresh('co'), cx.fresh('amain')
        cx.in_func += 1
        la = cx.in_async
        cx.in_async = 1
        lp, cx.in_loop = cx.in_loop, 0
        body = emit_block(n.kids[0], i2, cx)
        cx.in_loop = lp
        cx.in_async = la
        cx.in_func -= 1
        return ([f'{ind}async def {c}():', f'{i2}await asyncio.sleep(0)'] + body +
                [f'{i2}return 5', f'{ind}async def {m}():', f'{i2}t = asyncio.create_task({c}())', f'{i2}b = await t',
                 f'{i2}return b', f'{ind}r = asyncio.run({m}())'])
    if k == 'Tasks2':
        if cx.in_async:
            c1, c2 = cx.fresh('co'), cx.fresh('co')
            lp, cx.in_loop = cx.in_loop, 0
            b1 = emit_block(n.kids[0], i2, cx)
            b2 = emit_block(n.kids[1], i2, cx)
            cx.in_loop = lp
            return ([f'{ind}async def {c1}():'] + b1 + [f'{i2}await asyncio.sleep(0)', f'{ind}async def {c2}():', f'{i2}await asyncio.sleep(0)']
                    + b2 + [f'{ind}r = await asyncio.gather({c1}(), {c2}())'])
        cx.need.add('asyncio')
        c1, c2, m = cx.fresh('co'), cx.fresh('co'), cx.fresh('amain')
        cx.in_func += 1
        la = cx.in_async
        cx.in_async = 1
        lp, cx.in_loop = cx.in_loop, 0
        b1 = emit_block(n.kids[0], i2, cx)
        b2 = emit_block(n.kids[1], i2, cx)
        cx.in_loop = lp
        cx.in_async = la
        cx.in_func -= 1
        return ([f'{ind}async def {c1}():'] + b1 + [f'{i2}await asyncio.sleep(0)', f'{i2}return 1',
                                                    f'{ind}async def {c2}():', f'{i2}await asyncio.sleep(0)'] + b2 +
                [f'{i2}return 2', f'{ind}async def {m}():', f'{i2}a = await asyncio.gather({c1}(), {c2}())', f'{i2}return a',
                 f'{ind}r = asyncio.run({m}())'])
    if k == 'WaitFor':
        # a task whose first frame is library code (the coroutine asyncio.wait_for) awaiting the user's coroutine
        u = cx.fresh('co')
        if cx.in_async:
            lp, cx.in_loop = cx.in_loop, 0
            body = emit_block(n.kids[0], i2, cx)
            cx.in_loop = lp
            return ([f'{ind}async def {u}():'] + body + [f'{i2}await asyncio.sleep(0)', f'{i2}b = 1', f'{i2}await asyncio.sleep(0)', f'{i2}return 3',
                                                         f'{ind}r = await asyncio.create_task(asyncio.wait_for({u}(), 5))'])
        cx.need.add('asyncio')
        m = cx.fresh('amain')
        cx.in_func += 1
        la = cx.in_async
        cx.in_async = 1
        lp, cx.in_loop = cx.in_loop, 0
        body = emit_block(n.kids[0], i2, cx)
        cx.in_loop = lp
        cx.in_async = la
        cx.in_func -= 1
        return ([f'{ind}async def {u}():'] + body + [f'{i2}await asyncio.sleep(0)', f'{i2}b = 1', f'{i2}await asyncio.sleep(0)', f'{i2}return 3',
                                                     f'{ind}async def {m}():', f'{i2}t = asyncio.create_task(asyncio.wait_for({u}(), 5))',
                                                     f'{i2}return await t', f'{ind}r = asyncio.run({m}())'])
    if k == 'Lib':
        cx.need.add('lib')
        f = cx.fresh('cb')
        cx.in_func += 1
        la, cx.in_async = cx.in_async, 0
        lp, cx.in_loop = cx.in_loop, 0
        body = emit_block(n.kids[0], i2, cx)
        cx.in_loop = lp
        cx.in_async = la
        cx.in_func -= 1
        return [f'{ind}def {f}(a):'] + body + [f'{i2}return a + 1', f'{ind}r = _lib.twice({f}, 1)', f'{ind}r = _lib.plain(r)']
    if k == 'LibThread':
        cx.need |= {'lib', 'threading'}
        t = cx.fresh('th')
        return [f'{ind}{t} = threading.Thread(target=_lib.plain, args=(1,))', f'{ind}{t}.start()', f'{ind}{t}.join()',
                f'{ind}r = _lib.apply(lambda a: a + 2, 1)']
    raise ValueError(k)


def render(block: list, prints: bool = True, ret: bool = False) -> str:
    """program text.  ret: end with `return <json-able value>` (only for the callable form)"""
    cx = Ctx(prints)
    body = emit_block(block, '', cx)
    head = []
    mods = [m for m in ('threading', 'asyncio') if m in cx.need]
    if 'lib' in cx.need:
        mods.append('types')
    if mods:
        head.append('import ' + ', '.join(mods))
    if 'sink' in cx.need:
        head += ['_log = []', '_sink = _log.append']
    if 'lib' in cx.need:
        head += [f"_lib = types.ModuleType('{LIB_NAME}')", f"exec(compile('{LIB_SRC}', '{LIB_FILE}', 'exec'), _lib.__dict__)"]
    if ret:
        body.append("return [r if 'r' in dir() else 0, 'done']")
    return '\n'.join(head + body) + '\n'


# ---------------------------------------------------------------- exhaustive enumeration

def _blocks(size: int, kinds: list, depth: int) -> Iterator[list]:
    """all non-empty statement sequences with exactly `size` nodes"""
    if size <= 0:
        return
    for first in range(1, size + 1):
        for st in _stmts(first, kinds, depth):
            if first == size:
                yield [st]
            else:
                for rest in _blocks(size - first, kinds, depth):
                    yield [st] + rest


def _stmts(size: int, kinds: list, depth: int) -> Iterator[Node]:
    for k in kinds:
        a = ARITY[k]
        if a == 0:
            if size == 1:
                yield Node(k)
        elif depth > 0 and size >= 1 + a:
            if a == 1:
                for b in _blocks(size - 1, kinds, depth - 1):
                    yield Node(k, [b])
            else:
                for s1 in range(1, size - 1):
                    for b1 in _blocks(s1, kinds, depth - 1):
                        for b2 in _blocks(size - 1 - s1, kinds, depth - 1):
                            yield Node(k, [b1, b2])


SKIPPED = {'invalid_programs': 0}          # programs rejected at generation time (reported in the evidence)


def valid(block: list) -> bool:
    """the program compiles in every statement form: as a module (printing and non-printing variant) and as the body of the
    function the callable form wraps it in"""
    try:
        for prints in (True, False):
            compile(render(block, prints, False), '<progen>', 'exec', dont_inherit=True)
        body = '\n'.join('    ' + l for l in render(block, True, True).splitlines()) or '    pass'
        compile('def entry():\n' + body + '\n', '<progen>', 'exec', dont_inherit=True)
        return True
    except SyntaxError:
        return False


def enumerate_programs(max_size: int, kinds: list | None = None, depth: int = 3) -> Iterator[list]:
    for n in range(1, max_size + 1):
        for b in _blocks(n, kinds or ENUM_KINDS, depth):
            if valid(b):
                yield b
            else:
                SKIPPED['invalid_programs'] += 1


# ---------------------------------------------------------------- random programs

def random_block(rng, size: int, depth: int, kinds: list) -> list:
    out = []
    left = size
    while left > 0:
        k = rng.choice(kinds)
        a = ARITY[k]
        if a == 0 or depth == 0 or left < 1 + a:
            if a != 0:
                k = rng.choice(LEAVES)
            out.append(Node(k))
            left -= 1
        else:
            budget = rng.randint(a, max(a, left - 1))
            if a == 1:
                out.append(Node(k, [random_block(rng, budget, depth - 1, kinds)]))
            else:
                s1 = rng.randint(1, budget - 1)
                out.append(Node(k, [random_block(rng, s1, depth - 1, kinds), random_block(rng, budget - s1, depth - 1, kinds)]))
            left -= 1 + budget
    return out


def random_program(rng, size: int, kinds: list | None = None) -> list:
    for _ in range(50):
        b = random_block(rng, size, 3, kinds or list(ARITY))
        if valid(b):
            return b
        SKIPPED['invalid_programs'] += 1
    return [Node('Assign')]


def size_of(block: list) -> int:
    return sum(n.size() for n in block)


def kinds_of(block: list) -> set:
    s: set = set()
    for n in block:
        s |= n.kinds()
    return s


def to_json(block: list):
    return [n.to_json() for n in block]


def block_from_json(j) -> list:
    return [from_json(n) for n in j]


# hand-written programs that are always run first (regressions and shapes the grammar does not produce)
FIXED = [
    ('lambda-minimal', 'f = lambda: 1\nf()\n'),
    ('lambda-calls-def', 'def g():\n    return 5\nf = lambda: g()\nx = f()\ny = 2\n'),
    ('syntax-error', 'x = 1\ny = = 2\n'),
    ('name-error', 'x = 1\nprint(x)\nprint(undefined_name)\n'),
    ('nested-exception', 'def f(a):\n    return 1 // a\ndef g(a):\n    return f(a)\nprint(g(1))\nprint(g(0))\n'),
    ('system-exit', 'print(1)\nraise SystemExit(3)\n'),
    ('user-keyboard-interrupt', 'def f():\n    raise KeyboardInterrupt\nprint(1)\nf()\n'),
    ('exception-in-generator', 'def gen():\n    yield 1\n    raise KeyError(2)\ntry:\n    for u in gen():\n        print(u)\nexcept KeyError:\n    print(3)\n'),
    ('gen-close', 'def gen():\n    try:\n        yield 1\n        yield 2\n    finally:\n        print(9)\nfor u in gen():\n    break\nprint(4)\n'),
    ('with-statement', 'class C:\n    def __enter__(self):\n        return 1\n    def __exit__(self, *a):\n        return False\nwith C() as c:\n    print(c)\nx = 2\n'),
    ('recursion', 'def fact(n):\n    if n <= 1:\n        return 1\n    return n * fact(n - 1)\nprint(fact(3))\n'),
    ('task-exception-from-callee', 'import asyncio\ndef f():\n    raise ValueError(1)\nasync def co():\n    await asyncio.sleep(0)\n    try:\n        f()\n    except ValueError:\n        x = 1\n    y = 2\n    z = 3\nasyncio.run(co())\n'),
    ('task-under-wait-for', 'import asyncio\nasync def user():\n    x = 1\n    await asyncio.sleep(0)\n    y = 2\n    await asyncio.sleep(0)\n    z = 3\nasync def amain():\n    t = asyncio.create_task(asyncio.wait_for(user(), 5))\n    await t\nasyncio.run(amain())\n'),
    ('multi-line-lambda', 'g = (lambda a:\n     a +\n     1)\nprint(g(1))\n'),
]


# Programs whose behaviour depends on HOW the code is compiled and in which environment it is exec'd (compiler flags
# inherited by compile(), the globals given to exec, interpreter flags).  Executed directly and under nextline they must
# behave the same; they do on the unchanged tree for these reasons: compile() in compose.py inherits no __future__ flag
# (compose.py has none), both exec in a fresh dict holding only __name__, both run in the same interpreter.
# Not in the family: print(__name__) -- see ENV_OBSERVATIONS.
ENV_PROGRAMS = [
    ('env-annotations-module', "x: int = 1\ny: 'str' = 'a'\nprint(__annotations__['x'] is int, repr(__annotations__['y']))\n"),
    ('env-annotations-function', "def f(a: int, b: float = 1.0) -> bool:\n    return True\nprint(f.__annotations__['a'] is int, f.__annotations__['b'] is float, f.__annotations__['return'] is bool)\n"),
    ('env-annotations-class', "class K:\n    a: int = 0\n    b: list = None\nprint(K.__annotations__['a'] is int, K.__annotations__['b'] is list)\n"),
    ('env-annotations-dataclass', "import dataclasses\n@dataclasses.dataclass\nclass P:\n    x: int = 0\n    y: float = 0.0\nfs = dataclasses.fields(P)\nprint(fs[0].type is int, fs[1].type is float)\nprint(P(1, 2.0))\n"),
    ('env-annotations-type-hints', "import typing\ndef g(v: int) -> str:\n    return str(v)\nh = typing.get_type_hints(g)\nprint(h['v'] is int, h['return'] is str, g.__annotations__['v'])\n"),
    ('env-annotation-undefined-name', "print('before')\ndef conv(value: Quantity) -> float:\n    return float(value)\nprint('after')\n"),
    ('env-annotation-evaluated-once', "n = []\ndef mark():\n    n.append(1)\n    return int\ndef f(a: mark()):\n    return a\nprint(len(n))\n"),
    ('env-globals', "a = 1\ndef f():\n    pass\nprint(sorted(k for k in globals() if not k.startswith('__')))\nprint(sorted(k for k in globals() if k.startswith('__')))\n"),
    ('env-builtins', "print(__builtins__ is not None, type(__builtins__).__name__)\nprint('len' in (__builtins__ if isinstance(__builtins__, dict) else vars(__builtins__)))\n"),
    ('env-pep479', "def g():\n    raise StopIteration\n    yield 1\ntry:\n    list(g())\nexcept RuntimeError as e:\n    print('RuntimeError', type(e.__cause__).__name__)\n"),
    ('env-true-division', "print(1 / 2, 7 // 2, -7 // 2)\n"),
    ('env-debug-assert', "print(__debug__)\ntry:\n    assert False, 'm'\n    print('no assert')\nexcept AssertionError as e:\n    print('AssertionError', e)\n"),
    ('env-docstring', "def f():\n    'doc of f'\n    return 1\nclass K:\n    'doc of K'\nprint(f.__doc__, K.__doc__)\n"),
    ('env-optimize-flags', "import sys\nprint(sys.flags.optimize, sys.flags.dev_mode)\n"),
    ('env-file-spec', "for nm in ('__file__', '__spec__', '__package__', '__loader__'):\n    print(nm, nm in globals())\n"),
    ('env-locals-is-globals', "print(locals() is globals())\nclass K:\n    print('__module__' in locals(), '__qualname__' in locals())\n"),
    ('env-barry-as-flufl', "try:\n    c = compile('1 <> 2', '<s>', 'eval')\n    print('flufl')\nexcept SyntaxError:\n    print('no flufl')\n"),
    ('env-nested-compile-inherits', "c = compile('x: int = 1', '<s>', 'exec')\nd = {}\nexec(c, d)\nprint(d['__annotations__']['x'] is int)\n"),
    ('env-generator-stop', "def g():\n    yield 1\n    return 5\ndef h():\n    r = yield from g()\n    print('r', r)\nlist(h())\n"),
    # code compiled by the SCRIPT under unusual file names: the trace machinery sees these frames' co_filename
    ('env-nested-empty-filename', "c = compile('y = 41 + 1\\nprint(\\'inner\\', y)\\n', '', 'exec')\nprint('start')\nexec(c)\nprint('done', y)\n"),
    ('env-nested-odd-filenames', "for fn in ('<', '>', '<>', 'a>', '<b', ' ', '.', '<x> ', 'no such dir/f.py'):\n    ns = {}\n    exec(compile('def f(a):\\n    return a + 1\\nr = f(1)\\n', fn, 'exec'), ns)\n    print(repr(fn), ns['r'])\n"),
    ('env-nested-function-empty-filename', "ns = {}\nexec(compile('def g(n):\\n    t = 0\\n    for i in range(n):\\n        t += i\\n    return t\\n', '', 'exec'), ns)\nprint(ns['g'](4))\nprint(ns['g'](2))\n"),
    ('env-class-module-name', "class K:\n    pass\nprint(K.__qualname__, K.__module__ == __name__)\n"),
]

# Programs given as a PATH whose behaviour depends on the import environment: executed directly (`python script.py`) the
# script's directory is sys.path[0], whatever else is on sys.path -- in particular when that directory is ALSO listed
# further back (PYTHONPATH of the application) and another entry in front of it offers a module of the same name.
# (name, script, siblings = files next to the script, shadows = files in a directory placed at the FRONT of sys.path
#  before the run while the script's directory is appended at its END; see harness/child_worker.py:import_env)
IMPORT_PROGRAMS = [
    ('env-import-sibling-shadowed', "import verif_helper_a\nprint(verif_helper_a.WHO)\nprint(verif_helper_a.twice(4))\n",
     {'verif_helper_a.py': "WHO = 'the module next to the script'\ndef twice(x):\n    return 2 * x\n"},
     {'verif_helper_a.py': "WHO = 'a module of the same name elsewhere on sys.path'\n"}),
    ('env-import-sibling-only', "import verif_helper_b\nprint(verif_helper_b.WHO)\n",
     {'verif_helper_b.py': "WHO = 'the module next to the script'\n"}, {}),
    ('env-sys-path-0-is-script-dir', "import os, sys\nprint(os.path.realpath(sys.path[0]) == os.path.dirname(os.path.realpath(__file__)))\n",
     {}, {'verif_helper_c.py': "WHO = 'unused'\n"}),
    ('env-import-from-sibling-package', "from verif_pkg_d import thing\nprint(thing.VALUE)\n",
     {'verif_pkg_d/__init__.py': "", 'verif_pkg_d/thing.py': "VALUE = 'sibling package'\n"},
     {'verif_pkg_d/__init__.py': "", 'verif_pkg_d/thing.py': "VALUE = 'shadowing package'\n"}),
]


# Observed differences that are by design and NOT part of the family (reported to the lead):
ENV_OBSERVATIONS = [
    ('print(__name__)', "under nextline the script's __name__ is 'nextline.spawned.plugin.plugins._script', executed directly it is "
                        "'__main__' (an `if __name__ == \"__main__\":` block does not run under nextline); documented in _script.py"),
]


# Programs that END with an uncaught SyntaxError / IndentationError / TabError raised at RUN TIME by the user's code
# (the statement itself is syntactically fine).  Executed directly the traceback starts in the user's code; under nextline
# it must be the same frames.  Each body is emitted at top level, inside a function, and two calls deep.
_RT_SYNTAX_BODIES = [
    ('exec', "exec('x = = 1')"),
    ('eval', "eval('1 +')"),
    ('compile', "compile('def f(:\\n    pass\\n', '<user-source>', 'exec')"),
    ('ast-parse', "__import__('ast').parse('x = = 1')"),
    ('raise-syntax-error', "raise SyntaxError('made by the user')"),
    ('raise-indentation-error', "raise IndentationError('made by the user')"),
    ('raise-tab-error', "raise TabError('made by the user')"),
    ('exec-indentation', "exec('if 1:\\nx = 1\\n')"),
    ('exec-tabs', "exec('if 1:\\n\\tx = 1\\n        y = 2\\n')"),
    ('import-bad-module', None),
]
_IMPORT_BAD = ["import os, sys, tempfile, importlib",
               "d = tempfile.mkdtemp(prefix='verif_badmod_')",
               "open(os.path.join(d, 'verif_bad_module.py'), 'w').write('x = = 1\\n')",
               "sys.path.insert(0, d)",
               "importlib.invalidate_caches()",
               "try:",
               "    import verif_bad_module",
               "finally:",
               "    sys.path.remove(d)",
               "    os.remove(os.path.join(d, 'verif_bad_module.py'))",
               "    os.rmdir(d)"]


def _rt_syntax_programs() -> list:
    out = []
    for name, stmt in _RT_SYNTAX_BODIES:
        body = _IMPORT_BAD if stmt is None else [stmt]
        top = ["print('before')"] + body + ["print('not reached')"]
        out.append((f'rt-syntax-{name}-top', '\n'.join(top) + '\n'))
        fn = ["def f(a):", "    b = a + 1"] + ['    ' + l for l in body] + ["    return b", "print('before')", "r = f(1)", "print('not reached')"]
        out.append((f'rt-syntax-{name}-function', '\n'.join(fn) + '\n'))
        deep = ["def f(a):"] + ['    ' + l for l in body] + ["def g(a):", "    return f(a) + 1", "class K:", "    def m(self):", "        return g(2)",
                                                              "print('before')", "r = K().m()"]
        out.append((f'rt-syntax-{name}-nested', '\n'.join(deep) + '\n'))
    # control: the same family, caught by the program (nothing escapes)
    out.append(('rt-syntax-caught', "try:\n    exec('x = = 1')\nexcept SyntaxError as e:\n    print(type(e).__name__)\nprint('after')\n"))
    return out


RT_SYNTAX_PROGRAMS = _rt_syntax_programs()
