"""Regenerate MANIFEST.json from the table below:  python -m harness.manifest"""
import json
from pathlib import Path

V = Path(__file__).resolve().parent.parent

CLAIMED = {
    'C08': dict(
        text='Machine-checked proof (Coq 8.16.1): the executable model of PubSubItem/PubSub refines a 40-line '
             'specification output-for-output for every operation sequence, and the specification satisfies the '
             'declarative statement (received ++ in-flight = replay ++ items published between start and end; '
             'termination after end; latest; one order). The model is tied to /repo on every run by a '
             'correspondence check (real PubSubItem/PubSub vs. the model evaluated by vm_compute on the same '
             'generated and exhaustive small operation sequences, plus a per-call atomicity check).',
        note='Trusted: Coq kernel; correspondence harness; asyncio.Queue FIFO. No axioms (Print Assumptions: closed).',
        technique='Coq refinement proof + invariant by induction over operation sequences; hand-written model '
                  'tied by differential correspondence (vm_compute vs. real code)',
        design='5/C08'),
}

CLAIMED['C19'] = dict(
    text='Machine-checked proof (Coq 8.16.1): executable models of merge_aiters / agen_with_wait / to_aiter whose labels carry '
         'the scheduler (which source completes when, several completions in one wake-up, arbitrary set pop order); theorems '
         'for every label sequence and any number/length of sources: projection on each tag is a prefix of / equals the source, '
         'exact accounting (no loss, no duplication), termination exactly when all sources are exhausted, agen yields exactly '
         'the wrapped items and raises only the exception of a failed awaited task, to_aiter yields exactly the items. Tied to '
         '/repo by driving the real functions with gated sources under generated schedules (incl. exhaustive short schedules) '
         'and comparing per-label outputs with the model evaluated by vm_compute.',
    note='Trusted: Coq kernel; correspondence harness (gated sources, asyncio.wait order stub); asyncio.wait/ensure_future/'
         'to_thread semantics are modelled, not verified. "First exception" is read at the granularity the generator can '
         'observe (C19_agen_chronological_refuted documents the stricter reading). No axioms.',
    technique='Coq invariant proofs over scheduler-labelled LTS models; hand-written model tied by differential correspondence',
    design='5/C19')

CLAIMED['C13'] = dict(
    text='Machine-checked proof (Coq 8.16.1) about definitions REGENERATED from the source on every run: a fail-closed ast '
         'translator transcribes read_lines_by_key / assign_key / peek_textio.write into Gen/PeekFuns.v and pins the shape '
         'of the wiring around them; theorems for every list of writes (every interleaving, every splitting into partial '
         'writes, every text): each reported piece ends at a newline, per trace the reported text is exactly the longest '
         'prefix of what the trace wrote that ends in a newline (exactly once, in order), interleaving independence, '
         'untraced text is never reported, the real stdout receives everything. Correspondence: the real closures on '
         'generated and exhaustive short write sequences, and generated printing programs (threads, tasks, partial '
         'writes, debugger-output commands) through the real spawned-side code, vs the model (vm_compute) and a direct oracle.',
    note='Trusted for the debugger-text clause: pdb/cmd write to the stdout they were constructed with and read through stdin.readline() (exercised by the two-sink runs with the real Pdb on every check). ' +
         'Trusted: Coq kernel; the translator and Stdout/Prim.v (meaning of the recognised Python constructs); harness. '
         'Modelled: GIL atomicity of dict ops on distinct keys; current_trace_no() constant during one write. No axioms.',
    technique='Coq list-induction proofs over a model regenerated from source by a fail-closed ast translator + differential correspondence',
    design='5/C13')

CLAIMED['C07'] = dict(
    text='Machine-checked proof (Coq 8.16.1): executable model of the command path at two levels. CHILD: incoming FIFO, relay thread with '
         'try_again_on_error, per-trace FIFO queues created/deleted at trace start/end, the prompt() loop discarding mismatching prompt '
         'numbers, run-unique prompt counter; labels interleave Send/Relay/StartTrace/EndTrace/OpenPrompt/Take arbitrarily. SYSTEM '
         '(Prompt/System.v): the child composed with the FIFO event channel to the main process and the main-side filter (commands are '
         'forwarded only for prompts main has seen open). Theorems for every label sequence: the command closing prompt (t,p) is a sent '
         'command addressed to exactly (t,p), executed at most once; a relayed genuine answer is executed after exactly the commands in '
         'front of it are discarded (delivery, with frame condition and step bound); at SYSTEM level every command sent for a prompt that '
         'is not open in the child when it would be executed -- already answered, not yet issued, wrong or unknown trace -- is dropped or '
         'discarded, never executed (C07_system_decoys_discarded, full strength; the child-level refutation of the future-command clause '
         'is kept as "child level only"). Tie: real spawned.main with a decoy-injecting responder vs the child model; the real Nextline '
         '(public API, subprocess) vs the composed model; the three code facts of the filter pinned by a fail-closed ast translator.',
    note='Trusted: Coq kernel; harness (responder, linearisation by prompt counter; system runner). Modelled: queue.Queue FIFO/thread-safe; '
         'Pdb executes the string the prompt function returns; the event channel child->main is FIFO. The former known finding '
         '(future-command-executed) is repaired (5be87b5). No axioms.',
    technique='Coq invariant proofs over an interleaving LTS (child) and its composition with the main-side filter; differential correspondence at child and system level; ast tie obligation',
    design='5/C07')
CLAIMED['C06'] = dict(
    text='Machine-checked proof (Coq 8.16.1): model of TaskAndThreadKeeper / ThreadTaskIdComposer / TaskOrThreadToTraceMapper '
         '(counters and finite maps over actors = (thread, optional task)); theorems for every label sequence: trace numbers are '
         'injective and sequential in start order, the (thread no, task no) pair identifies the actor consistently, every event '
         'is attributed to the trace of the actor that produced it, and a trace blocked at an unanswered prompt does not disable '
         'any label of another trace (non-interference relation). Tie: generated threaded/asyncio programs run through the '
         'real spawned-side code vs the model (vm_compute), with a responder withholding answers for random traces; probe lines are also written in TWO pieces across a suspension point '
         '(tasks of one thread) or across thread / event-loop starts, so a line in progress while another actor writes must stay with the '
         'trace that started it, and a reported line that no actor wrote is a violation. '
         'PARTIAL: the liveness half (other threads really keep running) depends on the GIL/OS scheduler and is only validated by the runs.',
    note='Trusted: Coq kernel; harness. Modelled: itertools.count atomic, weak-dict liveness, queue.Queue. No axioms.',
    technique='Coq invariant + non-interference proofs; differential correspondence on generated concurrent programs',
    design='5/C06')

LIFE_NOTE = 'Trusted: Coq kernel; the lifecycle harness (GatePlugin user plugin, scenario runner, canonicalisation, oracles). Modelled, not verified: transitions.AsyncMachine trigger semantics, apluggy gather, asyncio.Lock FIFO hand-over, asyncio scheduling (assumption F, DESIGN.md 4.2), multiprocessing spawn. No axioms (Print Assumptions: closed).'
LIFE_TIE = (' Tie to /repo on every run: gate-level co-simulation (the same label sequences executed by Life/Model.v inside Coq '
            'and by the real Nextline with every hook gate held by a user plugin, observations compared label by label), scenario '
            'families with real child processes (lifecycle points, transitions overlapping at every gate, k-sweeps over loop hops, '
            'endings x signals), the corpus of the defects found on the unchanged tree, and the property oracle on every observation log.')
CLAIMED['C01'] = dict(
    text='Machine-checked proof (Coq 8.16.1) on the lifecycle LTS Life/Model.v (API calls from any number of tasks, every '
         'suspension point a scheduling point, run task, child exit): for every label sequence every change of the state is an '
         'edge of the documented diagram, closed is absorbing, an invalid run/reset is exactly `refuse` which changes nothing but '
         'the call record; the transition table is REGENERATED from nextline/fsm/config.py and proved equal to the diagram and to '
         'the accept conditions/destinations of the model.' + LIFE_TIE,
    note=LIFE_NOTE, technique='Coq invariant proofs over an interleaving LTS (lock discipline + state/run-task invariants); table regenerated by ast translator; co-simulation',
    design='5/C01')
CLAIMED['C15'] = dict(
    text='Machine-checked proof (Coq 8.16.1) on Life/Model.v: in every reachable state at most one child process is alive and only '
         'while the state is running; finished implies the child has exited; a run request in any state but initialized and a reset '
         'in any state but initialized/finished are exactly `refuse` (no effect); a run task exists only in running/finished.' + LIFE_TIE,
    note=LIFE_NOTE, technique='Coq invariant proofs over an interleaving LTS; co-simulation + scenario oracles', design='5/C15')
CLAIMED['C12'] = dict(
    text='Machine-checked proof (Coq 8.16.1) on Life/Model.v: for every label sequence the hook history is accepted by the run-protocol '
         'automaton (init-run, start-run, end-run while running, finished while finished; each once, in order, never for a run that '
         'did not start), run arguments present from init-run through end-run and withdrawn at finished, exact correspondence between '
         'the automaton state and (run task, state, run_arg), nothing delivered for a refused request. The plugin (un)registration '
         'clause is a theorem on the registry model Life/Registry.v (a hook call is an atomic snapshot: a plugin receives exactly the '
         'calls made while its last (un)registration was a registration, each once), tied to register()/unregister()/reset() of a real '
         'object on generated histories. A run that FAILS TO START is not a label of the lifecycle LTS; it is covered by a control-flow skeleton of Callback._run/_finish, RunSession.run and relay_events REGENERATED from the source (translate/callback_skeleton.py) whose every await may raise: for every such oracle run_arg is withdrawn before the single Finish, the run() call is always unblocked, end-run iff the session completed (Life/FailStart.v; tied by real runs with failing plugins).' + LIFE_TIE,
    note=LIFE_NOTE, technique='Coq: abstraction to 11 abstract transitions + automaton invariant; co-simulation + oracle', design='5/C12')
CLAIMED['C03'] = dict(
    text='Machine-checked proof (Coq 8.16.1) on Life/Model.v: every return of a close is without error; the close that does the work '
         'returns only in a state that is closed, with no child alive, no run task, and both end-of-subscription publications issued; '
         'closed is absorbing and a later close() appends only its call and return; a termination measure decreases on every effective '
         'non-call step, no reachable state with a close in flight is stuck unless it waits only for the child to exit (exactly '
         'characterised), and from every reachable state with a close in flight there is a continuation after which that close has '
         'returned in the closed state. PARTIAL: that the child exits is not a theorem -- with an unanswered prompt it never does '
         '(recorded finding, witnessed by C03_needs_child_exit_witness and by two corpus scenarios); a second close() concurrent with the '
         'first returns early (C03_second_close_returns_early_witness, outside the quantifier of C03, see DESIGN 6.1).' + LIFE_TIE,
    note=LIFE_NOTE, technique='Coq invariant proofs + termination measure/progress over an interleaving LTS; co-simulation + close-point scenario families',
    design='5/C03')
CLAIMED['C02'] = dict(
    text='Machine-checked proof (Coq 8.16.1) on Life/Model.v: the run_info publications follow initialized, running, finished exactly '
         'once per run with one number and script; the finished record and the result reported afterwards carry the outcome of that '
         'run\'s child exit; waiters are released exactly when the run task has ended; progress: a rank decreases on every effective '
         'run-task step, the run task is always enabled unless it waits for the child (or for the run() call under assumption F), and '
         'from the child\'s exit it reaches finished in at most 7 steps. PARTIAL: the child process, OS signals and the executor are an '
         'oracle of the model; every way of ending x signal instants is validated by real runs (scenario family `endings`).' + LIFE_TIE,
    note=LIFE_NOTE + ' Known hazards found by the C17/C10 matrices (kill during a queue write) are recorded there.',
    technique='Coq: automaton invariants + measure/progress lemmas; real-process ending matrix', design='5/C02')
CLAIMED['C09'] = dict(
    text='Machine-checked proof (Coq 8.16.1): the event grammar as a declarative spec WF and an executable recogniser proved correct '
         '(wf r es = true <-> WF r es), prefix closure and completion (wf_prefix decides exactly the prefixes of WF streams), and an '
         'emitter model (structured per-actor programs, shared counters, arbitrary interleaving) proved to emit only WF streams / '
         'WF prefixes at any moment. Every real event stream produced by generated programs through the real spawned-side code is '
         'decided by the PROVED recogniser inside Coq and by an independent oracle, and replayed in the emitter model. PARTIAL: '
         'that Python with/finally and settrace produce structured programs is validated by the replay, not proved.',
    note='Trusted: Coq kernel; harness. Modelled: itertools.count and Queue.put atomic. No axioms.',
    technique='Coq: verified recogniser + emitter invariant; membership of real traces decided by computation', design='5/C09')
CLAIMED['C11'] = dict(
    text='Machine-checked proof (Coq 8.16.1): executable model of the registrars (trace_nos, trace_info, prompt_info, prompt_notice, '
         'run_info, stdout) with the hook/registration table REGENERATED from the source; for every event stream that is a prefix of a '
         'well-formed one (= a kill anywhere): active set = started-not-ended in start order after every event, trace info running '
         'then finished exactly once, prompts reported open then closed with the answering command, notices one-to-one with prompt '
         'starts, and after on_end_run everything is closed out and (with the C08 theorems) every subscriber terminates. Tie: the real '
         'registrars + PluginManager + PubSub driven on generated and recorded streams cut at every prefix, publications compared per topic.',
    note='Trusted: Coq kernel; translator hook_order.py; harness. Modelled: gather of non-suspending implementations (checked per run), dict order. No axioms.',
    technique='Coq fold invariants over WF prefixes; tables regenerated by ast translator; differential correspondence', design='5/C11')

CLAIMED['C14'] = dict(
    text='Machine-checked proof (Coq 8.16.1) on Life/Model.v: for every label sequence run numbers are handed out consecutively '
         '(next = previous + 1 unless a reset record restarting the numbering lies between), every record of a run carries its number, '
         'at every start-run the script and flags are those on display (last published statement / run info = run_arg = composer), '
         'a reset that returns has taken FULL effect (its options written over the composer as it was when it got the lock; the others '
         'kept) and a refused reset changes nothing, and no run starts while a reset is half way. (One clause of the plan was false as '
         'worded and is proved in the corrected form: a run\'s segment starts at its run_no publication, see C14_numbers_carried_refuted.)' + LIFE_TIE,
    note=LIFE_NOTE, technique='Coq: step classification into 10 kinds + state/history/ghost-snapshot invariants; co-simulation + oracle', design='5/C14')
CLAIMED['C16'] = dict(
    text='Machine-checked proof (Coq 8.16.1) on Life/Model.v: for every label sequence the continuous flag equals "a continue request is '
         'pending or its run is in progress", a refused request leaves no plugin of its own and restores the flag, a plugin answers '
         'prompts only during the run its own request started (at most one), during a run requested with plain run() no plugin is '
         'started whatever happened before, run_finish clears it, nothing is published after close.' + LIFE_TIE,
    note=LIFE_NOTE, technique='Coq invariant (cont_inv + converse) over the interleaving LTS; co-simulation + oracle', design='5/C16')
CLAIMED['C18'] = dict(
    text='Machine-checked proof (Coq 8.16.1) of the REPAIRED ThreadDoneCallback at bytecode granularity: the sequences of shared accesses '
         'of register/_monitor/close are REGENERATED from `dis` on every run and proved equal to the programs of the interleaving model '
         '(a heap of set objects, the lock, unbounded registering threads, adversarial scheduler); theorems for every schedule: a callback '
         'is never invoked twice, for an unregistered thread or before its end; once close() has returned every thread registered before '
         'close() has ended and was called back exactly once; close() re-raises the first callback exception; the iteration error is '
         'impossible; task half likewise. Tie: an opcode scheduler interleaves the REAL class deterministically (exhaustive placements '
         'for 1-2 threads, random beyond), observations compared with the model. No liveness theorem (drained runs only).',
    note='Trusted: Coq kernel; dis translator; opcode scheduler harness. Modelled: single bytecodes atomic under the GIL, threading.Lock, Thread.join. No axioms.',
    technique='Coq interleaving invariant (35 fields) over a model regenerated from bytecode; deterministic opcode-level replay on the real class', design='5/C18')
CLAIMED['C10'] = dict(
    text='Machine-checked proof (Coq 8.16.1): model of the relay (child buffer and flush, kill, FIFO pipe with sentinel, monitor task, '
         'main task with drain loop and a nondeterministic timeout); for every interleaving: delivered = emitted in order at end-run after '
         'a normal exit, a prefix on kill, every delivery between the start-run and end-run calls (under the explicit boot assumption; '
         'C10_bracket_needs_boot shows it is needed), nothing after end-run, hooks never overlap. PARTIAL: the pipe, feeder threads and the '
         'process are modelled; tie = real runs through the public API (bursts of >10^4 events, slow hooks, kills at event k) vs the model '
         'and the in-process reference stream.',
    note='Trusted: Coq kernel; harness. Assumptions (named): FIFO, flush-before-exit, boot, timer as a label. Known hazard (child killed while writing the queue) recorded under C02/C17. No axioms.',
    technique='Coq invariant over an interleaving LTS; real-process correspondence', design='5/C10')

CLAIMED['C17'] = dict(
    text='Machine-checked proof (Coq 8.16.1): the control skeleton of run_in_process/_run/RunningProcess is REGENERATED from the source '
         '(fail-closed ast translator) and interpreted over an abstract worker/executor world; theorems for every world: awaiting the '
         'handle never raises, the outcome shape (value xor exception xor neither, per behaviour), the process is always joined, cleanup '
         'is a prefix of / equals the full sequence, times ordered, signals never raise before the process is reaped; the handle hangs '
         'IFF the worker died while writing a log record (C17_hang_iff; refuted/partial pair = the recorded known finding). PARTIAL: '
         'the executor, spawn and OS signals are an oracle; tie = the real matrix under spawn (outcomes x signals x instants x logging x '
         'initializer, lingering children, a family of exception classes, awaiter storms) compared with the model. The findings about StopIteration / '
         'concurrent.futures.CancelledError / exceptions that cannot be rebuilt were repaired (957cca5).',
    note='Trusted: Coq kernel; translator run_skeleton.py; harness. Modelled: ProcessPoolExecutor, multiprocessing queues, OS signals. Known finding hang:log-listener-never-ends. No axioms.',
    technique='Coq interpreter over a skeleton regenerated by an ast translator; real-process matrix correspondence', design='5/C17')
CLAIMED['C05'] = dict(
    text='Machine-checked proof (Coq 8.16.1): model of the filter chain (pluggy firstresult LIFO over the registration order REGENERATED '
         'from the source, skip list regenerated), the per-frame trace status (WithContext) and the bdb/pdb stop logic with CustomizedPdb, '
         'over arbitrary well-nested raw trace-event streams; theorems: under all-step the prompted lines are exactly the lines of '
         'accepted frames in order; no prompt in a lambda, outside the script when module tracing is off, in skip-listed modules when on, '
         'in non-main threads when thread tracing is off; next/continue theorems under explicit stream hypotheses, with refutations '
         '(= the recorded known findings) where the full statement is false. Tie: generated programs (all small ones + random) through the '
         'real spawned-side code vs the model fed with the raw stream of an independent reference recorder.',
    note='Trusted: Coq kernel; translators; reference recorder; harness. Modelled from CPython 3.12.1: trace-event generation, bdb/pdb. Three recorded known findings. No axioms.',
    technique='Coq induction over event streams; tables regenerated by ast translators; differential correspondence with a reference recorder', design='5/C05')
CLAIMED['C04'] = dict(
    text='Machine-checked proof (Coq 8.16.1), PARTIAL: the traceback-cleaning functions (_remove_frame, both clean_exception) are pinned/transcribed '
         'from the source and proved to leave exactly the user frames (user traceback, compile-time SyntaxError, KeyboardInterrupt in a '
         'trace call), and the debugger model consumes the event stream without feeding back into it. Equality of stdout / return value / '
         'exception between a traced and an untraced run is a CPython guarantee that a model cannot exhibit: it is validated differentially '
         '(generated programs incl. compile-flag/exec-environment sensitive ones and run-time SyntaxError families x statement forms x resuming policies x flags, traced vs reference). The two findings about Ctrl-C at a prompt were repaired (26c557e, b7c3381); their programs are regression guards.',
    note='Trusted: Coq kernel; translator tb_funs.py; reference runs. No axioms.',
    technique='Coq algebraic lemmas on tracebacks + differential runs', design='5/C04')

NOT_YET = {
}


# ---- session 4: second tie per model -- the CURRENT SOURCE regenerated as an AST by a fail-closed translator and proved, in
# Coq, equal to / in simulation with the hand-written model (DESIGN.md 3.1a).  (text appended, technique suffix)
TIE2 = {
    'C08': (' SECOND TIE (every run): translate/pubsub_funs.py regenerates every method of PubSubItem and PubSub as a statement AST '
            '(Gen/PubSubFuns.v); PubSub/Tie.v, TieBroker.v prove that interpreting the REGENERATED bodies -- one frame per suspended '
            'subscriber generator -- equals the model step for every well-formed state and operation, hence output-for-output for every '
            'history (C08_tie_item_histories, C08_tie_broker_histories): the refinement theorems hold of what the source says now.',
            '; source regenerated by an ast translator and proved equal to the model (interpreter + simulation)'),
    'C10': (' SECOND TIE (every run): translate/relay_skeleton.py regenerates RunSession.run, relay_events, _monitor, the drain loop, Timer, '
            'the child\'s wait_until_queue_empty and the event dispatch as statement trees (Gen/RelaySkel.v); Relay/Tie.v proves, by induction over '
            'every label list, that the interpreter of the regenerated trees is in simulation with Relay/Model.v (C10_tie_simulation), so complete-in-order, '
            'prefix-on-kill, bracketing and nothing-after-end hold of the code, plus direct corollaries (no get before the previous hook returned; '
            'on_end_run only after `await task`; sentinel only after the child was awaited).  A component-level harness drives the real relay_events in '
            'the state "normal exit with events still in the pipe" x slow plugin, which a real run reaches only by luck.',
            '; source regenerated by an ast translator, simulation proof between the regenerated code and the model'),
    'C11': (' SECOND TIE (every run): translate/registrars_funs.py regenerates every hook of all nine registrars and the monitor.py dispatch as a '
            'statement AST (Gen/RegistrarsFuns.v); Registrars/Tie.v proves for ALL registrar states and events that interpreting the regenerated bodies yields '
            'exactly the state and publication list of the model, and composed in pluggy\'s order a whole run = pubs_run (C11_tie_whole_run).  SYSTEM LEVEL: '
            'Props/C11System.v (from System/Pipeline.v) composes emitter (C09), relay (C10), registrars (C11) and broker (C08): for every program, schedule, '
            'relay interleaving and kill point what reaches the hooks is a prefix of the emitted stream and the published state is closed out; the same '
            'statements are proved OVER THE REGENERATED CODE of the three components (System/PipelineCode.v: emitter interpreter -> relay interpreter -> '
            'registrars interpreter, C11_system_code_*: the registrars\' code fed what the relay code delivers never raises, is never cut short and '
            'publishes exactly the model\'s sequence on every topic); tie: the '
            'registrars inside a real Nextline with the relay held in a slow hook while the run ends (harness/props/c11_system.py).',
            '; registrar source regenerated and proved equal to the model; end-to-end composition theorems'),
    'C14': (' SECOND TIE (every run): translate/arg_composer.py genuinely translates RunArgComposer.init/start/reset/compose_run_arg, RunNoCounter, the '
            'option records and their plumbing in main.py into Gallina (Gen/ArgComposer.v); Life/ArgTie.v proves them EQUAL to the functions Life/Model.v uses, '
            'for all states and option records (both segments of reset around its nested hook), so every C14 theorem is about what the source says now; '
            'corollaries: a reset sets exactly the given options (explicit False/0 included) and nothing else, numbers are consecutive from the restart value.',
            '; composer source genuinely translated and proved equal to the model functions'),
    'C16': (' SECOND TIE (every run): translate/continuous_skeleton.py regenerates every method of Continue/Continuous and the Nextline methods that touch '
            'them (Gen/ContinuousSkel.v); Life/ContTie.v proves for ALL environments (any interference at any await, any exception class) that _requested entry / '
            'refusal / disable / close / on_start_run equal the model\'s functions and that the flag is `counter > 0` unless closed on every exit.',
            '; continuous.py regenerated and proved equal to the model functions for all environments'),
    'C18': (' LATE REGISTRATIONS: DoneCb/Late.v proves that a thread whose register() returns after close() was called, while close() still waits for an '
            'earlier thread that has not been called back, is called back exactly once and waited for too (C18_late_registration_*), with a boundary witness.',
            '; late-registration invariant'),
    'C19': (' SECOND TIE (every run): translate/aio_funs.py regenerates merge_aiters, agen_with_wait and to_aiter as statement ASTs (Gen/AioFuns.v); Aio/Tie*.v '
            'prove that a continuation machine running the REGENERATED bodies, driven by the model\'s own scheduler labels, simulates Aio/Model.v for every label '
            'list and never gets stuck (C19_tie_merge, C19_tie_agen, C19_tie_to_aiter).',
            '; source regenerated by an ast translator, simulation proof between the regenerated code and the model'),
}
_IMP = (' SECOND TIE (every run): translate/imp_skeleton.py regenerates every method of Imp and Nextline as a statement tree (Gen/ImpSkeleton.v); '
        'Life/ImpTie.v proves for every oracle (any await may raise, any condition either way): every machine trigger and broker close happens under the ONE '
        'lifecycle lock, user code never runs under it, the lock is free on every exit; the calls that take the lock are exactly those for which Life/Model.v\'s '
        'do_call acquires; the action order of close() equals the model\'s close path; Nextline reaches the machine only through Imp\'s locked methods; the '
        '_started/_closed guards are atomic with their tests.')
TIE2.update({
    'C01': (_IMP, '; imp.py/main.py regenerated, lock discipline proved for every oracle and tied to the model'),
    'C03': (_IMP, '; imp.py/main.py regenerated, lock discipline and close order proved for every oracle and tied to the model'),
    'C15': (_IMP, '; imp.py/main.py regenerated, lock discipline proved for every oracle and tied to the model'),
    'C13': (' The clause "debugger text is never reported, the real stdout receives everything" is now a THEOREM: translate/debugger_stream.py regenerates '
            'StdInOut, the Pdb construction in factory.py and the peek_textio wrapper (Gen/DebuggerStream.v); Stdout/DebugTie.v proves over a two-sink model, for '
            'every interleaving of script writes and debugger writes: erasing the debugger writes leaves the reported sequence unchanged '
            '(C13_debugger_text_never_reported), the real stdout gets exactly the script writes (C13_real_stdout_gets_everything), the prompt text is exactly what '
            'that trace\'s debugger wrote since its last readline.  A registrar-level oracle judges what subscribers of stdout receive.'
            ' The assumption "pdb writes everything to the stream it was constructed with" is a VISIBLE hypothesis of these theorems (no_sys_write, no_swap on the label list): '
            'it is false of CPython\'s pdb for `help pdb`, `interact` and statement commands (Pdb.default swaps sys.stdout process-wide) -- modelled by the labels LDbgSysWrite / LSwapOn / '
            'LSwapOff, witnessed by C13_debugger_text_never_reported_refuted_help_pdb and C13_real_stdout_refuted_bang_statement_other_thread, reproduced on the real code on every run and '
            'recorded as three known findings; C13_tie_reported_and_real_exact characterises events and real stdout exactly for EVERY label list.',
            '; debugger stream / peek wrapper regenerated, two-sink non-interference proofs with the pdb assumption as a visible hypothesis'),
    'C07': (' SECOND TIE (every run): translate/prompt_funs.py regenerates prompt.py, the prompt function of factory.py, CommandSender, the event dispatch and '
            'send_pdb_command (Gen/PromptFuns.v); Prompt/Tie.v and TieSys.v prove, by induction over every label list, that the interpreter of the regenerated code '
            'simulates Prompt/Model.v (child) and Prompt/System.v (system), and that over several runs the main-process guard forwards a command iff its pair was '
            'started and not ended in the CURRENT run (C07_tie_main_set_exact, C07_tie_main_stale_pair_dropped).',
            '; source regenerated by an ast translator, simulation proofs at child and system level'),
    'C06': (' SECOND TIE (every run): translate/ids_funs.py regenerates ThreadTaskIdComposer, TaskAndThreadKeeper, TaskOrThreadToTraceMapper, the counters and '
            'Repeater.on_start/end_trace (Gen/IdsFuns.v) -- which container is read by which key is visible in the term; Ids/Tie.v proves one label of the regenerated '
            'code = one step of Ids/Model.v for all related states and the whole-run simulation, so the invariants (trace numbers injective and sequential, the '
            '(thread, task) pair identifies the actor, numbers stable, attribution) hold of the code.',
            '; source regenerated by an ast translator, simulation proof between the regenerated code and the model'),
})
TIE2.update({
    'C02': (' SECOND TIE (every run): translate/run_record.py regenerates RunInfoRegistrar, the result substitution of RunSession.run, RunningProcess.__await__/_log_exited, '
            'the result()/format_exception() plumbing and every method of Callback (Gen/RunRecord.v; control flow from Gen/CallbackSkeleton.v, Gen/RunSkeleton.v); Life/RecordTie.v proves '
            'for every child outcome, every exit code (negative, zero, POSITIVE) and every oracle of raising awaits: no data statement raises by itself, the run_info publications are exactly '
            'the expected prefix of initialized, running, finished under one number (all three when no await raises), the finished record and result()/format_exception() carry THIS run\'s '
            'outcome (empty when the process died), _run_finished is set exactly once and last on every path, awaiting the handle never raises; tied to the publications of Life/Model.v.',
            '; run record / result plumbing regenerated, interpreter theorems over all outcomes and raising awaits'),
    'C05': (' SECOND TIE (every run): translate/bdb_funs.py regenerates the INSTALLED CPython bdb.py (trace_dispatch, dispatch_*, stop_here, _set_stopinfo, set_*), CustomizedPdb, the cmdloop hook, '
            'every filter with the registration order, global_trace_func and WithContext (Gen/BdbFuns.v); Bdb/Tie*.v prove each EQUAL to the corresponding function of Bdb/Model.v for all states, '
            'frames and events, and a whole raw-event stream through the regenerated code = Model.run (C05_tie_run): every theorem about prompts transfers.',
            '; bdb.py / CustomizedPdb / filters regenerated and proved equal to the model function by function'),
    'C09': (' SECOND TIE (every run): translate/emitter_skeleton.py regenerates the Repeater hooks, TraceCallHandler, the keeper/mapper, the cmdloop guard, the prompt function and the counters '
            '(Gen/EmitterSkel.v); Events/Tie.v proves that the interpreter of the regenerated trees, driven by the same programs and schedules, emits exactly the model\'s stream '
            '(C09_tie_same_stream) -- hence wf_prefix always and WF when finished hold of the code -- and that each generator puts its end event, with the numbers read at entry, also when an '
            'exception is thrown in at its yield.',
            '; emitter source regenerated, simulation proof for all programs and schedules'),
    'C17': (' SECOND TIE (every run): translate/proc_helpers.py regenerates multiprocessing_logging.py, RunningProcess, _call/_call_all and all of run_in_process incl. _run (Gen/ProcHelpers.v); '
            'Proc/HelperTie.v proves with a big-step interpreter over ALL environments: the listener task is started once and awaited on every exit path after the sentinel, records are handled '
            'exactly once in order, _call returns exactly one of (value, None)/(None, exc), awaiting never raises for any exit code (given no parent log handler raises: witness kept), the signal '
            'tables, defaults evaluated in Coq, and the projected trace of _run = Proc/Model.v\'s run_trace for every world (C17_tie_run_simulates_model).',
            '; helper source regenerated, interpreter theorems over all environments + simulation with the skeleton model'),
})
TIE2['C18'] = (TIE2['C18'][0] + ' TASK HALF: translate/taskdone_funs.py regenerates task.py, union.py and thread_exception.py (Gen/TaskDoneFuns.v, try/finally with Python semantics); DoneCb/TaskTie.v proves '
               'interpreter step = DoneCb/Task.v step for every well-formed state and operation, the whole-history corollary, and that the union closes BOTH helpers on every path (the defect found while '
               'proving it -- close() re-raising a task callback\'s exception without closing the thread helper -- is repaired, repo e564ce9). The late-registration theorems are generalised to every '
               'registration that returns before the monitor thread ended (chains of late threads).',
               TIE2['C18'][1] + '; task half regenerated and proved equal to the model')
# ---- session 5: the callback wiring of the state machine (fsm/machine.py, fsm/callback.py) and the thread helper's ast
_MACHINE = (' MACHINE WIRING (every run): translate/machine_wiring.py regenerates every method of StateMachine and of Callback (fsm/machine.py, fsm/callback.py) and the '
            '`before` names of CONFIG (Gen/MachineWiring.v); Life/MachineTie.v writes the callback resolution and order of transitions 0.9 for one trigger in Coq (trusted, '
            'with file/line references), DERIVES from the regenerated code the script of every (state, trigger) pair -- before callbacks, on_exit_<source>, the state change, '
            'on_enter_<dest>, after_state_change with its guard -- expands each Callback method into its hooks and waits, and proves for ALL model states that the segments of '
            'Life/Model.v (enter_start/run/reset, close_trigger, do_step at every pc inside a trigger, run_finish, the run task\'s last steps) equal the interpretation of the '
            'derived program: same hooks in the same order, each seeing the same state, the waits before / after the state change as in the code, refusal exactly for the '
            'pairs without a CONFIG row (*_tie_machine_*). COMPOSED with the regenerated Imp methods (Life/MachineImpTie.v): which trigger, with which event data, each Imp method fires '
            'under the lock, and enter_start/run/reset/close of the model EQUAL the regenerated method run from the moment the lock is held, for all states (close: pubsub.close, '
            'guarded wait, trigger close, pubsub.close, release, Continuous.close); every parked continuation is the rest of the whole program (Life/MachineCont.v). '
            'Not modelled there: a hook or wait that raises or is cancelled inside a trigger.')
for _k in ('C01', 'C03', 'C15'):
    TIE2[_k] = (TIE2[_k][0] + _MACHINE, TIE2[_k][1] + '; fsm/machine.py + fsm/callback.py regenerated, per-trigger callback scripts derived and proved equal to the model segments for all states')
TIE2['C12'] = (_MACHINE, '; fsm/machine.py + fsm/callback.py regenerated, per-trigger callback scripts derived and proved equal to the model segments for all states')
TIE2['C18'] = (TIE2['C18'][0] + ' THREAD HALF, AST LEVEL: translate/donecb_ast.py regenerates all six methods of ThreadDoneCallback as statement trees (fail-closed; locals numbered by first '
               'use); DoneCb/SkelFacts.v interprets the leaves -- the polarity of every test, the value stored into _active, the argument of the callback, the handler, the exit test, __init__ '
               '(set(), _closed False, Lock(), ExcThread(target=self._monitor, daemon=True) started last) -- and proves for ALL states that the interpreted monitor / register / close steps equal '
               'DoneCb/Model.v\'s (C18_skelfacts_*), so every theorem over the model\'s runs transfers to the interpreted source; the control shape of _monitor is pinned by a matcher.',
               TIE2['C18'][1] + '; thread helper ast regenerated, leaves interpreted and proved equal to the model steps')
for _k, (_t, _q) in TIE2.items():
    CLAIMED[_k] = dict(CLAIMED[_k], text=CLAIMED[_k]['text'] + _t, technique=CLAIMED[_k]['technique'] + _q)


def main():
    props = [json.loads(l) for l in (V / 'properties.jsonl').read_text().splitlines() if l.strip()]
    checks = []
    na = []
    for p in props:
        i = p['id']
        if i in CLAIMED:
            c = CLAIMED[i]
            checks.append({
                'property_id': i,
                'quick_cmd': f'./check {i} --tier quick',
                'thorough_cmd': f'./check {i} --tier thorough',
                'evidence_file': f'/verif/evidence/{i}.json',
                'replay_cmd_template': f'./check {i} --replay {{path}}',
                'engine': 'coq-proof+correspondence',
                'level_claimed': {'category': 'proof', 'text': c['text'], 'design_ref': c['design']},
                'level_note': c['note'],
                'technique': c['technique'],
            })
        else:
            na.append({'property_id': i, 'reason': NOT_YET.get(i, 'check not built yet (work in progress; see DESIGN.md section 5 for the plan) -- not a claim that the technique cannot apply')})
    m = {
        'version': 1,
        'setup_cmd': './check --setup',
        'hooks': {
            'guard': 'NEXTLINE_VERIF',
            'enable': 'no source hooks are needed: checks observe /repo through its public API; the guard name is reserved',
            'baseline_off_cmd': 'cd /repo && /venv/bin/python -m pytest -ra -q -p no:cacheprovider --timeout=900 --continue-on-collection-errors',
            'source_commits': [],
            'add_only': True,
        },
        'engines': [{
            'name': 'coq-proof+correspondence',
            'path': '/verif/check',
            'serves_properties': sorted(CLAIMED),
            'kind_free_text': 'Coq 8.16.1 development (coq/theories) + Python translators (translate/) + correspondence harnesses (harness/props)',
        }],
        'checks': checks,
        'not_applicable': na,
        'notes': 'See DESIGN.md. Every check: regenerate Gen/*.v from /repo, make Props/Cxx.vo, Print Assumptions audit, model-vs-implementation correspondence, property oracle, failing-input search.',
    }
    (V / 'MANIFEST.json').write_text(json.dumps(m, indent=1) + '\n')
    print('MANIFEST.json:', len(checks), 'checks,', len(na), 'not claimed')


if __name__ == '__main__':
    main()
