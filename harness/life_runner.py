"""Executes ONE lifecycle scenario against the real nextline (public API, stock event
loop, real spawned child) and prints the observation log as JSON.

    python -m harness.life_runner <scenario.json>   ->  '@@OBS ' + json on stdout

Scenario = {"config": {...}, "steps": [[op, ...], ...]}   (see harness/life.py)
Everything is observed through the public API: a user plugin (GatePlugin), the
subscribe_* iterators, call results, Nextline.state, and the child's pid.
"""
from __future__ import annotations

import asyncio
import json
import multiprocessing as mp
import os
import sys
import tempfile
import time
from pathlib import Path

HOOKS_ASYNC = [
    'start', 'close', 'reset', 'on_change_state', 'on_change_script', 'on_initialize_run',
    'on_start_run', 'on_end_run', 'on_finished', 'interrupt', 'terminate', 'kill', 'send_command',
    'on_start_trace', 'on_end_trace', 'on_start_prompt', 'on_end_prompt',
]

SCRIPT = '''
import os, sys, time
P = {ctl!r}
with open(P + '.id', 'a') as f:
    f.write({ident!r} + ' ' + str(os.getpid()) + '\\n')
while not os.path.exists(P):
    time.sleep(0.005)
c = open(P).read().strip()
open(P + '.ack', 'w').close()
if c == 'raise':
    raise ValueError('verif')
if c == 'exit':
    sys.exit(3)
if c == 'hard':
    os._exit(5)
if c == 'linger':
    # the process outlives the script body: a non-daemon thread keeps it alive
    import threading
    threading.Thread(target=time.sleep, args=(2.5,)).start()
'''


class World:
    def __init__(self, scn: dict):
        self.scn = scn
        self.cfg = scn.get('config', {})
        self.obs: list[dict] = []
        self.t0 = time.time()
        self.tmp = Path(tempfile.mkdtemp(prefix='verif_life_'))
        self.ctl = str(self.tmp / 'ctl')
        self.nl = None
        self.gates: dict[str, list] = {}          # hook -> list of (event, released?)
        self.hold: set[str] = set(self.cfg.get('hold', []))
        self.tasks: dict[str, asyncio.Queue] = {}
        self.task_objs: dict[str, asyncio.Task] = {}
        self.busy: dict[str, int] = {}
        self.subs: list[asyncio.Task] = []
        self.pids: list[int] = []
        self.procs: list = []
        self.auto_answer = self.cfg.get('answer', 'continue')   # None = leave prompts open
        self.open_prompts: dict = {}

    # ---- observation
    def state(self):
        try:
            return self.nl.state
        except Exception as e:  # pragma: no cover
            return f'!{type(e).__name__}'

    def alive(self) -> list[int]:
        out = []
        for p in self.procs:
            try:
                if p.is_alive():
                    out.append(p.pid)
            except Exception:
                pass
        return out

    def log(self, **kw):
        kw['i'] = len(self.obs)
        kw['t'] = round(time.time() - self.t0, 4)
        kw.setdefault('state', self.state())
        kw.setdefault('alive', len(self.alive()))
        self.obs.append(kw)

    def statement(self, ident: str):
        if ident == '@unpicklable':
            # a callable that cannot be sent to the child (a locally defined function): the child process is spawned,
            # the call never reaches it, the run ends with the pickling error
            def local_function():
                return None
            return local_function
        src = SCRIPT.format(ctl=self.ctl, ident=ident)
        if self.cfg.get('script_prints'):
            # the script also writes to standard output (OnWriteStdout events), before and after it is told how to end
            src = src.replace("while not os.path.exists(P):", "print('verif: waiting')\nwhile not os.path.exists(P):", 1)
            src = src.replace("open(P + '.ack', 'w').close()", "open(P + '.ack', 'w').close()\nprint('verif: told', c)", 1)
        return src


def task_name() -> str:
    t = asyncio.current_task()
    return t.get_name() if t else '?'


def make_plugin(w: World, tag: str = 'G'):
    from nextline.plugin.spec import hookimpl

    class GatePlugin:
        pass

    def mk(hook):
        async def impl(**kw):
            ctx = kw.get('context')
            ev = kw.get('event')
            ra = ctx.run_arg if ctx is not None else None
            info = dict(k='hook' if tag == 'G' else 'hook2', plugin=tag, hook=hook, run_arg=ra is not None, run_no=(ra.run_no if ra else None), task=task_name())
            if tag != 'G':
                w.log(**info)
                return
            if ev is not None:
                info['ev_run_no'] = getattr(ev, 'run_no', None)
                if hook in ('on_start_prompt', 'on_end_prompt', 'on_start_trace', 'on_end_trace'):
                    info['trace_no'] = getattr(ev, 'trace_no', None)
                    info['prompt_no'] = getattr(ev, 'prompt_no', None)
            if hook == 'on_change_state':
                info['state_name'] = kw.get('state_name')
            if ev is not None and hook == 'on_start_prompt':
                w.open_prompts[(ev.trace_no, ev.prompt_no)] = True
            if ev is not None and hook == 'on_end_prompt':
                w.open_prompts.pop((ev.trace_no, ev.prompt_no), None)
            if hook == 'send_command':
                info['cmd'] = getattr(kw.get('command'), 'command', None)
            if hook == 'on_change_script':
                info['script_id'] = ident_of(kw.get('script'))
            if hook == 'on_start_run' and ctx is not None and ctx.running_process is not None:
                p = ctx.running_process.process
                if p not in w.procs:
                    w.procs.append(p)
                info['pid'] = p.pid
                info['script_id'] = ident_of(ra.statement) if ra else None
                info['trace_threads'] = ra.trace_threads if ra else None
                info['trace_modules'] = ra.trace_modules if ra else None
            if hook in ('on_start_run', 'on_initialize_run'):
                info.update(shown(w))
            if hook == 'on_initialize_run' and ra is not None:
                info['script_id'] = ident_of(ra.statement)
                info['trace_threads'] = ra.trace_threads
                info['trace_modules'] = ra.trace_modules
            n = len(w.gates.setdefault(hook, []))
            info['n'] = n
            gate = asyncio.Event()
            gate.info = info
            held = hook in w.hold
            w.gates[hook].append(gate)
            info['held'] = held
            w.log(**info)
            if hook == 'on_start_prompt' and w.auto_answer and ev is not None:
                # answer from a separate task so that this hook returns at once
                asyncio.ensure_future(w.nl.send_pdb_command(w.auto_answer, ev.prompt_no, ev.trace_no))
            if held:
                try:
                    await gate.wait()
                finally:
                    ra2 = ctx.run_arg if ctx is not None else None
                    w.log(k='gate_exit', hook=hook, n=n, task=task_name(), released=gate.is_set(),
                          run_arg=ra2 is not None, run_no=(ra2.run_no if ra2 else None), entered_run_no=info.get('run_no'))
        impl.__name__ = hook
        # signature: apluggy passes only the arguments an implementation names
        import inspect
        from nextline.plugin import spec
        params = list(inspect.signature(getattr(spec, hook)).parameters)
        src = f'async def {hook}(self, {", ".join(params)}):\n    return await _impl({", ".join(p + "=" + p for p in params)})\n'
        ns = {'_impl': impl}
        exec(src, ns)
        return hookimpl(ns[hook])

    for h in HOOKS_ASYNC + [x for x in w.cfg.get('extra_hooks', []) if x not in HOOKS_ASYNC]:
        setattr(GatePlugin, h, mk(h))
    return GatePlugin()


def shown(w: World) -> dict:
    """what the object has on display: the identifier of the script according to each reporting call"""
    nl = w.nl
    out = {}
    try:
        out['shown_statement'] = ident_of(nl.statement)
        src = nl.get_source()
        out['shown_source'] = ident_of('\n'.join(src))
        out['shown_lines'] = ident_of('\n'.join(nl.get_source_line(i + 1) for i in range(len(src))))
    except Exception as e:       # a reporting call that raises is itself worth seeing
        out['shown_error'] = type(e).__name__
    return out


def ident_of(statement) -> str | None:
    if isinstance(statement, str):
        for line in statement.splitlines():
            if line.strip().startswith("f.write('"):
                return line.strip()[len("f.write('"):].split("'")[0]
    return None


async def subscriber(w: World, topic: str, it):
    try:
        async for v in it:
            val = v
            if topic == 'run_info':
                val = {'run_no': v.run_no, 'state': v.state, 'script_id': ident_of(v.script), 'result': v.result,
                       'exc': (v.exception or '').strip().splitlines()[-1:] }
            elif topic == 'statement':
                val = ident_of(v)
            elif topic == 'prompt_notice':
                val = {'trace_no': v.trace_no, 'prompt_no': v.prompt_no}
            elif topic.startswith('prompt_info_'):
                val = {'trace_no': v.trace_no, 'prompt_no': v.prompt_no, 'open': v.open}
            elif topic == 'trace_nos':
                val = list(v)
            w.log(k='pub', topic=topic, value=val)
    except asyncio.CancelledError:
        raise
    except BaseException as e:
        w.log(k='sub_err', topic=topic, err=type(e).__name__)
        return
    w.log(k='sub_end', topic=topic)


def take_iterators(w: World):
    nl = w.nl
    return [
        ('state_name', nl.subscribe_state()), ('run_info', nl.subscribe_run_info()), ('run_no', nl.subscribe_run_no()),
        ('statement', nl.subscribe('statement')), ('trace_nos', nl.subscribe_trace_ids()),
        ('continuous', nl.subscribe_continuous_enabled()), ('prompt_notice', nl.prompts()),
    ]


def open_subs(w: World, tag: str = '', its=None):
    for topic, it in (take_iterators(w) if its is None else its):
        t = asyncio.ensure_future(subscriber(w, topic + tag, it))
        w.subs.append(t)


async def api_call(w: World, api: str, args: dict):
    nl = w.nl
    if api == 'start':
        return await nl.start()
    if api == 'run':
        return await nl.run()
    if api == 'reset':
        a = dict(args)
        if 'statement' in a:
            a['statement'] = w.statement(a['statement'])
        return await nl.reset(**a)
    if api == 'close':
        return await nl.close()
    if api == 'aexit':
        return await nl.__aexit__(None, None, None)
    if api == 'run_and_continue':
        return await nl.run_and_continue()
    if api == 'run_continue_and_wait':
        return await nl.run_continue_and_wait()
    if api == 'run_session':
        async with nl.run_session():
            w.log(k='in_session', task=task_name())
        return None
    if api in ('interrupt', 'terminate', 'kill'):
        return await getattr(nl, api)()
    if api == 'send':
        return await nl.send_pdb_command(args.get('command', 'continue'), args.get('prompt_no', 1), args.get('trace_no', 1))
    if api == 'result':
        return {'result': nl.result(), 'exc': (nl.format_exception() or '').strip().splitlines()[-1:]}
    if api == 'enabled':
        return nl.continuous_enabled
    raise ValueError(api)


async def worker(w: World, name: str, q: asyncio.Queue):
    while True:
        api, args = await q.get()
        w.log(k='call', task=name, api=api, args=args)
        try:
            r = await api_call(w, api, args)
            res = 'ok'
            extra = {'value': r} if api in ('result', 'enabled') else {}
        except asyncio.CancelledError:
            w.log(k='ret', task=name, api=api, res='CancelledError')
            w.busy[name] -= 1
            raise
        except BaseException as e:
            res = type(e).__name__
            extra = {'msg': str(e)[:200]}
        w.busy[name] -= 1
        w.log(k='ret', task=name, api=api, res=res, **extra)


async def settle(w: World, quiet: float = 0.25, limit: float = 12.0):
    t_end = time.time() + limit
    n = len(w.obs)
    t_q = time.time()
    while time.time() < t_end:
        await asyncio.sleep(0.02)
        if len(w.obs) != n:
            n = len(w.obs)
            t_q = time.time()
        elif time.time() - t_q >= quiet:
            # the child has gone but the run has not been closed out yet (process exit -> executor shutdown in a
            # thread -> end-run takes a while under load) and the harness is not withholding any gate: in transit
            held = any(getattr(g, 'info', {}).get('held') and not g.is_set() for gs in w.gates.values() for g in gs)
            # (also before the child exists: the state is already 'running' while the process is being spawned,
            #  which can take longer than the quiet period on a cold machine)
            in_transit = (not w.alive() and w.state() == 'running' and not held)
            # the child has been told to end (control file written) but is still alive, e.g. still starting under
            # load; not when a prompt is open and nobody answers (then it cannot get there)
            told = (os.path.exists(w.ctl) and w.alive() and w.state() == 'running' and not held and not w.open_prompts)
            if (in_transit and time.time() - t_q < quiet + 3.0) or (told and time.time() - t_q < quiet + 5.0):
                continue
            return True
    return False


async def run_scenario(w: World):
    from nextline import Nextline
    cfg = w.cfg
    init = dict(statement=w.statement(cfg.get('statement', 'A')))
    for k in ('run_no_start_from', 'trace_threads', 'trace_modules', 'timeout_on_exit'):
        if k in cfg:
            init[k] = cfg[k]
    nl = Nextline(**init)
    w.nl = nl
    nl.register(make_plugin(w))
    if cfg.get('subscribe', True):
        open_subs(w)
    for step in w.scn['steps']:
        op = step[0]
        if op == 'call':
            _, name, api = step[:3]
            args = step[3] if len(step) > 3 else {}
            if name not in w.tasks:
                w.tasks[name] = asyncio.Queue()
                w.busy[name] = 0
                w.task_objs[name] = asyncio.ensure_future(worker(w, name, w.tasks[name]))
                w.task_objs[name].set_name(name)
            w.busy[name] += 1
            w.tasks[name].put_nowait((api, args))
            # let the worker pick the call up and run to its first suspension
            await asyncio.sleep(0)
        elif op == 'answer_open':
            # answer (with step[1], default 'continue') every prompt that is open right now and that nothing has answered
            for (tn, pn) in list(w.open_prompts):
                w.log(k='call', task='H', api='send', args={'command': step[1] if len(step) > 1 else 'continue', 'prompt_no': pn, 'trace_no': tn})
                try:
                    await w.nl.send_pdb_command(step[1] if len(step) > 1 else 'continue', pn, tn)
                    w.log(k='ret', task='H', api='send', res='ok')
                except BaseException as e:
                    w.log(k='ret', task='H', api='send', res=type(e).__name__)
        elif op == 'hops':
            for _ in range(step[1]):
                await asyncio.sleep(0)
        elif op == 'hold':
            w.hold |= set(step[1:])
        elif op == 'unhold':
            w.hold -= set(step[1:])
        elif op == 'release':
            hook = step[1]
            which = step[2] if len(step) > 2 else 'all'
            gs = w.gates.get(hook, [])
            for i, g in enumerate(gs):
                if which == 'all' or which == i:
                    g.set()
        elif op == 'release_first':
            # release the oldest gate of the hook that is still closed (and matches the given fields)
            hook = step[1]
            want = step[2] if len(step) > 2 else {}
            done = False
            for g in w.gates.get(hook, []):
                if not g.is_set() and all(g.info.get(a) == b for a, b in want.items()):
                    g.set()
                    done = True
                    break
            if not done:
                w.log(k='release_miss', hook=hook, want=want)
        elif op == 'register':
            # a second, passive plugin (un)registered through the public API between hook calls
            w.extra_plugins = getattr(w, 'extra_plugins', {})
            w.extra_plugins[step[1]] = make_plugin(w, step[1])
            w.nl.register(w.extra_plugins[step[1]])
            w.log(k='registered', plugin=step[1])
        elif op == 'register_failing':
            # a plugin whose part of the run session fails: step[2] = 'run_ctx' (the `run` context manager raises
            # on entry, before any child is spawned) | 'run_ctx_exit' (it raises on exit) | a hook name (that hook raises)
            import contextlib
            from nextline.plugin.spec import hookimpl

            class Failing:
                pass
            what = step[2]
            if what == 'run_ctx':
                @hookimpl
                @contextlib.asynccontextmanager
                async def run(self, context):
                    w.log(k='failing', plugin=step[1], what=what)
                    raise RuntimeError('verif: the run session of this plugin fails')
                    yield
                Failing.run = run
            elif what == 'run_ctx_exit':
                @hookimpl
                @contextlib.asynccontextmanager
                async def run(self, context):
                    try:
                        yield
                    finally:
                        w.log(k='failing', plugin=step[1], what=what)
                        raise RuntimeError('verif: the run session of this plugin fails on exit')
                Failing.run = run
            else:
                ns = {}
                exec(f'async def {what}(self, context):\n    _log()\n    raise RuntimeError("verif: this hook fails")\n',
                     {'_log': lambda: w.log(k='failing', plugin=step[1], what=what)}, ns)
                setattr(Failing, what, hookimpl(ns[what]))
            w.extra_plugins = getattr(w, 'extra_plugins', {})
            w.extra_plugins[step[1]] = Failing()
            w.nl.register(w.extra_plugins[step[1]])
            w.log(k='registered_failing', plugin=step[1], what=what)
        elif op == 'register_spawner':
            # ['register_spawner', name, hook, [[api, args], ...]]: a plugin whose <hook> implementation, the FIRST time it is called,
            # starts a task FROM INSIDE THE HOOK (its context derives from the transition in progress) that issues the API calls one
            # after the other, waiting for the harness ('spawner_go') before each call but the first
            from nextline.plugin.spec import hookimpl

            class Spawner:
                pass
            name, hook, calls = step[1], step[2], step[3]
            w.spawn_go = getattr(w, 'spawn_go', None) or asyncio.Event()
            fired = []

            async def _do():
                for k, (api, args) in enumerate(calls):
                    if k:
                        await w.spawn_go.wait()
                        w.spawn_go.clear()
                    w.log(k='call', task=name, api=api, args=args)
                    try:
                        await api_call(w, api, args)
                        res = 'ok'
                    except asyncio.CancelledError:
                        w.log(k='ret', task=name, api=api, res='CancelledError')
                        raise
                    except BaseException as e:   # noqa
                        res = type(e).__name__
                    w.log(k='ret', task=name, api=api, res=res)

            def _spawn():
                if not fired:
                    fired.append(asyncio.ensure_future(_do()))
                    w.subs.append(fired[0])
            ns = {}
            exec(f'async def {hook}(self, context):\n    _spawn()\n', {'_spawn': _spawn}, ns)
            setattr(Spawner, hook, hookimpl(ns[hook]))
            w.extra_plugins = getattr(w, 'extra_plugins', {})
            w.extra_plugins[name] = Spawner()
            w.nl.register(w.extra_plugins[name])
            w.log(k='registered_spawner', plugin=name, hook=hook)
        elif op == 'spawner_go':
            w.spawn_go.set()
        elif op == 'unregister':
            pl = getattr(w, 'extra_plugins', {}).pop(step[1], None)
            if pl is not None:
                w.nl.unregister(plugin=pl)
            w.log(k='unregistered', plugin=step[1])
        elif op == 'mark':
            w.log(k='mark', n=step[1])
        elif op == 'release_all':
            w.hold.clear()
            for gs in w.gates.values():
                for g in gs:
                    g.set()
        elif op == 'settle':
            ok = await settle(w, *(step[1:]))
            if not ok:
                w.log(k='settle_timeout')
        elif op == 'sleep':
            await asyncio.sleep(step[1])
        elif op == 'child':
            # let the current child end with the given outcome
            Path(w.ctl + '.tmp').write_text(step[1])
            os.replace(w.ctl + '.tmp', w.ctl)
        elif op == 'wait_child_in_script':
            # until the current child has begun to execute the script body (it appends a line to the id file)
            t_end = time.time() + (step[1] if len(step) > 1 else 20.0)
            def n_ids():
                try:
                    return len([x for x in Path(w.ctl + '.id').read_text().split('\n') if x])
                except FileNotFoundError:
                    return 0
            want = getattr(w, 'ids_seen', 0) + 1
            while n_ids() < want and time.time() < t_end:
                await asyncio.sleep(0.01)
            w.ids_seen = n_ids()
            if w.ids_seen < want:
                w.log(k='child_not_in_script')
        elif op == 'wait_ctl_ack':
            t_end = time.time() + (step[1] if len(step) > 1 else 20.0)
            while not os.path.exists(w.ctl + '.ack') and time.time() < t_end:
                await asyncio.sleep(0.01)
        elif op == 'wait_prompt_open':
            t_end = time.time() + (step[1] if len(step) > 1 else 20.0)
            while not w.open_prompts and time.time() < t_end:
                await asyncio.sleep(0.01)
            if not w.open_prompts:
                w.log(k='no_prompt_opened')
        elif op == 'wait_child_exit':
            t_end = time.time() + (step[1] if len(step) > 1 else 6.0)
            while w.alive() and time.time() < t_end:
                await asyncio.sleep(0.01)
            if w.alive():
                w.log(k='child_still_alive')
        elif op == 'child_reset':
            # the child must have READ the control file before it is withdrawn (under load the child can still be
            # starting when the scenario gets here): wait for its acknowledgement while a child is alive
            if os.path.exists(w.ctl):
                t_end = time.time() + 8.0
                while w.alive() and not os.path.exists(w.ctl + '.ack') and time.time() < t_end:
                    await asyncio.sleep(0.01)
                if w.alive() and not os.path.exists(w.ctl + '.ack'):
                    w.log(k='ctl_not_acknowledged')
            for f in (w.ctl, w.ctl + '.ack'):
                try:
                    os.unlink(f)
                except FileNotFoundError:
                    pass
        elif op == 'await':
            name = step[1]
            lim = step[2] if len(step) > 2 else 10.0
            t_end = time.time() + lim
            while w.busy.get(name, 0) > 0 and time.time() < t_end:
                await asyncio.sleep(0.01)
            if w.busy.get(name, 0) > 0:
                w.log(k='await_timeout', task=name)
        elif op == 'subscribe':
            open_subs(w, tag=step[1] if len(step) > 1 else '#2')
        elif op == 'take_iterators':
            # the iterators are HANDED OUT now; nobody advances them yet (seed C03-4: a consumer that is scheduled later)
            w.__dict__.setdefault('lazy', {})[step[1]] = take_iterators(w)
        elif op == 'iterate':
            open_subs(w, tag=step[1], its=w.lazy.pop(step[1]))
        elif op == 'subscribe_prompt_info_for':
            # a subscriber of the per-trace prompt stream, attached now (while the stream is live)
            t = asyncio.ensure_future(subscriber(w, f'prompt_info_{step[1]}', w.nl.subscribe_prompt_info_for(step[1])))
            w.subs.append(t)
            w.log(k='sub_start', topic=f'prompt_info_{step[1]}')
        elif op == 'other_object_cycle':
            # ANOTHER Nextline object in the same process goes through a whole life: start, a non-interactive run of a
            # trivial script, close.  Objects must not share state.
            from nextline import Nextline
            other = Nextline('x = 1\ny = 2\n')
            try:
                async with other:
                    await asyncio.wait_for(other.run_continue_and_wait(), 30)
                w.log(k='other_object', res='ok')
            except BaseException as e:    # noqa
                w.log(k='other_object', res=type(e).__name__)
        elif op == 'peek':
            # read-only: a client looking at the object (statement, source, run number, state)
            w.log(k='peek', run_no=getattr(w.nl, 'run_no', None), **shown(w))
        elif op == 'cancel_task':
            t = w.task_objs.get(step[1])
            if t:
                t.cancel()
        elif op == 'sample':
            ids = []
            try:
                ids = Path(w.ctl + '.id').read_text().split('\n')
            except FileNotFoundError:
                pass
            w.log(k='sample', tag=step[1] if len(step) > 1 else '', ids=[x for x in ids if x],
                  pids_alive=w.alive(), tasks_busy={k: v for k, v in w.busy.items() if v})
        else:
            raise ValueError(step)
    # ---- epilogue: record what is left, then clean up (not part of the verdict)
    w.log(k='end', pids_alive=w.alive(), tasks_busy={k: v for k, v in w.busy.items() if v},
          subs_open=sum(1 for t in w.subs if not t.done()))


async def cleanup(w: World):
    w.hold.clear()
    for gs in w.gates.values():
        for g in gs:
            g.set()
    try:
        Path(w.ctl).write_text('return')
    except Exception:
        pass
    for p in w.procs:
        try:
            if p.is_alive():
                p.kill()
        except Exception:
            pass
    for t in list(w.task_objs.values()) + w.subs:
        t.cancel()
    await asyncio.sleep(0.05)


def main():
    scn = json.loads(Path(sys.argv[1]).read_text())
    w = World(scn)

    async def go():
        try:
            await asyncio.wait_for(run_scenario(w), timeout=scn.get('timeout', 60))
        except asyncio.TimeoutError:
            w.log(k='scenario_timeout')
        except BaseException as e:
            import traceback
            w.log(k='runner_error', err=repr(e), tb=traceback.format_exc()[-1500:])
        finally:
            try:
                await asyncio.wait_for(cleanup(w), timeout=5)
            except BaseException:
                pass

    def finish():
        sys.stdout.write('@@OBS ' + json.dumps(w.obs, default=repr) + '\n')
        sys.stdout.flush()
        for p in mp.active_children():
            try:
                p.kill()
            except Exception:
                pass
        import shutil
        shutil.rmtree(w.tmp, ignore_errors=True)
        os._exit(0)

    async def go_and_exit():
        await go()
        # leave from inside the loop: asyncio.run() would wait for executor threads that can be blocked for
        # ever in queue.get() of a child that died abruptly (a recorded finding), and the log would be lost
        finish()

    import logging
    logging.disable(logging.CRITICAL)
    try:
        asyncio.run(go_and_exit())
    except BaseException as e:
        # an exception that escaped the event loop itself (asyncio re-raises KeyboardInterrupt / SystemExit
        # raised inside a task): the application is gone.  from_impl: it came through nextline's code.
        import traceback
        tb = traceback.format_exc()
        w.log(k='loop_crashed', err=type(e).__name__, from_impl='nextline' in tb.replace('/verif/', ''), tb=tb[-1500:], state='?', alive=0)
    finally:
        finish()


if __name__ == '__main__':
    main()
