"""Scenario families for the lifecycle co-simulation (DESIGN.md 4.3, 5/C01..C16)."""
from __future__ import annotations

import itertools
import random

Q = 0.15   # quiet time for 'settle'


def S(steps, meta=None, config=None, timeout=60):
    return {'config': config or {}, 'steps': steps, 'meta': meta or {}, 'timeout': timeout}


def settle(q=Q, lim=12.0):
    return ['settle', q, lim]


START = [['call', 'A', 'start'], settle()]
RUN_A = [['call', 'A', 'run'], settle()]
END_CHILD = [['child', 'return'], settle(), ['child_reset']]
FINISH_UP = [['release_all'], ['child', 'return'], settle(0.3), ['sample']]


def one_run(task='A', api='run'):
    return [['call', task, api], settle(), ['child', 'return'], settle(), ['child_reset']]


# ---------------------------------------------------------------- C03: close at every lifecycle point

def close_points(ksweep=(0, 1, 2, 3, 5, 8, 12)):
    out = []

    def add(point, who, steps, config=None, expect_complete=True):
        out.append(S(steps, dict(family='close', point=point, who=who, expect_complete=expect_complete), config))

    # never started
    add('never-started', 'only', [['call', 'A', 'close'], settle(), ['sample']])
    add('never-started-aexit', 'only', [['call', 'A', 'aexit'], settle(), ['sample']])
    # idle
    for who, t in (('same', 'A'), ('other', 'B')):
        add('idle', who, START + [['call', t, 'close'], settle(), ['call', t, 'close'], settle(), ['sample']])
    # start window
    for k in ksweep:
        add(f'start-window', f'other', [['call', 'A', 'start'], ['hops', k], ['call', 'B', 'close'], settle(), ['sample']] )
        out[-1]['meta']['k'] = k
    # run starting
    for k in ksweep:
        add('run-starting', 'other', START + [['call', 'A', 'run'], ['hops', k], ['call', 'B', 'close'], settle(0.3)] + FINISH_UP)
        out[-1]['meta']['k'] = k
    # running (script busy, prompts answered)
    for who, t in (('same', 'A'), ('other', 'B')):
        add('running', who, START + RUN_A + [['call', t, 'close'], settle(0.3), ['child', 'return'], settle(0.3), ['sample']])
    # running with a prompt open and nobody answering
    for who, t in (('same', 'A'), ('other', 'B')):
        add('running-open-prompt', who, START + RUN_A + [['call', t, 'close'], settle(0.5, 4.0), ['sample']],
            config={'answer': None}, expect_complete=False)
    # leaving the async-with block (close() under the object's timeout_on_exit) while the script is busy for longer than the timeout
    add('running-busy-aexit-timeout', 'other', START + RUN_A + [['call', 'B', 'aexit'], ['sleep', 1.7], ['sample'], ['child', 'return'], settle(0.6),
                                                                ['call', 'C', 'close'], settle(0.4), ['sample']],
        config={'timeout_on_exit': 1.0}, expect_complete=False)
    # finishing: the run's completion transition is held at each of its hooks
    for hook in ('on_end_run', 'on_finished', 'on_change_state'):
        for who, t in (('same', 'A'), ('other', 'B')):
            pre = START + RUN_A + [['hold', hook], ['child', 'return'], settle(0.3)]
            add(f'finishing@{hook}', who, pre + [['call', t, 'close'], settle(0.3), ['release_all'], settle(0.3), ['sample']])
    # finishing, and the completion transition FAILS: a registered plugin raises in one of the hooks of the run's end
    # (the scenario tests of the repository assert inside hooks).  close() issued while the run is in progress waits for
    # the run; it must still return, closed; a wait() from a third task must return too
    for hook in ('on_finished', 'on_end_run'):
        for who, t in (('same', 'A'), ('other', 'B')):
            add(f'finishing-fails@{hook}', who, START + [['register_failing', 'F1', hook]] + RUN_A +
                [['call', t, 'close'], settle(0.3), ['child', 'return'], settle(0.5), ['sample']])
        # the run was started through run_session(): task A is waiting for its end while B closes
        add(f'finishing-fails-waiter@{hook}', 'other', START + [['register_failing', 'F1', hook], ['call', 'A', 'run_session'], settle()] +
            [['call', 'B', 'close'], settle(0.3), ['child', 'return'], settle(0.5), ['sample']])
        # and close() after such a run has ended
        add(f'finished-after-failing@{hook}', 'other', START + [['register_failing', 'F1', hook]] + RUN_A +
            [['child', 'return'], settle(0.5), ['call', 'B', 'close'], settle(0.3), ['sample']])
    # finished
    for who, t in (('same', 'A'), ('other', 'B')):
        add('finished', who, START + one_run() + [['call', t, 'close'], settle(), ['call', t, 'close'], settle(), ['sample']])
    # a reset in flight, held at each of its hooks
    for hook in ('reset', 'on_change_script', 'on_initialize_run', 'on_change_state'):
        for frm in ('initialized', 'finished'):
            pre = START + (one_run() if frm == 'finished' else []) + [['hold', hook], ['call', 'A', 'reset', {'statement': 'B'}], settle()]
            add(f'reset-from-{frm}@{hook}', 'other', pre + [['call', 'B', 'close'], settle(0.3), ['release_all'], settle(0.3), ['sample']])
    # leaving the async-with block
    add('finished-aexit', 'same', START + one_run() + [['call', 'A', 'aexit'], settle(), ['sample']])
    # subscriptions handed out WHILE close() is in progress (after its first pubsub.close()): they too must have
    # terminated when close() returns
    add('subscribe-while-closing@waiting-for-run', 'other', START + RUN_A + [['call', 'B', 'close'], settle(0.3), ['subscribe', 'late'], settle(0.2),
                                                                           ['child', 'return'], settle(0.6), ['sample']])
    for hook in ('close', 'on_change_state'):
        add(f'subscribe-while-closing@{hook}', 'same', START + [['hold', hook], ['call', 'A', 'close'], settle(0.3), ['subscribe', 'late'], settle(0.2),
                                                                 ['release_all'], settle(0.4), ['sample']])
    # subscriptions handed out BEFORE close() whose consumer takes its first item only AFTER close() has returned (seed C03-4)
    for frm in ('initialized', 'finished'):
        add(f'iterate-after-close@{frm}', 'same', START + (one_run() if frm == 'finished' else []) + [['take_iterators', 'lazy'], ['call', 'A', 'close'], settle(0.3),
                                                     ['await', 'A'], ['iterate', 'lazy'], settle(0.4), ['sample']])
    add('iterate-after-close@running', 'other', START + RUN_A + [['take_iterators', 'lazy'], ['call', 'B', 'close'], settle(0.3), ['child', 'return'], settle(0.6),
                                                                 ['await', 'B'], ['iterate', 'lazy'], settle(0.4), ['sample']])
    # a second close() while the first is in flight (held in the close hook / waiting for the run): it must not raise
    # and must not disturb the first; a third one after the first has returned finds the state closed
    add('closing@close-hook', 'other', START + [['hold', 'close'], ['call', 'A', 'close'], settle(0.3), ['call', 'B', 'close'], settle(0.3),
                                               ['release_all'], settle(0.3), ['call', 'C', 'close'], settle(), ['sample']])
    add('closing@waiting-for-run', 'other', START + RUN_A + [['call', 'A', 'close'], settle(0.3), ['call', 'B', 'close'], settle(0.3),
                                                           ['child', 'return'], settle(0.4), ['call', 'C', 'close'], settle(), ['sample']])
    return out


# ---------------------------------------------------------------- overlapping transitions

RESET_OPTS = [
    {'statement': 'B', 'run_no_start_from': 10},
    {'statement': 'B'},
    {'run_no_start_from': 10},
    {'trace_threads': True, 'trace_modules': True},
    {},
]


def after_overlap():
    """let everything finish, then make one more complete run so that the effect of what
    happened is visible (numbers, script, records)"""
    return [['release_all'], settle(0.3), ['child', 'return'], settle(0.3), ['child_reset'],
            ['call', 'C', 'reset'], settle(), ['call', 'C', 'run'], settle(), ['child', 'return'], settle(0.3),
            ['call', 'C', 'result'], settle(), ['sample']]


def overlaps():
    out = []
    # reset held at a gate  ||  run / reset / run_and_continue from another task
    for frm in ('initialized', 'finished'):
        for hook in ('reset', 'on_change_script', 'on_initialize_run', 'on_change_state'):
            for opts in (RESET_OPTS[0], RESET_OPTS[4]):
                if hook == 'on_change_script' and 'statement' not in opts:
                    continue
                for api2 in ('run', 'reset', 'run_and_continue'):
                    pre = START + (one_run() if frm == 'finished' else []) + [['hold', hook], ['call', 'A', 'reset', opts], settle()]
                    args2 = {'statement': 'C'} if api2 == 'reset' else {}
                    steps = pre + [['call', 'B', api2, args2], settle(0.3)] + after_overlap()
                    out.append(S(steps, dict(family='overlap', first=f'reset-from-{frm}', gate=hook, opts=opts, second=api2)))
    # run held at a gate || run / reset / close
    for hook in ('on_start_run', 'on_change_state'):
        for api2 in ('run', 'reset', 'run_and_continue'):
            pre = START + [['hold', hook], ['call', 'A', 'run'], settle(0.3)]
            steps = pre + [['call', 'B', api2, {}], settle(0.3)] + after_overlap()
            out.append(S(steps, dict(family='overlap', first='run', gate=hook, second=api2)))
    # the completion transition held || reset / run
    for hook in ('on_end_run', 'on_finished', 'on_change_state'):
        for api2 in ('reset', 'run'):
            pre = START + RUN_A + [['hold', hook], ['child', 'return'], settle(0.3), ['child_reset']]
            steps = pre + [['call', 'B', api2, {}], settle(0.3)] + after_overlap()
            out.append(S(steps, dict(family='overlap', first='finish', gate=hook, second=api2)))
    # start held || run / reset
    for hook in ('start', 'on_change_script', 'on_initialize_run', 'on_change_state'):
        for api2 in ('run', 'reset'):
            pre = [['hold', hook], ['call', 'A', 'start'], settle()]
            steps = pre + [['call', 'B', api2, {}], settle(0.3)] + after_overlap()
            out.append(S(steps, dict(family='overlap', first='start', gate=hook, second=api2)))
    return out


def triples():
    """three parties: the run's completion held at a gate, close() from one task, then a
    reset/run from another while the close is suspended"""
    out = []
    for hook in ('on_end_run', 'on_finished', 'on_change_state'):
        for api3 in ('reset', 'run'):
            pre = START + RUN_A + [['hold', hook], ['child', 'return'], settle(0.3), ['child_reset']]
            steps = pre + [['call', 'B', 'close'], settle(0.3), ['call', 'C', api3, {}], settle(0.3),
                           ['release_all'], settle(0.4), ['sample']]
            out.append(S(steps, dict(family='triple', first='finish', gate=hook, second='close', third=api3,
                                     point=f'finishing@{hook}+{api3}', who='other', expect_complete=False)))
    # a reset held, a run queued behind it, then close from a third task (the close must wait for
    # that run and still end in 'closed')
    for hook in ('on_change_script', 'on_initialize_run'):
        for runapi in ('run', 'run_and_continue'):
            pre = START + [['hold', hook], ['call', 'A', 'reset', {'statement': 'B'}], settle()]
            steps = pre + [['call', 'B', runapi], settle(0.2), ['call', 'C', 'close'], settle(0.2), ['release_all'], settle(0.5),
                           ['child', 'return'], settle(0.5), ['sample']]
            out.append(S(steps, dict(family='triple', first='reset', gate=hook, second=runapi, third='close',
                                     point=f'reset@{hook}+{runapi}-queued', who='other')))
    # a reset held, close queued behind it, then a run queued behind both
    for hook in ('on_change_script', 'on_initialize_run'):
        pre = START + [['hold', hook], ['call', 'A', 'reset', {'statement': 'B'}], settle()]
        steps = pre + [['call', 'B', 'close'], settle(0.2), ['call', 'C', 'run'], settle(0.2), ['release_all'], settle(0.4), ['sample']]
        out.append(S(steps, dict(family='triple', first='reset', gate=hook, second='close', third='run',
                                 point=f'reset@{hook}+run', who='other', expect_complete=False)))
    return out


def finishing_overlaps():
    """the run's completion transition is held inside a plugin's on_finished / on_change_state implementation (a slow
    plugin); meanwhile another task asks for the next cycle (reset, then run).  The next run's hooks must not begin
    before the held implementation has returned: when it resumes, the state is still 'finished' and the run's
    arguments are still withdrawn (C12), and the state sequence stays on the diagram (C01)"""
    out = []
    for hook in ('on_finished', 'on_change_state', 'on_end_run'):
        for second in (['reset'], ['reset', 'run']):
            steps = START + RUN_A + [['hold', hook], ['child', 'return'], settle(0.4)]
            for api in second:
                steps += [['call', 'B', api], settle(0.3)]
            steps += [['sample'], ['release_all'], ['unhold', hook], settle(0.4), ['child', 'return'], settle(0.4), ['child_reset'],
                      ['call', 'C', 'reset'], settle()] + one_run('C') + [['sample']]
            out.append(S(steps, dict(family='finishing-overlap', gate=hook, second='+'.join(second), expect_complete=False)))
    return out


def requests_from_hook_tasks():
    """a plugin (an "auto mode": when a run has finished, load the next script) starts a task from inside its on_finished hook; that
    task resets the object twice; its second reset is held in the reset hook of a user plugin while an ordinary task requests a
    run: the requests of a task that was CREATED INSIDE A TRANSITION are serialised like everybody else's (C15)"""
    out = []
    for gate in ('reset', 'on_change_script', 'on_initialize_run'):
        steps = START + [['register_spawner', 'S', 'on_finished', [['reset', {'statement': 'B'}], ['reset', {'statement': 'C'}]]]] + RUN_A + \
            [['child', 'return'], settle(0.5), ['child_reset'], ['hold', gate], ['spawner_go'], settle(0.3),
             ['call', 'A', 'run'], settle(0.5), ['sample'], ['release_all'], ['unhold', gate], settle(0.5), ['sample'],
             ['call', 'B', 'run'], settle(0.4), ['sample'], ['child', 'return'], settle(0.6), ['sample']]
        out.append(S(steps, dict(family='requests-from-hook-task', gate=gate, expect_complete=False)))
    return out


def failing_to_deliver():
    """the statement is a callable that cannot be sent to the child: the child process is spawned, the call never reaches
    it, the run ends with the error -- 'finished' only once that child has gone, and a reset + run right after it never
    has two children (C15); the run's record is complete (C02)"""
    out = []
    for api in ('run', 'run_session', 'run_and_continue'):
        steps = START + [['call', 'A', api], settle(0.05), ['sample'], settle(0.3), ['call', 'A', 'result'], settle(),
                         ['call', 'B', 'reset', {'statement': 'B'}], settle(0.05), ['call', 'B', 'run'], settle(0.05), ['sample'], settle(0.4),
                         ['child', 'return'], settle(0.5), ['sample']]
        out.append(S(steps, dict(family='failing-to-deliver', api=api, expect_complete=False), config={'statement': '@unpicklable'}))
    return out


def registration():
    """a second plugin registered / unregistered between runs (and in the middle of one)"""
    out = []
    steps = START + one_run() + [['register', 'P2'], ['call', 'A', 'reset'], settle()] + one_run() + \
        [['unregister', 'P2'], ['call', 'A', 'reset', {'statement': 'B'}], settle()] + one_run() + [['sample']]
    out.append(S(steps, dict(family='registration', case='between-runs')))
    steps = START + [['call', 'A', 'run'], settle(0.4), ['register', 'P3'], ['child', 'return'], settle(0.4), ['child_reset'],
                     ['call', 'A', 'reset'], settle(), ['unregister', 'P3']] + one_run() + [['sample']]
    out.append(S(steps, dict(family='registration', case='mid-run')))
    # a run that fails to start: the session context of a plugin raises before any child is spawned; the machine still
    # goes through finished, then an ordinary run after the plugin is gone
    for api in ('run', 'run_session'):
        steps = START + [['register_failing', 'F1', 'run_ctx'], ['call', 'A', api], settle(0.4), ['call', 'A', 'result'], settle(),
                         ['unregister', 'F1'], ['call', 'A', 'reset'], settle()] + one_run() + [['sample']]
        out.append(S(steps, dict(family='registration', case='run-fails-to-start:' + api, expect_complete=False)))
    return out


def relay_order():
    """the relay of the child's events is held inside a slow hook while later events queue up;
    the run then ends (normally or by a kill): everything queued must still be delivered before end-run"""
    out = []
    for ending in ('return', 'kill', 'terminate'):
        steps = START + [['hold', 'on_end_prompt'], ['call', 'A', 'run'], settle(0.6)]
        if ending == 'return':
            steps += [['child', 'return'], settle(0.5)]
        else:
            steps += [['call', 'B', ending], settle(0.5)]
        steps += [['release_all'], settle(0.5), ['sample']]
        out.append(S(steps, dict(family='relay-order', outcome=ending, expect_complete=False), config={'answer': 'next'}))
        # the same with the hook held for well over a second after the child has gone (a relay that gives up
        # waiting for its monitor would let end-run overtake the events still queued)
        steps = START + [['hold', 'on_end_prompt'], ['call', 'A', 'run'], settle(0.6)]
        steps += ([['child', 'return']] if ending == 'return' else [['call', 'B', ending]])
        steps += [['wait_child_exit', 8.0], ['sleep', 2.2], ['release_all'], settle(0.6), ['sample']]
        out.append(S(steps, dict(family='relay-order', outcome=ending, held='long', expect_complete=False), config={'answer': 'next'}))
    return out


def relay_order_all_events():
    """relay_order for EVERY kind of in-process event: the harness plugin also implements on_write_stdout,
    on_start/end_trace_call and on_start/end_cmdloop (config extra_hooks), the script prints; the hook of one kind is held
    while the run ends: end-run must wait for it, whatever the kind (each event class has its own dispatch branch)"""
    out = []
    extra = ['on_write_stdout', 'on_start_trace_call', 'on_end_trace_call', 'on_start_cmdloop', 'on_end_cmdloop']
    for hook in extra:
        for ending in ('return', 'kill'):
            steps = START + [['hold', hook], ['call', 'A', 'run'], settle(0.6)]
            steps += ([['child', 'return']] if ending == 'return' else [['call', 'B', ending]])
            steps += [['wait_child_exit', 8.0], ['sleep', 1.3], ['sample'], ['release_all'], ['unhold', hook], settle(0.6), ['sample']]
            out.append(S(steps, dict(family='relay-order', outcome=ending, held=hook, expect_complete=False),
                         config={'answer': 'next', 'extra_hooks': extra, 'script_prints': True}))
    return out


def cancelled_requests():
    """the task awaiting a run request is cancelled while the run is starting (its on_start_run hooks are held):
    the run that has begun goes on; no second child may appear and 'finished' only after the child has gone"""
    out = []
    for api in ('run', 'run_session', 'run_and_continue'):
        steps = START + [['hold', 'on_start_run'], ['call', 'A', api], settle(0.4), ['cancel_task', 'A'], settle(0.3), ['sample'],
                         ['call', 'B', 'reset'], settle(0.2), ['call', 'B', 'run'], settle(0.3), ['sample'],
                         ['release_all'], settle(0.5), ['child', 'return'], settle(0.5), ['child_reset'],
                         ['call', 'B', 'reset'], settle(0.2), ['call', 'B', 'run'], settle(0.5), ['child', 'return'], settle(0.5), ['sample']]
        out.append(S(steps, dict(family='cancelled-request', api=api, expect_complete=False)))
    return out


def display():
    """a client reads what the object displays (statement, get_source, get_source_line) at every point of resets that
    overlap: a reset held at one of its hooks (it holds the lifecycle lock), a second reset waiting behind it; then a
    run: what it executes must be what every reporting call shows when it starts (C14)"""
    out = []
    for hook in ('reset', 'on_change_script', 'on_initialize_run', 'on_change_state'):
        for frm in ('initialized', 'finished'):
            steps = START + (one_run() if frm == 'finished' else []) + [['peek']] + \
                [['hold', hook], ['call', 'A', 'reset', {'statement': 'B'}], settle(0.2), ['peek'],
                 ['call', 'B', 'reset', {'statement': 'C'}], settle(0.2), ['peek'], ['release_all'], settle(0.3), ['peek']] + \
                one_run('C') + [['peek'], ['call', 'C', 'reset', {'statement': 'D'}], settle(), ['peek']] + one_run('C') + [['sample']]
            out.append(S(steps, dict(family='display', gate=hook, frm=frm)))
    return out


def cancelled_resets():
    """the task awaiting reset() is cancelled while the reset is suspended in a (slow) hook of a user plugin: the request
    either takes full effect or is refused -- it must not return normally half applied (C14)"""
    out = []
    for hook in ('reset', 'on_change_script', 'on_initialize_run'):
        for frm in ('initialized', 'finished'):
            steps = START + (one_run() if frm == 'finished' else []) + [['peek'], ['hold', hook],
                     ['call', 'A', 'reset', {'statement': 'B', 'run_no_start_from': 7}], settle(0.3), ['cancel_task', 'A'], settle(0.3), ['peek'],
                     ['release_all'], ['unhold', hook], settle(0.3), ['peek']] + one_run('C') + [['sample']]
            out.append(S(steps, dict(family='cancelled-reset', gate=hook, frm=frm, expect_complete=False)))
    return out


def numbering():
    """histories of reset (with every kind of option, including restarting the numbering at the value
    already in effect) and run; C14's oracle checks each reset's own re-initialisation"""
    out = []
    seqs = [
        [{'run_no_start_from': 1}],
        [{'run_no_start_from': 7}, {'run_no_start_from': 7}],
        [{'statement': 'B', 'run_no_start_from': 1}, {'statement': 'B'}, {'run_no_start_from': 2}],
        [{'trace_threads': True}, {'statement': 'C', 'trace_modules': True}, {}],
        [{'statement': 'A'}, {'statement': 'A', 'run_no_start_from': 3}, {'run_no_start_from': 3}],
        # large numbers (beyond CPython's shared small integers: an identity comparison of numbers would show)
        [{'run_no_start_from': 1000}, {}, {'run_no_start_from': 1000}, {'statement': 'B'}],
        # tracing options switched on and off again, together and one at a time
        [{'trace_threads': True, 'trace_modules': True}, {'trace_threads': False}, {'trace_modules': False}, {'trace_threads': True}],
        [{'trace_modules': True}, {'trace_modules': False, 'statement': 'B'}, {'trace_threads': False, 'trace_modules': True}],
        # numbering restarted at zero and below (valid: the counter is an itertools.count), together with a new script
        [{'statement': 'B', 'run_no_start_from': 0}, {}, {'run_no_start_from': -3}, {'statement': 'C', 'run_no_start_from': 0}],
    ]
    for i, seq in enumerate(seqs):
        steps = START + one_run()
        for o in seq:
            steps += [['call', 'A', 'reset', o], settle()] + one_run()
        steps += [['sample']]
        out.append(S(steps, dict(family='numbering', seq=i)))
    # the same options given while the object is still `initialized` (before its first run), with what it displays read
    # after each reset: a reset that is refused with an error must have changed nothing
    steps = START + [['peek'], ['call', 'A', 'reset', {'statement': 'B', 'run_no_start_from': 0}], settle(), ['peek']] + one_run() + \
        [['call', 'A', 'reset', {}], settle(), ['peek']] + one_run() + [['sample']]
    out.append(S(steps, dict(family='numbering', seq='zero-before-first-run', expect_complete=False)))
    return out


def ksweeps(ks=range(0, 16)):
    """window-level interleavings that gates cannot pin: second call after k loop hops"""
    out = []
    for k in ks:
        for frm in ('initialized', 'finished'):
            pre = START + (one_run() if frm == 'finished' else [])
            for api2 in ('run', 'run_session', 'run_continue_and_wait'):
                steps = pre + [['call', 'A', 'reset', RESET_OPTS[0]], ['hops', k], ['call', 'B', api2], settle(0.3)] + after_overlap()
                out.append(S(steps, dict(family='ksweep', first=f'reset-from-{frm}', second=api2, k=k)))
        steps = START + [['call', 'A', 'run'], ['hops', k], ['call', 'B', 'run'], settle(0.3)] + after_overlap()
        out.append(S(steps, dict(family='ksweep', first='run', second='run', k=k)))
        steps = START + [['call', 'A', 'run'], ['hops', k], ['call', 'B', 'reset', RESET_OPTS[0]], settle(0.3)] + after_overlap()
        out.append(S(steps, dict(family='ksweep', first='run', second='reset', k=k)))
    return out


# ---------------------------------------------------------------- C02: every way of ending

def endings():
    out = []
    for outcome, exp in (('return', 'none'), ('raise', 'ValueError: verif'), ('exit', 'SystemExit'), ('hard', 'none')):
        steps = START + [['call', 'W', 'run_session'], settle(0.3), ['child', outcome], ['await', 'W', 25.0], settle(),
                         ['call', 'A', 'result'], settle(), ['sample']]
        out.append(S(steps, dict(family='ending', outcome=outcome, expect_result=exp)))
    # the child process outlives the script body (a non-daemon thread): finished only after it has gone,
    # and a reset + run right after must not overlap with it
    steps = START + [['call', 'W', 'run_session'], settle(0.3), ['child', 'linger'], ['await', 'W', 25.0], ['child_reset'],
                     ['call', 'A', 'reset'], settle(0.05), ['call', 'A', 'run'], settle(0.3), ['child', 'return'], settle(0.4),
                     ['call', 'A', 'result'], settle(), ['sample']]
    out.append(S(steps, dict(family='ending', outcome='linger', expect_result='none')))
    for sig, exp in (('interrupt', 'KeyboardInterrupt'), ('terminate', 'none'), ('kill', 'none')):
        # while the script is busy (after the prompt was answered)
        steps = START + [['call', 'W', 'run_session'], ['wait_child_in_script'], settle(0.3), ['call', 'A', sig], ['await', 'W', 25.0], settle(),
                         ['call', 'A', 'result'], settle(), ['sample']]
        out.append(S(steps, dict(family='ending', outcome=sig, point='busy', expect_result=exp)))
        # while a prompt is open in the main thread
        steps = START + [['call', 'W', 'run_session'], ['wait_prompt_open'], settle(0.4), ['call', 'A', sig], ['await', 'W', 25.0], settle(),
                         ['call', 'A', 'result'], settle(), ['sample']]
        out.append(S(steps, dict(family='ending', outcome=sig, point='prompt-open', expect_result=exp), config={'answer': None}))
    # the main process LAGS BEHIND: the relay is held in a slow hook for well over a second while the script ends; the child
    # waits until its events have been taken, however long that takes, and the run's own outcome is still what is reported
    for outcome, exp in (('raise', 'ValueError: verif'), ('exit', 'SystemExit'), ('return', 'none')):
        steps = START + [['hold', 'on_end_prompt'], ['call', 'W', 'run_session'], ['wait_child_in_script'], settle(0.4), ['child', outcome], ['wait_ctl_ack'],
                         ['sleep', 2.6], ['release_all'], ['unhold', 'on_end_prompt'], ['await', 'W', 25.0], settle(),
                         ['call', 'A', 'result'], settle(), ['sample']]
        out.append(S(steps, dict(family='ending', outcome=outcome, point='parent-lags', expect_result=exp)))
    # a signal that arrives after the script has returned, while the worker is still draining its event queue
    # (the relay is held in a hook of the main process, so the queue cannot empty)
    for sig in ('interrupt', 'terminate'):
        steps = START + [['hold', 'on_end_prompt'], ['call', 'W', 'run_session'], ['wait_child_in_script'], settle(0.4), ['child', 'return'], ['wait_ctl_ack'], ['sleep', 0.8],
                         ['call', 'A', sig], ['sleep', 0.6], ['release_all'], ['unhold', 'on_end_prompt'], ['await', 'W', 25.0], settle(),
                         ['call', 'A', 'result'], settle(), ['sample']]
        out.append(S(steps, dict(family='ending', outcome=sig, point='draining')))
    return out


# ---------------------------------------------------------------- C16

def continuous():
    out = []
    en = [['call', 'E', 'enabled'], settle(0.05)]
    # accepted
    steps = START + en + [['call', 'A', 'run_and_continue'], settle(0.3)] + en + [['child', 'return'], settle(0.3), ['child_reset']] + en + [['sample']]
    out.append(S(steps, dict(family='continuous', case='accepted'), config={'answer': None}))
    # refused while running (interactive run in progress), then the prompt of the plain run must stay open
    steps = START + [['call', 'A', 'run'], settle(0.4), ['call', 'B', 'run_and_continue'], settle(0.3)] + en + \
        [['sample'], ['call', 'A', 'send', {'command': 'continue', 'prompt_no': 1, 'trace_no': 1}], settle(0.3), ['child', 'return'], settle(0.3)] + en + [['sample']]
    out.append(S(steps, dict(family='continuous', case='refused-while-running'), config={'answer': None}))
    # refused when finished, then reset and a plain run: must not be auto-answered
    steps = START + one_run('A', 'run_and_continue') + en + [['call', 'B', 'run_and_continue'], settle(0.3)] + en + \
        [['call', 'A', 'reset'], settle()] + en + [['call', 'A', 'run'], settle(0.6), ['sample'],
         ['call', 'A', 'send', {'command': 'continue', 'prompt_no': 1, 'trace_no': 1}], settle(0.3), ['child', 'return'], settle(0.3)] + en + [['sample']]
    out.append(S(steps, dict(family='continuous', case='refused-when-finished-then-plain-run'), config={'answer': None}))
    # run_continue_and_wait refused
    steps = START + one_run('A', 'run_and_continue') + [['call', 'B', 'run_continue_and_wait'], settle(0.3)] + en + [['sample']]
    out.append(S(steps, dict(family='continuous', case='wait-variant-refused'), config={'answer': None}))
    # run_continue_and_wait accepted
    steps = START + [['call', 'W', 'run_continue_and_wait'], settle(0.4)] + en + [['child', 'return'], ['await', 'W', 25.0], settle()] + en + [['sample']]
    out.append(S(steps, dict(family='continuous', case='wait-variant-accepted'), config={'answer': None}))
    # the task awaiting run_continue_and_wait() is cancelled (a wait_for timing out, a client going away) while the run it
    # requested is in progress: the run goes on in the non-interactive mode until it finishes
    for when in (0.4, 0.05):
        steps = START + [['call', 'W', 'run_continue_and_wait'], settle(when)] + en + [['cancel_task', 'W'], settle(0.3)] + en + \
            [['sample'], ['child', 'return'], settle(0.6), ['child_reset']] + en + [['sample']]
        out.append(S(steps, dict(family='continuous', case=f'waiter-cancelled-mid-run:{when}', expect_complete=False), config={'answer': None}))
    # two requests waiting on the lock at the same time behind a plain run that is starting; both refused
    steps = START + [['hold', 'on_start_run'], ['call', 'A', 'run'], settle(0.3), ['call', 'B', 'run_and_continue'], settle(0.1),
                     ['call', 'C', 'run_and_continue'], settle(0.1), ['release_all'], settle(0.5)] + en + \
        [['sample'], ['call', 'A', 'send', {'command': 'continue', 'prompt_no': 1, 'trace_no': 1}], settle(0.3), ['child', 'return'], settle(0.4)] + en + \
        [['call', 'A', 'reset'], settle()] + en + [['sample']]
    out.append(S(steps, dict(family='continuous', case='two-requests-refused-together'), config={'answer': None}))
    # a continuous run in progress, a third request refused, then the run finishes
    steps = START + [['call', 'A', 'run_and_continue'], settle(0.4)] + en + [['call', 'B', 'run_and_continue'], settle(0.2)] + en + \
        [['call', 'C', 'run_continue_and_wait'], settle(0.2)] + en + [['child', 'return'], settle(0.4)] + en + [['sample']]
    out.append(S(steps, dict(family='continuous', case='refused-during-continuous-run'), config={'answer': None}))
    # refused while a close is waiting for the interactive run
    steps = START + [['call', 'A', 'run'], settle(0.4), ['call', 'B', 'close'], settle(0.2), ['call', 'C', 'run_and_continue'], settle(0.3), ['sample'],
                     ['call', 'D', 'send', {'command': 'next', 'prompt_no': 1, 'trace_no': 1}], settle(0.5), ['sample'],
                     ['child', 'return'], settle(0.3)]
    out.append(S(steps, dict(family='continuous', case='refused-during-close', point='running-open-prompt', who='other', expect_complete=False), config={'answer': None}))
    # two requests overlapping while the first run is STARTING (the second lands k loop hops after the first, i.e.
    # between the first taking the lock and its run's on_start_run): one is refused; whatever prompt is left open
    # is answered by hand; after the run the flag must be off, and a plain run after a reset is not auto-answered
    for k in (0, 1, 2, 3, 5, 8):
        for api2 in ('run_and_continue', 'run_continue_and_wait'):
            steps = START + [['call', 'A', 'run_and_continue'], ['hops', k], ['call', 'B', api2], settle(0.6)] + en + \
                [['answer_open'], settle(0.3), ['child', 'return'], settle(0.5), ['child_reset']] + en + \
                [['call', 'A', 'reset'], settle()] + en + [['call', 'A', 'run'], settle(0.6), ['sample'], ['answer_open'], settle(0.3),
                 ['child', 'return'], settle(0.4)] + en + [['sample']]
            out.append(S(steps, dict(family='continuous', case=f'overlapping-requests:{api2}:k{k}'), config={'answer': None}))
    # a request CANCELLED while it waits for the lifecycle lock (held by a reset suspended in a hook / by a plain run that is
    # starting): no run was started by it, so the flag must be off afterwards, and off again after a later
    # non-interactive run has finished (seed C16-6)
    for api in ('run_and_continue', 'run_continue_and_wait'):
        for holder in ('reset', 'run'):
            pre = [['hold', 'reset'], ['call', 'A', 'reset'], settle(0.3)] if holder == 'reset' else [['hold', 'on_start_run'], ['call', 'A', 'run'], settle(0.4)]
            post = [] if holder == 'reset' else [['answer_open'], settle(0.3), ['child', 'return'], settle(0.5), ['child_reset'], ['call', 'A', 'reset'], settle()]
            steps = START + pre + [['call', 'B', api], settle(0.2)] + en + [['cancel_task', 'B'], settle(0.3)] + en + [['release_all'], settle(0.5)] + en + post + en + \
                [['call', 'C', 'run_continue_and_wait'], settle(0.4)] + en + [['child', 'return'], ['await', 'C', 25.0], settle()] + en + [['sample']]
            out.append(S(steps, dict(family='continuous', case=f'request-cancelled-waiting-for-lock:{api}:{holder}', expect_complete=False), config={'answer': None}))
    # a continuous run in progress, a close waiting for it, and one more request pending behind the close:
    # the request is refused after the object is closed; the flag must be off then
    for api in ('run_and_continue', 'run_continue_and_wait'):
        steps = START + [['call', 'A', 'run_and_continue'], settle(0.4), ['call', 'B', 'close'], settle(0.2), ['call', 'C', api], settle(0.2)] + en + \
            [['child', 'return'], settle(0.5)] + en + [['sample']]
        out.append(S(steps, dict(family='continuous', case='pending-request-across-close:' + api, expect_complete=False), config={'answer': None}))
    return out


# ---------------------------------------------------------------- sequential / random histories

APIS = ['run', 'reset', 'run_and_continue', 'interrupt', 'terminate', 'kill', 'send', 'close', 'start']


def random_history(rng: random.Random, n: int):
    steps = [] if rng.random() < 0.1 else list(START)
    running = False
    for _ in range(n):
        api = rng.choice(APIS if rng.random() < 0.9 else ['close'])
        task = rng.choice(['A', 'B'])
        args = {}
        if api == 'reset':
            args = rng.choice(RESET_OPTS)
        steps.append(['call', task, api, args])
        steps.append(settle(0.2))
        if api in ('run', 'run_and_continue') and rng.random() < 0.8:
            steps += [['child', rng.choice(['return', 'return', 'raise', 'exit'])], settle(0.3), ['child_reset']]
        if api == 'close':
            break
    steps += [['release_all'], ['child', 'return'], settle(0.3), ['sample']]
    return S(steps, dict(family='random', expect_complete=False))


def quick_set(rng):
    cp = close_points(ksweep=(0, 2, 5))
    ov = overlaps()
    ks = ksweeps(ks=(0, 3, 6, 8, 9, 10, 11, 13))
    rnd = [random_history(rng, rng.randint(2, 6)) for _ in range(6)]
    pick_ov = rng.sample(ov, min(14, len(ov)))
    return cp + pick_ov + ks + endings() + continuous() + rnd


def thorough_set(rng):
    return close_points() + overlaps() + ksweeps(range(0, 24)) + endings() + continuous() + \
        [random_history(rng, rng.randint(2, 8)) for _ in range(60)]
