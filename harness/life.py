"""Lifecycle co-simulation (DESIGN.md 4.3): runs scenarios with harness/life_runner.py in
separate interpreter processes, in parallel, and returns the observation logs."""
from __future__ import annotations

import json
import os
import subprocess
import tempfile
from concurrent.futures import ThreadPoolExecutor
from pathlib import Path

from . import common as C


def run_one(scn: dict, timeout: float = 90) -> list[dict]:
    timeout = max(timeout, float(scn.get('timeout', 60)) + 30)
    d = tempfile.mkdtemp(prefix='verif_scn_')
    p = Path(d) / 'scn.json'
    p.write_text(json.dumps(scn))
    env = dict(os.environ)
    env.update(PYTHONPATH=f'{C.REPO}:{C.VERIF}', PYTHONHASHSEED='0', PYTHONDONTWRITEBYTECODE='1')
    try:
        r = subprocess.run(['timeout', '-k', '5', str(int(timeout)), C.PY, '-u', '-m', 'harness.life_runner', str(p)],
                           stdout=subprocess.PIPE, stderr=subprocess.PIPE, text=True, env=env, cwd=str(C.VERIF),
                           timeout=timeout + 15)
        out = r.stdout
        err = r.stderr
    except subprocess.TimeoutExpired as e:
        out = e.stdout.decode() if isinstance(e.stdout, bytes) else (e.stdout or '')
        err = 'timeout'
    finally:
        import shutil
        shutil.rmtree(d, ignore_errors=True)
    for line in out.splitlines():
        if line.startswith('@@OBS '):
            return json.loads(line[6:])
    return [{'k': 'runner_dead', 'stderr': (err or '')[-1500:], 'i': 0, 't': 0}]


def run_many(scns: list[dict], par: int = 14) -> list[list[dict]]:
    with ThreadPoolExecutor(par) as ex:
        return list(ex.map(run_one, scns))


def brief(obs: list[dict]) -> list[str]:
    out = []
    for o in obs:
        k = o.get('k')
        if k == 'hook':
            out.append(f"{o['t']:7.3f} hook {o['hook']}#{o['n']} st={o['state']} ra={o['run_arg']} rn={o.get('run_no')} task={o['task']}{' HELD' if o.get('held') else ''} alive={o['alive']}" + (f" sn={o.get('state_name')}" if 'state_name' in o else '') + (f" sid={o.get('script_id')}" if 'script_id' in o else ''))
        elif k == 'pub':
            out.append(f"{o['t']:7.3f} pub  {o['topic']} = {o['value']}")
        elif k in ('call', 'ret'):
            out.append(f"{o['t']:7.3f} {k}  {o['task']}.{o['api']} {o.get('res', '')} {o.get('msg', '')} {o.get('value', '')} st={o['state']} alive={o['alive']}")
        else:
            out.append(f"{o['t']:7.3f} {k} " + json.dumps({a: b for a, b in o.items() if a not in ('k', 't', 'i')}, default=repr)[:300])
    return out


if __name__ == '__main__':
    import sys
    scn = json.loads(Path(sys.argv[1]).read_text()) if len(sys.argv) > 1 else {
        'config': {},
        'steps': [['call', 'A', 'start'], ['settle'], ['call', 'A', 'run'], ['settle'], ['child', 'return'], ['settle'],
                  ['call', 'A', 'result'], ['call', 'A', 'close'], ['settle'], ['sample']],
    }
    for l in brief(run_one(scn)):
        print(l)
