"""Executes C17 scenarios against the REAL nextline.utils.run_in_process under the
multiprocessing *spawn* context and prints one observation per scenario.

    python -m harness.proc_runner   < json-list-of-scenarios   ->  '@@R ' + json per scenario

scenario = {
  'id': any,
  'spec': {...}                  # see harness/proc_workers.py (paths are filled in here)
  'collect_logging': bool,
  'initializer': bool,
  'signal': None | {'how': 'interrupt'|'terminate'|'kill'|'send_signal', 'sig': 'SIGINT'|'SIGTERM'|'SIGKILL',
                    'when': 'boot'|'running'|'delay', 'delay': seconds after the worker's start marker},
  'awaiters': 'storm' | None,    # further awaiters of the same handle: one new task awaiting it in EVERY loop iteration from the
                                 # start of the function until the first awaiter has its result, one started when the process
                                 # sentinel fires, three right after the first result, one 0.2 s later
  'timeout': seconds (default 25)
}
observation: see `observe` below.  Nothing is patched; `process._popen.returncode` is only READ
(to see whether the process had been reaped before we ask `exitcode`, which itself would reap).
"""
from __future__ import annotations

import asyncio
import gc
import json
import multiprocessing as mp
import os
import signal
import sys
import tempfile
import threading
import time
import traceback
from datetime import datetime, timezone
from functools import partial
from pathlib import Path

REAL_STDOUT = sys.stdout
CURRENT: dict = {}


def emit(obj) -> None:
    REAL_STDOUT.write('@@R ' + json.dumps(obj, default=repr) + '\n')
    REAL_STDOUT.flush()


def thread_names() -> list[str]:
    return sorted(t.name for t in threading.enumerate() if t is not threading.main_thread())


def loop_own(name: str) -> bool:
    # worker threads of the loop's default executor (asyncio.to_thread) and our own watchdog
    return name.startswith('asyncio_') or name.startswith('verif-')


async def scenario(scn: dict, obs: dict, tmp: Path) -> None:
    from nextline.utils import run_in_process
    from . import proc_workers as W

    spec = dict(scn['spec'])
    spec['started'] = str(tmp / 'started')
    spec['release'] = str(tmp / 'release')
    marker = str(tmp / 'init')
    CURRENT['started'] = spec['started']
    sig = scn.get('signal')
    me = asyncio.current_task()
    CURRENT['loop'] = asyncio.get_running_loop()
    obs['threads_before'] = thread_names()
    tasks_before = {t for t in asyncio.all_tasks() if t is not me}
    t0 = time.time()
    obs['t_wall0'] = t0
    before = datetime.now(timezone.utc)
    logged: list[str] = []
    if scn.get('collect_logging'):
        import logging

        class H(logging.Handler):
            def emit(self, record):
                logged.append(record.getMessage()[:12])
                if scn.get('handler_delay'):
                    time.sleep(float(scn['handler_delay']))       # a slow consumer of the log records in the parent
        h = H()
        lg = logging.getLogger('verif.worker')
        lg.addHandler(h)
        lg.setLevel(logging.DEBUG)
        lg.propagate = False
    try:
        running = await run_in_process(
            partial(W.work, spec), mp_context=mp.get_context('spawn'),
            initializer=partial(W.init, marker) if scn.get('initializer') else None,
            collect_logging=bool(scn.get('collect_logging')),
        )
    except BaseException as e:
        obs['start_raised'] = repr(e)
        return
    obs['start_raised'] = None
    obs['t_handle'] = round(time.time() - t0, 4)
    proc = running.process
    CURRENT['proc'] = proc
    obs['pid'] = proc.pid
    obs['repr_ok'] = isinstance(repr(running), str)
    obs['created_at_on_handle'] = isinstance(running.process_created_at, datetime)
    obs['sig_call'] = None
    # helper tasks while the function runs (the `_run` task and, with log collection, `_listen`)
    during = sorted((t.get_coro().__qualname__ if t.get_coro() else t.get_name())
                    for t in asyncio.all_tasks() if t is not me and t not in tasks_before)
    obs['tasks_during'] = during
    obs['listener_seen'] = any(n.endswith('._listen') for n in during)

    async def send():
        when = sig['when']
        if when in ('running', 'delay'):
            while not os.path.exists(spec['started']):
                await asyncio.sleep(0.001)
            obs['t_started'] = round(time.time() - t0, 4)
            if when == 'delay':
                await asyncio.sleep(max(0.0, float(sig.get('delay', 0.0))))
        elif when == 'boot':
            await asyncio.sleep(max(0.0, float(sig.get('delay', 0.0))))
        # non-invasive: has the child been reaped already?  (read only)
        obs['reaped_at_signal'] = proc._popen is not None and proc._popen.returncode is not None
        obs['awaited_done_at_signal'] = waiter.done()
        obs['fn_started_at_signal'] = os.path.exists(spec['started'])
        obs['t_signal'] = round(time.time() - t0, 4)
        try:
            how = sig['how']
            if how == 'send_signal':
                running.send_signal(getattr(signal, sig['sig']))
            else:
                getattr(running, how)()
            obs['sig_call'] = 'ok'
        except BaseException as e:
            obs['sig_call'] = repr(e)

    async def wait():
        return await running

    waiter = asyncio.ensure_future(wait())
    sender = asyncio.ensure_future(send()) if sig else None
    # ---- further awaiters of the same handle
    aw = {'n': 0, 'n_raised': 0, 'raised': [], 'outcomes': [], 'times_bad': 0, 'phases': {}, 'closing': False}
    extra: list = []

    async def one(phase):
        idx = aw['n']
        aw['n'] += 1
        aw['phases'][phase] = aw['phases'].get(phase, 0) + 1
        try:
            ex = await running
        except BaseException as e:
            if aw['closing']:
                return
            aw['n_raised'] += 1
            if len(aw['raised']) < 5:
                aw['raised'].append([idx, phase, repr(e)])
            return
        key = [repr(ex.returned), type(ex.raised).__name__ if ex.raised is not None else None, ex.process is proc]
        if key not in aw['outcomes']:
            aw['outcomes'].append(key)
        ca, ea = ex.process_created_at, ex.process_exited_at
        if not (isinstance(ca, datetime) and isinstance(ea, datetime) and ca <= ea):
            aw['times_bad'] += 1

    async def storm():
        import multiprocessing.connection as mpc
        loop = asyncio.get_running_loop()
        while not os.path.exists(spec['started']) and not waiter.done():
            await asyncio.sleep(0.001)

        async def after_exit():
            await loop.run_in_executor(None, mpc.wait, [proc.sentinel], 30)
            await one('after-process-exit')
        extra.append(asyncio.ensure_future(after_exit()))
        n = 0
        while not waiter.done() and n < 300000:
            # read-only look at the helper task: has `_run` finished although the first awaiter has not been resumed yet?
            extra.append(asyncio.ensure_future(one('task-done-window' if running._task.done() else 'before-completion')))
            n += 1
            await asyncio.sleep(0)
        for _ in range(3):
            extra.append(asyncio.ensure_future(one('just-after-first-result')))
            await asyncio.sleep(0)
        await asyncio.sleep(0.2)
        extra.append(asyncio.ensure_future(one('much-later')))
        await asyncio.gather(*extra, return_exceptions=True)

    storm_task = asyncio.ensure_future(storm()) if scn.get('awaiters') == 'storm' else None
    try:
        exited = await waiter
        obs['await_raised'] = None
    except BaseException as e:
        obs['await_raised'] = repr(e)
        exited = None
    obs['t_exit'] = round(time.time() - t0, 4)
    after = datetime.now(timezone.utc)
    # ---- at the moment the handle has been awaited
    me_tasks = {me, sender, waiter}
    obs['tasks_left'] = sorted(
        (t.get_coro().__qualname__ if t.get_coro() else t.get_name())
        for t in asyncio.all_tasks() if t not in me_tasks and t not in tasks_before and not t.done()
        and not (t.get_coro() is not None and t.get_coro().__qualname__.startswith('scenario.')))
    obs['threads_at_exit'] = thread_names()
    if storm_task is not None:
        try:
            await asyncio.wait_for(storm_task, 8)
        except BaseException as e:
            aw['storm_error'] = repr(e)
        aw['closing'] = True
        obs['awaiters'] = {k: v for k, v in aw.items() if k != 'closing'}
        extra.clear()
        storm_task = None
    pop = proc._popen
    obs['reaped_before_query'] = pop is not None and pop.returncode is not None
    obs['exitcode'] = proc.exitcode
    obs['is_alive'] = proc.is_alive()
    if exited is not None:
        obs['returned'] = repr(exited.returned)
        r = exited.returned
        obs['returned_n'] = r[1] if isinstance(r, tuple) and len(r) == 2 and r[0] == 'value' else None
        x = exited.raised
        obs['raised_args'] = list(x.args) if x is not None and all(isinstance(a, (int, str)) for a in x.args) else None
        if isinstance(x, SystemExit):
            obs['raised_args'] = [x.code]
        obs['has_returned'] = exited.returned is not None
        obs['raised_type'] = type(exited.raised).__name__ if exited.raised is not None else None
        obs['raised_qual'] = (type(exited.raised).__module__ + '.' + type(exited.raised).__qualname__) if exited.raised is not None else None
        obs['raised_mro'] = [c.__module__ + '.' + c.__qualname__ for c in type(exited.raised).__mro__] if exited.raised is not None else None
        c = getattr(exited.raised, '__cause__', None)
        obs['raised_cause'] = (type(c).__module__ + '.' + type(c).__qualname__) if c is not None else None
        obs['raised'] = repr(exited.raised)[:200] if exited.raised is not None else None
        obs['same_process'] = exited.process is proc
        ca, ea = exited.process_created_at, exited.process_exited_at
        obs['times_present'] = isinstance(ca, datetime) and isinstance(ea, datetime)
        if obs['times_present']:
            obs['times_ordered'] = bool(before <= ca <= ea <= after)
            obs['times'] = [before.isoformat(), ca.isoformat(), ea.isoformat(), after.isoformat()]
    if sender is not None:
        if not sender.done():
            obs['signal_not_sent'] = True
            sender.cancel()
        try:
            await sender
        except BaseException:
            pass
    # ---- late requests (the handle has been awaited: outside the property, compared with the model only).
    # signal 0 instead of SIGINT: same code path (send_signal -> os.kill) but harmless if the pid was recycled
    late = {}
    for nm, fn in (('send_signal0', lambda: running.send_signal(0)), ('terminate', running.terminate), ('kill', running.kill)):
        try:
            fn()
            late[nm] = 'ok'
        except BaseException as e:
            late[nm] = type(e).__name__
    obs['late'] = late
    # drop every reference we hold (an exception's traceback keeps the frames of _run alive)
    exited = None
    running = None
    waiter = None
    sender = None
    me_tasks = None
    fn = None
    x = None
    r = None
    proc = None
    pop = None
    CURRENT['proc'] = None      # Process._args holds the initializer, hence the log queue
    obs['init_ran'] = os.path.exists(marker)
    obs['fn_started'] = os.path.exists(spec['started'])
    obs['n_logged'] = len(logged)
    # threads: give daemon feeder threads of collected queues a moment
    gc.collect()
    t_end = time.time() + 3.0
    while time.time() < t_end:
        left = [n for n in thread_names() if not loop_own(n) and n not in obs['threads_before']]
        if not left:
            break
        await asyncio.sleep(0.02)
        gc.collect()
    obs['threads_left'] = left
    if scn.get('collect_logging'):
        lg.removeHandler(h)


def run_one(scn: dict) -> dict:
    obs: dict = {'id': scn.get('id'), 'hang': False}
    CURRENT['obs'] = obs
    CURRENT['proc'] = None
    tmp = Path(tempfile.mkdtemp(prefix='verif_proc_'))
    done = threading.Event()
    tmo = float(scn.get('timeout', 25))

    def watchdog():
        if done.wait(tmo):
            return
        o = dict(obs)
        o['hang'] = True
        frames = sys._current_frames()
        st = {}
        for th in threading.enumerate():
            f = frames.get(th.ident)
            if f is not None:
                st[th.name] = [f'{x.filename.split("/")[-1]}:{x.lineno}:{x.name}' for x in traceback.extract_stack(f)][-8:]
        o['stacks'] = st
        o['fn_started'] = bool(CURRENT.get('started')) and os.path.exists(CURRENT['started'])
        # pending asyncio tasks (read from this thread; the loop is either blocked or idle)
        pend = None
        for _ in range(5):
            try:
                pend = sorted((t.get_coro().__qualname__ if t.get_coro() else t.get_name())
                              for t in asyncio.all_tasks(CURRENT['loop']) if not t.done())
                break
            except Exception:
                time.sleep(0.01)
        o['pending_at_hang'] = pend
        # where is the `_run` task suspended?  (source line of its coroutine frame)
        run_line = None
        try:
            import linecache
            for t in asyncio.all_tasks(CURRENT['loop']):
                c = t.get_coro()
                if c is not None and c.__qualname__.endswith('._run') and not t.done():
                    fr = t.get_stack(limit=1)
                    if fr:
                        run_line = linecache.getline(fr[0].f_code.co_filename, fr[0].f_lineno).strip()
        except Exception:
            pass
        o['run_task_line'] = run_line
        main = ' '.join(st.get('MainThread', []))
        allst = ' '.join(' '.join(v) for v in st.values())
        if 'pid' not in o:
            o['hang_stage'] = 'start'
        elif ':shutdown' in main and 'run.py' in main:
            o['hang_stage'] = 'executor-shutdown-blocks-loop'
        elif run_line is not None and 'await future' in run_line:
            o['hang_stage'] = 'future-never-completes'
        elif pend is not None and any(n.endswith('._listen') for n in pend) and 'selectors.py' in main:
            o['hang_stage'] = 'log-listener-never-ends'
        else:
            o['hang_stage'] = 'other'
        o['feeder_waits_for_write_lock'] = 'queues.py:263:_feed' in allst
        o['reader_inside_partial_record'] = 'connection.py:395:_recv' in allst
        p = CURRENT.get('proc')
        if p is not None:
            try:
                o['child_alive_at_hang'] = p._popen is not None and p._popen.returncode is None and _pid_alive(p.pid)
            except Exception:
                pass
        if o.get('child_alive_at_hang') and CURRENT.get('started') and p is not None:
            try:
                o['child_proc_state'] = open(f'/proc/{p.pid}/stat').read().split(')')[-1].split()[0]
                os.kill(p.pid, signal.SIGUSR1)
                time.sleep(0.4)
                o['child_stack'] = open(CURRENT['started'] + '.dump').read()[-3000:]
            except Exception as e:
                o['child_stack'] = 'unavailable: ' + repr(e)
        emit(o)
        _kill_children()
        os._exit(3)

    threading.Thread(target=watchdog, daemon=True, name='verif-watchdog').start()
    try:
        asyncio.run(scenario(scn, obs, tmp))
    except BaseException as e:
        obs['runner_error'] = repr(e) + traceback.format_exc()[-800:]
    done.set()
    try:
        (tmp / 'release').write_text('x')
    except Exception:
        pass
    _kill_children()
    import shutil
    shutil.rmtree(tmp, ignore_errors=True)
    return obs


def _pid_alive(pid) -> bool:
    try:
        os.kill(pid, 0)
        return True
    except OSError:
        return False


def _kill_children() -> None:
    for p in mp.active_children():
        try:
            p.kill()
        except Exception:
            pass


def main() -> None:
    import logging
    logging.getLogger('nextline').setLevel(logging.CRITICAL)
    scns = json.loads(sys.stdin.read())
    sys.stderr = open(os.devnull, 'w')
    for scn in scns:
        t = time.time()
        o = run_one(scn)
        o['wall'] = round(time.time() - t, 3)
        emit(o)
    sys.stdout.flush()
    os._exit(0)


if __name__ == '__main__':
    main()
