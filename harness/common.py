"""Shared machinery of every check: Coq build/audit/eval, evidence, verdict.

See DESIGN.md section 1.1 (verdict rule) and 2 (layout).
"""
from __future__ import annotations

import fcntl
import hashlib
import json
import os
import random
import re
import threading
import shutil
import subprocess
import sys
import tempfile
import time
from dataclasses import dataclass, field
from pathlib import Path
from typing import Any, Callable, Optional

VERIF = Path(os.environ.get('VERIF_HOME', Path(__file__).resolve().parent.parent))
REPO = Path(os.environ.get('VERIF_REPO', '/repo'))
COQ = VERIF / 'coq'
THEORIES = COQ / 'theories'
GEN = THEORIES / 'Gen'
EVIDENCE = VERIF / 'evidence'
REPLAYS = VERIF / 'replays'
CORPUS = VERIF / 'corpus'
KNOWN = VERIF / 'known_findings.json'
PY = '/venv/bin/python'

# Axioms of the standard library a theorem may depend on (named in DESIGN.md 7).
ALLOWED_AXIOMS = {
    'functional_extensionality_dep',
}

HYGIENE_RE = re.compile(
    r'\b(Admitted|admit|Axiom|Axioms|Parameter|Parameters|Conjecture|Admit Obligations|'
    r'Unset Guard Checking|Unset Positivity Checking|Unset Universe Checking|'
    r'bypass_check|type-in-type|impredicative-set)\b'
)


def sh(cmd: list[str] | str, timeout: int = 600, cwd: Optional[Path] = None,
       env: Optional[dict] = None, input: Optional[str] = None) -> subprocess.CompletedProcess:
    return subprocess.run(
        cmd, shell=isinstance(cmd, str), cwd=cwd, env=env, input=input,
        stdout=subprocess.PIPE, stderr=subprocess.STDOUT, text=True, timeout=timeout,
    )


# --------------------------------------------------------------------------
# Coq project


def coq_files() -> list[str]:
    return sorted(str(p.relative_to(COQ)) for p in THEORIES.rglob('*.v'))


class CoqLock:
    """Cross-process lock on the Coq tree (flock), re-entrant within a process: a check holds it from the moment its
    translators rewrite Gen/*.v until its proofs are built, so that a concurrent check run against another copy of the
    repository (VERIF_REPO) cannot swap the generated files in between."""
    _rl = threading.RLock()
    _depth = 0
    _f = None

    def __enter__(self):
        cls = CoqLock
        cls._rl.acquire()
        if cls._depth == 0:
            COQ.mkdir(exist_ok=True)
            cls._f = open(COQ / '.lock', 'w')
            fcntl.flock(cls._f, fcntl.LOCK_EX)
        cls._depth += 1
        return self

    def __exit__(self, *a):
        cls = CoqLock
        cls._depth -= 1
        if cls._depth == 0:
            fcntl.flock(cls._f, fcntl.LOCK_UN)
            cls._f.close()
            cls._f = None
        cls._rl.release()


def ensure_makefile() -> None:
    """(Re)generate _CoqProject and Makefile when the set of files changed."""
    proj = '-Q theories NL\n-arg -w -arg -notation-overridden,-deprecated-hint-without-locality,-deprecated-instance-without-locality\n' + '\n'.join(coq_files()) + '\n'
    p = COQ / '_CoqProject'
    if not p.exists() or p.read_text() != proj or not (COQ / 'Makefile').exists():
        p.write_text(proj)
        r = sh(['coq_makefile', '-f', '_CoqProject', '-o', 'Makefile'], cwd=COQ)
        if r.returncode != 0:
            raise RuntimeError('coq_makefile failed:\n' + r.stdout)


def coq_make(targets: list[str], timeout: int = 1800, jobs: int = 16) -> tuple[bool, str]:
    """Full .vo build of the given targets (never -vos)."""
    with CoqLock():
        ensure_makefile()
        r = sh(['timeout', str(timeout), 'make', f'-j{jobs}', '--no-print-directory'] + targets,
               cwd=COQ, timeout=timeout + 30)
    return r.returncode == 0, r.stdout


def write_if_changed(path: Path, text: str) -> bool:
    if path.exists() and path.read_text() == text:
        return False
    path.parent.mkdir(parents=True, exist_ok=True)
    path.write_text(text)
    return True


REQ_RE = re.compile(r'^\s*(?:From\s+NL\s+)?Require\s+(?:Import\s+|Export\s+)?([^.]*(?:\.[A-Za-z0-9_]+)*)\s*\.\s*$', re.M)


def dep_closure(rel_files: list[str]) -> list[Path]:
    """The .v files (under theories/) a list of property files transitively Require (NL.* only)."""
    todo = [THEORIES / f for f in rel_files]
    seen: dict[Path, None] = {}
    while todo:
        p = todo.pop()
        if p in seen or not p.exists():
            continue
        seen[p] = None
        txt = p.read_text()
        for m in re.finditer(r'Require\s+(?:Import\s+|Export\s+)?([A-Za-z0-9_.\s]+?)\.\s', txt):
            for name in m.group(1).split():
                name = name.strip()
                if name.startswith('NL.'):
                    name = name[3:]
                cand = THEORIES / (name.replace('.', '/') + '.v')
                if cand.exists():
                    todo.append(cand)
    return list(seen)


def hygiene_scan(rel_files: Optional[list[str]] = None) -> list[str]:
    """No Admitted/admit/Axiom/Parameter/... in the development (all of it, or the dependency
    closure of the given property files); Variable/Hypothesis only inside a Section."""
    bad = []
    files = list(THEORIES.rglob('*.v')) if rel_files is None else dep_closure(rel_files)
    for p in files:
        depth = 0
        in_comment = 0
        for n, line in enumerate(p.read_text().splitlines(), 1):
            # strip comments (nesting-aware, line-granular approximation)
            out = ''
            i = 0
            while i < len(line):
                if line.startswith('(*', i):
                    in_comment += 1
                    i += 2
                elif line.startswith('*)', i) and in_comment:
                    in_comment -= 1
                    i += 2
                else:
                    if not in_comment:
                        out += line[i]
                    i += 1
            s = out.strip()
            if not s:
                continue
            if re.match(r'^(Section|Module)\b', s) and not re.match(r'^Module\s+(Import|Export)\b', s):
                depth += 1
            elif re.match(r'^End\b', s):
                depth -= 1
            if HYGIENE_RE.search(s):
                bad.append(f'{p.relative_to(COQ)}:{n}: {s}')
            if re.match(r'^(Variable|Variables|Hypothesis|Hypotheses|Context)\b', s) and depth <= 0:
                bad.append(f'{p.relative_to(COQ)}:{n}: {s} (outside a Section)')
    return bad


THEOREM_RE = re.compile(r'^\s*(Theorem|Lemma|Example|Corollary)\s+([A-Za-z0-9_\']+)', re.M)


def theorems_in(relpath: str) -> list[str]:
    p = THEORIES / relpath
    if not p.exists():
        return []
    return [m.group(2) for m in THEOREM_RE.finditer(p.read_text())]


def parse_assumptions(out: str, names: list[str]) -> dict[str, list[str]]:
    """Parse the output of a file made of `Print Assumptions x.` commands.
    Returns name -> list of axiom names ([] = closed under the global context)."""
    # split at our own markers
    res: dict[str, list[str]] = {}
    chunks = re.split(r'@@AUDIT (\S+)@@', out)
    # chunks = [pre, name1, text1, name2, text2, ...]
    for i in range(1, len(chunks) - 1, 2):
        name, text = chunks[i], chunks[i + 1]
        if 'Closed under the global context' in text:
            res[name] = []
        else:
            axs = []
            seen_axioms = False
            for line in text.splitlines():
                if line.strip().startswith('Axioms:'):
                    seen_axioms = True
                    continue
                m = re.match(r'^([A-Za-z0-9_\.\']+)\s*:', line)
                if seen_axioms and m:
                    axs.append(m.group(1))
            res[name] = axs if seen_axioms else ['<unparsed>']
    for n in names:
        res.setdefault(n, ['<missing>'])
    return res


# --------------------------------------------------------------------------
# terms


def cz(n: int) -> str:
    return f'({n})%Z'


def cnat(n: int) -> str:
    assert 0 <= n < 5000
    return f'{n}%nat'


def cbool(b: bool) -> str:
    return 'true' if b else 'false'


def clist(xs) -> str:
    return '[' + '; '.join(xs) + ']'


def copt(x: Optional[str]) -> str:
    return 'None' if x is None else f'(Some {x})'


def cpair(a: str, b: str) -> str:
    return f'({a}, {b})'


# --------------------------------------------------------------------------
# results


@dataclass
class Violation:
    signature: str          # canonical, specific: matched against known_findings.json
    what: str               # human text
    data: dict              # replay payload (labels / program / schedule, observed, required)


@dataclass
class Corr:
    evaluations: int = 0
    distinct_nontrivial: int = 0
    rule: str = ''
    samples: list = field(default_factory=list)
    mismatches: list = field(default_factory=list)      # model vs implementation disagreements
    violations: list = field(default_factory=list)      # oracle hits (Violation)
    extra: dict = field(default_factory=dict)
    traces_validated: int = 0


class Ctx:
    def __init__(self, prop: str, tier: str, seed: int):
        self.prop = prop
        self.tier = tier
        self.seed = seed
        self.rng = random.Random(seed)
        self.t0 = time.time()
        self.scratch = Path(tempfile.mkdtemp(prefix=f'verif_{prop}_'))
        self.notes: list[str] = []

    def cleanup(self):
        shutil.rmtree(self.scratch, ignore_errors=True)

    def log(self, *a):
        print(f'[{self.prop} {time.time() - self.t0:6.1f}s]', *a, flush=True)

    # ---- Coq evaluation inside the assistant (vm_compute) ----
    def coq_eval(self, name: str, text: str, timeout: int = 600) -> tuple[bool, str]:
        f = self.scratch / f'{name}.v'
        f.write_text(text)
        # the NL modules the text requires may lie outside the dependency closure of the property
        # file (helpers used only by case files): build them first (no-op when up to date)
        need = []
        for m in re.finditer(r'From\s+NL\s+Require\s+(?:Import\s+|Export\s+)?([A-Za-z0-9_.\s]+?)\.\s', text):
            for mod in m.group(1).split():
                rel = 'theories/' + mod.replace('.', '/') + '.vo'
                if (COQ / rel[:-1]).exists() and rel not in _EVAL_BUILT:
                    need.append(rel)
        if need:
            with _EVAL_LOCK:
                need = [t for t in need if t not in _EVAL_BUILT]
                if need:
                    ok, log = coq_make(need, timeout=1500)
                    if not ok:
                        return False, 'building ' + ' '.join(need) + ' failed:\n' + log[-2000:]
                    _EVAL_BUILT.update(need)
        r = sh(['timeout', str(timeout), 'coqc', '-Q', str(THEORIES), 'NL',
                '-w', '-notation-overridden', str(f)], cwd=self.scratch, timeout=timeout + 30)
        return r.returncode == 0, r.stdout

    def coq_eval_many(self, files: dict[str, str], timeout: int = 600, par: int = 8) -> dict[str, tuple[bool, str]]:
        from concurrent.futures import ThreadPoolExecutor
        with ThreadPoolExecutor(par) as ex:
            futs = {n: ex.submit(self.coq_eval, n, t, timeout) for n, t in files.items()}
            return {n: f.result() for n, f in futs.items()}


_EVAL_BUILT: set = set()
_EVAL_LOCK = threading.Lock()


def parse_nat_list(out: str, marker: str = '') -> Optional[list[int]]:
    """Parse '= [1; 2] : list nat' (possibly wrapped) from coqc output."""
    m = re.search(r'=\s*\[([^\]]*)\]\s*:\s*list\s+nat', out, re.S)
    if not m:
        return None
    body = m.group(1).strip()
    if not body:
        return []
    return [int(x.strip().replace('%nat', '')) for x in body.split(';')]


def load_known() -> dict:
    if KNOWN.exists():
        return json.loads(KNOWN.read_text())
    return {'findings': [], 'fixed': []}


def write_replay(prop: str, payload: dict) -> Path:
    REPLAYS.mkdir(exist_ok=True)
    h = hashlib.sha1(json.dumps(payload, sort_keys=True, default=str).encode()).hexdigest()[:10]
    p = REPLAYS / f'{prop}_{h}.json'
    p.write_text(json.dumps(payload, indent=1, default=str))
    return p


def write_evidence(prop: str, ev: dict) -> None:
    # a run against a scratch copy (VERIF_REPO, used by harness/seed_test.py) is not evidence about /repo
    d = EVIDENCE if not os.environ.get('VERIF_REPO') else VERIF / 'replays' / 'scratch_evidence'
    d.mkdir(parents=True, exist_ok=True)
    (d / f'{prop}.json').write_text(json.dumps(ev, indent=1, default=str) + '\n')
