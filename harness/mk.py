"""dev helper: python -m harness.mk theories/X.vo ..."""
import sys
from . import common as C
ok, log = C.coq_make(sys.argv[1:], timeout=900)
print(log[-3500:])
sys.exit(0 if ok else 1)
