"""Executes C10 scenarios against the REAL nextline through its public API (Nextline(statement),
register(plugin), run_continue_and_wait(), kill()/terminate()/interrupt()), with a real spawned
child, and prints one observation per scenario.

    python -m harness.relay_runner   < json-list-of-scenarios   ->  '@@R ' + json per scenario

scenario = {
  'id': any, 'src': str, 'trace_modules': bool, 'trace_threads': bool,
  'delay': {'every': n, 'seconds': s}           # the Recorder's handler sleeps s seconds at every n-th event
         | {'types': [...], 'seconds': s}       # ... at every event of these types (e.g. OnEndTrace = the LAST relayed event)
         | {..., 'gate': T} | None,             # instead of sleeping: HELD until on_end_run has been called, at most T seconds
  'start_delay': seconds | None,                # the Recorder's on_start_run sleeps (slow user plugin)
  'hog': seconds | None,                        # a task blocks the event loop for `hog` s in every iteration
  'kill': {'how': 'kill'|'terminate'|'interrupt', 'at_event': k} | None,   # requested from the hook of the k-th event
  'timeout': seconds (default 40)
}
observation = {'log': [[kind, ...], ...], 'finished': bool, 'hang': bool, ...}
log entries (in the order the main-process plugin saw them):
  ['start_run'] , ['start_run_done'], ['ev', hook, fields], ['ev_done', i], ['end_run'], ['kill_req', how, result]
"""
from __future__ import annotations

import asyncio
import dataclasses
import json
import multiprocessing as mp
import os
import sys
import threading
import time
import traceback

REAL_STDOUT = sys.stdout
CURRENT: dict = {}

EVENT_HOOKS = ['on_start_trace', 'on_end_trace', 'on_start_trace_call', 'on_end_trace_call', 'on_start_cmdloop',
               'on_end_cmdloop', 'on_start_prompt', 'on_end_prompt', 'on_write_stdout']


def emit(obj) -> None:
    REAL_STDOUT.write('@@R ' + json.dumps(obj, default=repr) + '\n')
    REAL_STDOUT.flush()


def ev_fields(ev) -> dict:
    d = {'type': type(ev).__name__}
    for f in dataclasses.fields(ev):
        if f.name.endswith('_at') or f.name == 'frame_object_id':
            continue
        d[f.name] = getattr(ev, f.name)
    return d


def make_recorder(scn: dict, obs: dict, nl_ref: dict):
    from nextline.plugin.spec import hookimpl

    log = obs['log']
    delay = scn.get('delay') or None
    kill = scn.get('kill') or None
    state = {'n': 0}

    class Recorder:
        @hookimpl
        async def on_start_run(self, context):
            log.append(['start_run'])
            p = context.running_process
            if p is not None:
                CURRENT['pid'] = p.process.pid
            if scn.get('start_delay'):
                await asyncio.sleep(scn['start_delay'])
            log.append(['start_run_done'])

        @hookimpl
        async def on_end_run(self, context):
            state['ended'] = True
            log.append(['end_run'])

    async def on_event(hook, event):
        state['n'] += 1
        i = state['n']
        log.append(['ev', hook, ev_fields(event)])
        if kill and i == kill['at_event']:
            async def req():
                try:
                    await getattr(nl_ref['nl'], kill['how'])()
                    log.append(['kill_req', kill['how'], 'ok'])
                except BaseException as e:
                    log.append(['kill_req', kill['how'], repr(e)])
            asyncio.ensure_future(req())
        if delay and ((delay.get('every') and i % delay['every'] == 0) or type(event).__name__ in (delay.get('types') or [])):
            if delay.get('gate'):
                t_end = time.time() + float(delay['gate'])
                while not state.get('ended') and time.time() < t_end:
                    await asyncio.sleep(0.005)
                log.append(['gate', i, 'end_run_seen' if state.get('ended') else 'timeout'])
            else:
                await asyncio.sleep(delay['seconds'])
        log.append(['ev_done', i])

    def mk(hook):
        async def impl(self, event):
            await on_event(hook, event)
        impl.__name__ = hook
        return hookimpl(impl)

    for h in EVENT_HOOKS:
        setattr(Recorder, h, mk(h))
    return Recorder()


async def scenario(scn: dict, obs: dict) -> None:
    from nextline import Nextline
    nl = Nextline(scn['src'], trace_modules=bool(scn.get('trace_modules', False)),
                  trace_threads=bool(scn.get('trace_threads', False)), timeout_on_exit=10)
    ref = {'nl': nl}
    nl.register(make_recorder(scn, obs, ref))
    hog_task = None
    if scn.get('hog'):
        async def hog():
            while True:
                time.sleep(scn['hog'])        # blocks the loop
                await asyncio.sleep(0)
        hog_task = asyncio.ensure_future(hog())
    t0 = time.time()
    try:
        async with nl:
            await nl.run_continue_and_wait()
            obs['finished'] = True
            obs['state'] = nl.state
            obs['t_run'] = round(time.time() - t0, 3)
            obs['log'].append(['returned'])
            try:
                obs['result_exc'] = (nl.format_exception() or '').strip().splitlines()[-1:]
            except Exception:
                pass
    finally:
        if hog_task:
            hog_task.cancel()
    # anything delivered after the run was reported finished?
    await asyncio.sleep(0.05)
    obs['closed'] = True


def run_one(scn: dict) -> dict:
    obs: dict = {'id': scn.get('id'), 'hang': False, 'finished': False, 'log': []}
    CURRENT.clear()
    done = threading.Event()
    tmo = float(scn.get('timeout', 40))

    def watchdog():
        if done.wait(tmo):
            return
        o = dict(obs)
        o['log'] = list(obs['log'])
        o['hang'] = True
        frames = sys._current_frames()
        st = {}
        for th in threading.enumerate():
            f = frames.get(th.ident)
            if f is not None:
                st[th.name] = [f'{x.filename.split("/")[-1]}:{x.lineno}:{x.name}' for x in traceback.extract_stack(f)][-6:]
        o['stacks'] = st
        allst = ' '.join(' '.join(v) for v in st.values())
        o['feeder_waits_for_write_lock'] = 'queues.py:263:_feed' in allst
        o['reader_inside_partial_record'] = 'connection.py:395:_recv' in allst
        pid = CURRENT.get('pid')
        if pid:
            try:
                os.kill(pid, 0)
                o['child_alive_at_hang'] = not _zombie(pid)
            except OSError:
                o['child_alive_at_hang'] = False
        emit(o)
        _kill_children()
        os._exit(3)

    threading.Thread(target=watchdog, daemon=True, name='verif-watchdog').start()
    try:
        asyncio.run(scenario(scn, obs))
    except BaseException as e:
        obs['runner_error'] = repr(e) + traceback.format_exc()[-600:]
    done.set()
    _kill_children()
    return obs


def _zombie(pid) -> bool:
    try:
        with open(f'/proc/{pid}/stat') as f:
            return f.read().split(')')[-1].split()[0] == 'Z'
    except OSError:
        return True


def _kill_children() -> None:
    for p in mp.active_children():
        try:
            p.kill()
        except Exception:
            pass


def main() -> None:
    import logging
    logging.disable(logging.CRITICAL)
    scns = json.loads(sys.stdin.read())
    sys.stderr = open(os.devnull, 'w')
    for scn in scns:
        t = time.time()
        o = run_one(scn)
        o['wall'] = round(time.time() - t, 3)
        emit(o)
    sys.stdout.flush()
    os._exit(0)


if __name__ == '__main__':
    main()
