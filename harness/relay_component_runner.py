"""Component-level driver of nextline.plugin.plugins.session.session.relay_events (C10).

The state "the subprocess has exited NORMALLY and its last events are still in the pipe" arises in a real run only when
the feeder thread of the child's queue lags behind its `wait_until_queue_empty` (Relay/Model.v: ChildExit with a non-empty
pipe); here it is produced deterministically: the events are put on a spawn-context multiprocessing queue (what the child
does), the `relay_events` block is left (what RunSession.run does once the process has been awaited) while the hook of one
event is still running and the rest is in the pipe.  Scenario (JSON on argv[1]):
  {"n": 5, "slow": {"index": 0, "seconds": 2.0}, "leave": "while-slow-hook-runs" | "after-all-put"}
Output: one line `@@LOG [...]` = the recorder's log: ["ev", i] for each hook call, ["done", i] for each completion, ["END"]
when the block has been left (where on_end_run is called), then whatever arrives afterwards within a grace period.
"""
from __future__ import annotations

import asyncio
import datetime
import json
import multiprocessing as mp
import sys


async def scenario(scn: dict) -> list:
    from apluggy import PluginManager

    from nextline import events
    from nextline.plugin import spec
    from nextline.plugin.plugins.session import OnEvent
    from nextline.plugin.plugins.session.session import relay_events
    from nextline.plugin.spec import Context, hookimpl
    from nextline.utils.pubsub import PubSub

    log: list = []
    slow = scn.get('slow') or {}
    started = asyncio.Event()

    class Recorder:
        @hookimpl
        async def on_write_stdout(self, event) -> None:
            i = int(event.text)
            log.append(['ev', i])
            if slow and i == slow.get('index'):
                started.set()
                await asyncio.sleep(slow.get('seconds', 0))
            elif scn.get('each'):
                await asyncio.sleep(scn['each'])
            log.append(['done', i])

    hook = PluginManager(spec.PROJECT_NAME)
    hook.add_hookspecs(spec)
    hook.register(OnEvent)
    hook.register(Recorder())
    context = Context(nextline=None, hook=hook, pubsub=PubSub())  # type: ignore
    n = scn['n']
    queue = mp.get_context('spawn').Queue()
    async with relay_events(context, queue):
        for i in range(n):
            queue.put(events.OnWriteStdout(written_at=datetime.datetime.utcnow(), run_no=1, trace_no=1, text=str(i)))
        if slow and scn.get('leave', 'while-slow-hook-runs') == 'while-slow-hook-runs':
            await asyncio.wait_for(started.wait(), 20)
            for _ in range(500):            # the rest has reached the pipe
                if not queue.empty() or slow.get('index') == n - 1:
                    break
                await asyncio.sleep(0.01)
    log.append(['END'])
    await asyncio.sleep(scn.get('grace', 0.6))
    queue.close()
    return log


def main() -> None:
    scn = json.loads(sys.argv[1])
    try:
        log = asyncio.run(asyncio.wait_for(scenario(scn), scn.get('timeout', 40)))
        print('@@LOG ' + json.dumps(log), flush=True)
    except BaseException as e:  # noqa
        print('@@ERR ' + json.dumps(repr(e)), flush=True)


if __name__ == '__main__':
    main()
