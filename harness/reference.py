"""Reference execution of a program WITHOUT nextline (used by C04/C05).

run_reference(src, form, build_statement) runs the same program as the traced run -- plain
`exec` of the compiled code in fresh globals, or a plain call of the callable -- under a
RECORDING trace function installed with sys.settrace / threading.settrace.  The recorder
always returns itself, so it sees the complete raw event stream CPython generates: every
call / line / return / exception event of every frame of every thread.

Nothing of nextline is imported here: the result is the independent oracle of C04 (what the
program does when executed directly) and of C05 (which lines each thread/task executes).

result = {
  'streams': [ {'key': 'thread:0'|'task:1', 'kind': 'thread'|'task', 'main_thread': bool,
                'thread': int, 'first_seq': int} ... ]            # in order of first event
  'frames':  [ [module_name, code_name, file_name, gen_flag, first_line, last_line] ... ]   # index = frame id
  'events':  [ [stream_index, kind, frame_id, parent_frame_id|-1, line, exc_info] ... ]
               kind: 0 call, 1 line, 2 return, 3 exception;  exc_info: 0 | [type_name, is_StopIteration,
               is_GeneratorExit, traceback_is_None, innermost traceback frame id|-1, its line, its f_back id|-1, its generator flag]
  'stdout':  [ [stream_index|-1, text] ... ]                      # every sys.stdout.write, in order
  'ret': repr(return value), 'exc_type': str|None, 'exc_str': str, 'tb': [[file, line, name, module] ...],
  'fmt_exc': str, 'script_module': str, 'script_file': str, 'truncated': bool
}
"""
from __future__ import annotations

import asyncio
import io
import sys
import threading
import traceback
from functools import partial
from pathlib import Path
from types import CodeType

REF_MODULE = '__verif_reference_script__'
GEN_FLAGS = 0x20 | 0x80 | 0x200          # CO_GENERATOR | CO_COROUTINE | CO_ASYNC_GENERATOR
MAX_EVENTS = 60000
KIND = {'call': 0, 'line': 1, 'return': 2, 'exception': 3}


class Recorder:
    def __init__(self):
        self.frames: dict = {}          # id(frame) -> frame index (frames are kept alive: no id reuse)
        self.keep: list = []
        self.frame_info: list = []
        self.streams: dict = {}         # task/thread object id -> stream index
        self.keep_keys: list = []
        self.stream_info: list = []
        self.threads: dict = {}
        self.by_ident: dict = {}        # thread ident -> stream index of the thread itself
        self.events: list = []
        self.stdout: list = []
        self.truncated = False
        self.main_ident = threading.get_ident()
        self.lock = threading.Lock()

    # ---- identity of the current thread / asyncio task (what nextline calls current_task_or_thread)
    def stream(self) -> int:
        try:
            task = asyncio.current_task()
        except RuntimeError:
            task = None
        obj = task if task is not None else threading.current_thread()
        k = id(obj)
        s = self.streams.get(k)
        if s is None:
            with self.lock:
                ident = threading.get_ident()
                t = self.threads.setdefault(ident, len(self.threads))
                s = len(self.stream_info)
                self.streams[k] = s
                self.keep_keys.append(obj)
                kind = 'task' if task is not None else 'thread'
                if task is None:
                    self.by_ident[ident] = s
                self.stream_info.append({'key': f'{kind}:{s}', 'kind': kind, 'main_thread': ident == self.main_ident,
                                         'thread': t, 'first_seq': len(self.events)})
        return s

    def frame_id(self, frame) -> int:
        k = id(frame)
        i = self.frames.get(k)
        if i is None:
            with self.lock:
                i = len(self.frame_info)
                self.frames[k] = i
                self.keep.append(frame)
                co = frame.f_code
                last = max((l for _, _, l in co.co_lines() if l is not None), default=co.co_firstlineno)
                self.frame_info.append([frame.f_globals.get('__name__'), co.co_name, co.co_filename,
                                        1 if co.co_flags & GEN_FLAGS else 0, co.co_firstlineno, last])
        return i

    def trace(self, frame, event, arg):
        k = KIND.get(event)
        if k is None:
            return self.trace
        if frame.f_code is _WRITE_CODE:
            return None                 # the recorder's own sys.stdout.write: not part of the program
        if len(self.events) >= MAX_EVENTS:
            self.truncated = True
            return self.trace
        s = self.stream()
        f = self.frame_id(frame)
        back = frame.f_back
        p = self.frame_id(back) if back is not None else -1
        x = 0
        if k == 3:
            tb = arg[2]
            tf, tl, tp, tg = -1, 0, -1, False
            while tb is not None:       # innermost frame of the traceback (what Pdb.get_stack may select)
                fr = tb.tb_frame
                tf, tl = self.frame_id(fr), tb.tb_lineno
                tp = self.frame_id(fr.f_back) if fr.f_back is not None else -1
                tg = bool(fr.f_code.co_flags & GEN_FLAGS)
                tb = tb.tb_next
            x = [getattr(arg[0], '__name__', str(arg[0])), arg[0] is StopIteration, arg[0] is GeneratorExit, arg[2] is None,
                 tf, tl, tp, tg]
        self.events.append([s, k, f, p, frame.f_lineno, x])
        return self.trace


class RecStdout(io.TextIOBase):
    def __init__(self, rec: Recorder):
        self.rec = rec

    def writable(self):
        return True

    def write(self, s):
        # only C functions are called here (no frame of this method's callees reaches the recorder)
        try:
            task = asyncio.current_task()
        except RuntimeError:
            task = None
        if task is not None:
            k = self.rec.streams.get(id(task), -1)
        else:
            k = self.rec.by_ident.get(threading.get_ident(), -1)
        self.rec.stdout.append([k, s])
        return len(s)

    def flush(self):
        pass


_WRITE_CODE = RecStdout.write.__code__


def _compose(statement, filename):
    """what `executing it directly` means for each statement form"""
    if isinstance(statement, str):
        code = compile(statement, filename, 'exec', dont_inherit=True)     # this module's __future__ flags must not leak into the script
        return partial(exec, code, {'__name__': REF_MODULE}), REF_MODULE, filename
    if isinstance(statement, Path):
        code = compile(statement.read_text(), str(statement), 'exec', dont_inherit=True)
        return partial(exec, code, {'__name__': REF_MODULE}), REF_MODULE, str(statement)
    if isinstance(statement, CodeType):
        return partial(exec, statement, {'__name__': REF_MODULE}), REF_MODULE, statement.co_filename
    return statement, statement.__module__, statement.__code__.co_filename


def run_reference(src, form, build_statement):
    res = {'streams': [], 'frames': [], 'events': [], 'stdout': [], 'ret': None, 'exc_type': None, 'exc_str': '',
           'tb': [], 'fmt_exc': '', 'script_module': None, 'script_file': None, 'truncated': False, 'error': None}
    try:
        statement, filename = build_statement(src, form)
    except BaseException as e:
        res['error'] = f'build: {e!r}'
        return res
    exc = None
    try:
        func, module, file = _compose(statement, filename)
    except BaseException as e:          # SyntaxError of the source text
        exc = e
        exc.__traceback__ = None         # no frame of the user's code exists
        func = None
        module, file = REF_MODULE, filename
    res['script_module'] = module
    res['script_file'] = file
    rec = Recorder()
    if func is not None:
        old_out = sys.stdout
        sys.stdout = RecStdout(rec)
        here = sys._getframe()
        threading.settrace(rec.trace)
        sys.settrace(rec.trace)
        try:
            ret = func()
            sys.settrace(None)
            res['ret'] = repr(ret)
        except BaseException as e:
            sys.settrace(None)
            exc = e
            tb = e.__traceback__
            if tb is not None and tb.tb_frame is here:     # this harness frame is not the program's
                e.__traceback__ = tb.tb_next
        finally:
            sys.settrace(None)
            threading.settrace(None)  # type: ignore
            sys.stdout = old_out
    if exc is not None:
        res['exc_type'] = type(exc).__name__
        res['exc_str'] = str(exc)
        tb = exc.__traceback__
        while tb is not None:
            fr = tb.tb_frame
            res['tb'].append([fr.f_code.co_filename, tb.tb_lineno, fr.f_code.co_name, fr.f_globals.get('__name__')])
            tb = tb.tb_next
        res['fmt_exc'] = ''.join(traceback.format_exception(type(exc), exc, exc.__traceback__))
    res['streams'] = rec.stream_info
    res['frames'] = rec.frame_info
    res['events'] = rec.events
    res['stdout'] = rec.stdout
    res['truncated'] = rec.truncated
    rec.keep.clear()
    rec.keep_keys.clear()
    return res
