"""Reference execution of a program WITHOUT nextline (used by C04/C05): placeholder,
filled in by the C04/C05 harness."""


def run_reference(src, form, build_statement):
    return None
