"""Parent side of the in-process child harness (DESIGN.md 4.4).

run_jobs(jobs) runs each job (see child_worker.py for the job format) with the REAL
nextline.spawned code from /repo, in fresh interpreter processes, in parallel.
"""
from __future__ import annotations

import json
import os
import subprocess
import sys
from concurrent.futures import ThreadPoolExecutor
from pathlib import Path

from . import common as C


def _run_chunk(jobs: list[dict], extra_env: dict | None = None) -> list[dict]:
    out: list[dict] = []
    todo = list(jobs)
    while todo:
        env = dict(os.environ)
        env['PYTHONPATH'] = f'{C.REPO}:{C.VERIF}'
        env['PYTHONHASHSEED'] = '0'
        env['PYTHONDONTWRITEBYTECODE'] = '1'
        if extra_env:
            env.update(extra_env)
        budget = sum(float(j.get('timeout', 20)) for j in todo) + 30
        try:
            p = subprocess.run([C.PY, '-u', '-m', 'harness.child_worker'], input=json.dumps(todo), text=True,
                               stdout=subprocess.PIPE, stderr=subprocess.DEVNULL, env=env, cwd=str(C.VERIF),
                               timeout=budget)
            lines = p.stdout.splitlines()
        except subprocess.TimeoutExpired as e:
            lines = (e.stdout or b'').decode(errors='replace').splitlines() if isinstance(e.stdout, bytes) else (e.stdout or '').splitlines()
        got = []
        for l in lines:
            if l.startswith('@@R '):
                try:
                    got.append(json.loads(l[4:]))
                except Exception:
                    pass
        out += got
        if len(got) >= len(todo):
            break
        if not got:
            # the worker died without reporting anything for the first job
            out.append({'id': todo[0].get('id'), 'error': 'worker-died', 'events': [], 'sent': []})
            todo = todo[1:]
        else:
            todo = todo[len(got):]
    return out


def run_jobs(jobs: list[dict], par: int = 12, chunk: int = 20, extra_env: dict | None = None) -> list[dict]:
    """Results are returned in job order (matched by position)."""
    for i, j in enumerate(jobs):
        j.setdefault('id', i)
    chunks = [jobs[i:i + chunk] for i in range(0, len(jobs), chunk)]
    with ThreadPoolExecutor(par) as ex:
        res = list(ex.map(lambda c: _run_chunk(c, extra_env), chunks))
    flat = [r for c in res for r in c]
    by_id = {}
    for r in flat:
        by_id.setdefault(json.dumps(r.get('id')), r)
    return [by_id.get(json.dumps(j['id']), {'id': j['id'], 'error': 'missing', 'events': [], 'sent': []}) for j in jobs]


if __name__ == '__main__':
    src = sys.argv[1] if len(sys.argv) > 1 else 'x = 1\nprint(x)\n'
    r = run_jobs([{'src': src, 'policy': {'kind': 'all', 'cmd': 'step'}}])
    print(json.dumps(r, indent=1))
