"""System-level run for C07: the REAL Nextline (public API only) in this process, its child spawned as usual.
stdin: one JSON job {'src', 'seed', 'sleep_lines': [...], 'max_decoys'}; stdout: '@@S ' + JSON result.

The responder answers every prompt with 'next' and surrounds the answer with decoys sent through
Nextline.send_pdb_command.  A passive plugin (public plugin API) logs, in the main process' own order, the prompts the
main process has seen start / end and every command handed to send_command together with whether its (trace, prompt)
was in context.open_prompts at that moment (None if the code has no such set)."""
import asyncio
import json
import logging
import random
import sys


async def run(job):
    from nextline import Nextline
    from nextline.plugin.spec import hookimpl
    rng = random.Random(job['seed'])
    log, decoys, genuine = [], {}, {}
    sleep_lines = set(job.get('sleep_lines', []))

    class LogPlugin:
        @hookimpl
        async def on_start_prompt(self, context, event):
            log.append(['saw_start', event.trace_no, event.prompt_no, event.line_no, event.event])

        @hookimpl
        async def on_end_prompt(self, context, event):
            log.append(['saw_end', event.trace_no, event.prompt_no, event.command])

        @hookimpl
        async def send_command(self, context, command):
            op = getattr(context, 'open_prompts', None)
            log.append(['api', command.trace_no, command.prompt_no, command.command,
                        None if op is None else ((command.trace_no, command.prompt_no) in op)])

    nl = Nextline(job['src'], trace_threads=True, trace_modules=False)
    nl.register(LogPlugin())
    closed, traces, nd = {}, set(), [0]

    async def decoy(kind, t, n):
        nd[0] += 1
        decoys[nd[0]] = {'kind': kind, 't': t, 'p': n}
        await nl.send_pdb_command(f"p 'D{nd[0]}'", n, t)

    async def respond():
        async for p in nl.prompts():
            t, n = p.trace_no, p.prompt_no
            traces.add(t)
            old = [k for k in closed if closed[k] == t]
            others = [x for x in traces if x != t]
            pre = ['stale', 'wrong-trace', 'unknown-trace', 'future-before']
            post = ['duplicate', 'stale', 'wrong-trace', 'unknown-trace']
            for kind in [rng.choice(pre) for _ in range(rng.randint(0, job.get('max_decoys', 2)))]:
                if kind == 'stale' and old:
                    await decoy(kind, t, rng.choice(old))
                elif kind == 'wrong-trace':
                    await decoy(kind, rng.choice(others) if others else t + 1, n)
                elif kind == 'unknown-trace':
                    await decoy(kind, rng.choice([0, 77]), n)
                elif kind == 'future-before':
                    await decoy(kind, t, n + rng.randint(1, 3))
            genuine[n] = [t, 'next']
            await nl.send_pdb_command('next', n, t)
            if p.line_no in sleep_lines and p.event == 'line':
                # the trace is now executing time.sleep(): its next prompt cannot have been issued yet
                for d in range(1, rng.randint(1, 3) + 1):
                    await decoy('future', t, n + d)
            for kind in [rng.choice(post) for _ in range(rng.randint(0, job.get('max_decoys', 2)))]:
                if kind == 'duplicate':
                    await decoy(kind, t, n)
                elif kind == 'stale' and old:
                    await decoy(kind, t, rng.choice(old))
                elif kind == 'wrong-trace' and others:
                    await decoy(kind, rng.choice(others), n)
                elif kind == 'unknown-trace':
                    await decoy(kind, 77, n)
            closed[n] = t

    async def first_cycle(k_open):
        """a first run of the same object, killed while its prompt number k_open is open (it never gets an end event);
        the numbers restart in the next run, where (trace, k_open) is at first a prompt that has not been issued yet"""
        async for p in nl.prompts():
            if p.prompt_no >= k_open:
                await nl.kill()
                break
            await nl.send_pdb_command('next', p.prompt_no, p.trace_no)

    async with nl:
        if job.get('first_run_kill_at'):
            async with nl.run_session():
                await first_cycle(job['first_run_kill_at'])
            await nl.reset()
            log.clear()
        async with nl.run_session():
            await respond()
    return {'log': log, 'decoys': decoys, 'genuine': genuine}


if __name__ == '__main__':
    logging.disable(logging.CRITICAL)
    job = json.loads(sys.stdin.read())
    try:
        res = asyncio.run(asyncio.wait_for(run(job), job.get('timeout', 40)))
    except BaseException as e:      # noqa
        res = {'error': repr(e), 'log': [], 'decoys': {}, 'genuine': {}}
    sys.stdout.write('@@S ' + json.dumps(res) + '\n')
    sys.stdout.flush()
