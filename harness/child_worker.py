"""Runs `nextline.spawned.main(run_arg)` IN-PROCESS with queue.Queue's (as the repo's own
tests do), one job after another, in a fresh interpreter started by harness/child.py.

stdin: one JSON list of jobs.  stdout: one JSON object per line (prefixed '@@R ').

job = {
  'id': any,
  'src': str,                       # the program text
  'form': 'str'|'path'|'code'|'callable',
  'trace_threads': bool, 'trace_modules': bool, 'run_no': int,
  'policy': {'kind': 'all', 'cmd': 'step'}
          | {'kind': 'seq', 'cmds': [...], 'then': 'continue'}
          | {'kind': 'random', 'seed': int, 'cmds': [...]}
          | {'kind': 'custom', 'module': 'harness.props.c07', 'func': 'make_policy', 'args': {...}},
  'timeout': float (seconds, default 20),
  'reference': bool                 # also run the program untraced, under a recording trace function
}
result = {'id', 'events': [ {'type': 'OnStartTrace', ...fields without datetimes...} ],
          'ret': repr, 'fmt_ret', 'fmt_exc', 'stdout': str, 'error': str|None, 'sent': [[trace_no, prompt_no, cmd]...],
          'reference': {...}|None}
"""
from __future__ import annotations

import dataclasses
import importlib
import io
import json
import os
import pickle
import queue
import random
import sys
import tempfile
import threading
import time
import traceback
from pathlib import Path

REAL_STDOUT = sys.stdout


def emit(obj) -> None:
    REAL_STDOUT.write('@@R ' + json.dumps(obj, default=repr) + '\n')
    REAL_STDOUT.flush()


def ev_to_dict(ev) -> dict:
    d = {'type': type(ev).__name__}
    for f in dataclasses.fields(ev):
        if f.name.endswith('_at'):
            continue
        d[f.name] = getattr(ev, f.name)
    return d


class AllPolicy:
    def __init__(self, cmd):
        self.cmd = cmd

    def on_event(self, ev, put):
        if ev['type'] == 'OnStartPrompt':
            put(ev['trace_no'], ev['prompt_no'], self.cmd)


class SeqPolicy:
    def __init__(self, cmds, then):
        self.cmds = list(cmds)
        self.then = then
        self.i = 0

    def on_event(self, ev, put):
        if ev['type'] == 'OnStartPrompt':
            c = self.cmds[self.i] if self.i < len(self.cmds) else self.then
            self.i += 1
            put(ev['trace_no'], ev['prompt_no'], c)


class RandomPolicy:
    def __init__(self, seed, cmds):
        self.rng = random.Random(seed)
        self.cmds = cmds

    def on_event(self, ev, put):
        if ev['type'] == 'OnStartPrompt':
            put(ev['trace_no'], ev['prompt_no'], self.rng.choice(self.cmds))


def make_policy(p):
    k = p.get('kind', 'all')
    if k == 'all':
        return AllPolicy(p.get('cmd', 'next'))
    if k == 'seq':
        return SeqPolicy(p['cmds'], p.get('then', 'continue'))
    if k == 'random':
        return RandomPolicy(p.get('seed', 0), p.get('cmds', ['next', 'step', 'return', 'until', 'continue']))
    if k == 'custom':
        m = importlib.import_module(p['module'])
        return getattr(m, p['func'])(p.get('args', {}))
    raise ValueError(p)


_tmpdir = None
_ncall = 0
CURRENT: dict = {}


def build_statement(src: str, form: str):
    global _tmpdir, _ncall
    if form == 'str':
        return src, '<string>'
    if _tmpdir is None:
        _tmpdir = tempfile.mkdtemp(prefix='verif_child_')
    _ncall += 1
    if form == 'path':
        p = Path(_job_dir or _tmpdir) / f'script_{_ncall}.py'
        p.write_text(src)
        return p, None
    if form == 'code':
        return compile(src, '<string>', 'exec'), '<string>'
    if form == 'callable':
        # the program becomes the body of a function in a fresh module
        name = f'verif_callable_{os.getpid()}_{_ncall}'
        body = '\n'.join('    ' + l for l in src.splitlines()) or '    pass'
        p = Path(_tmpdir) / f'{name}.py'
        p.write_text('def entry():\n' + body + '\n')
        if _tmpdir not in sys.path:
            sys.path.insert(0, _tmpdir)
        mod = importlib.import_module(name)
        return mod.entry, None
    raise ValueError(form)


_job_dir = None


class import_env:
    """The import environment of a job with `siblings` / `shadows` (progen.IMPORT_PROGRAMS): files next to the script,
    files in a directory at the FRONT of sys.path, the script's directory appended at the END of sys.path (as an
    application that lists it in PYTHONPATH would have it).  `direct=True` adds what `python script.py` does: the script's
    directory at sys.path[0].  Everything is undone on exit (sys.path, sys.modules)."""

    def __init__(self, job: dict, direct: bool):
        self.job, self.direct = job, direct

    def __enter__(self):
        global _tmpdir, _job_dir, _ncall
        if _tmpdir is None:
            _tmpdir = tempfile.mkdtemp(prefix='verif_child_')
        _ncall += 1
        d = Path(_tmpdir) / f'job_{_ncall}'
        site = Path(_tmpdir) / f'job_{_ncall}_site'
        for base, files in ((d, self.job.get('siblings') or {}), (site, self.job.get('shadows') or {})):
            base.mkdir(parents=True, exist_ok=True)
            for rel, text in files.items():
                (base / rel).parent.mkdir(parents=True, exist_ok=True)
                (base / rel).write_text(text)
        self.saved_path = list(sys.path)
        self.saved_modules = set(sys.modules)
        sys.path.insert(0, str(site))
        sys.path.append(str(d))
        if self.direct:
            sys.path.insert(0, str(d))
        importlib.invalidate_caches()
        _job_dir = str(d)
        return self

    def __exit__(self, *a):
        global _job_dir
        _job_dir = None
        sys.path[:] = self.saved_path
        for m in set(sys.modules) - self.saved_modules:
            if m.startswith('verif_'):
                sys.modules.pop(m, None)
        importlib.invalidate_caches()


def run_job(job: dict) -> dict:
    if job.get('siblings') is not None or job.get('shadows') is not None:
        with import_env(job, direct=False):
            res = _run_job(job, with_reference=False)
        if job.get('reference'):
            from . import reference
            with import_env(job, direct=True):
                res['reference'] = reference.run_reference(job['src'], job.get('form', 'str'), build_statement)
        return res
    return _run_job(job, with_reference=True)


def _run_job(job: dict, with_reference: bool) -> dict:
    from nextline.spawned import PdbCommand, RunArg, main, set_queues
    from nextline.types import RunNo

    res = {'id': job.get('id'), 'events': [], 'sent': [], 'error': None, 'reference': None}
    CURRENT['res'] = res
    try:
        statement, filename = build_statement(job['src'], job.get('form', 'str'))
    except BaseException as e:
        res['error'] = f'build: {e!r}'
        return res
    qin: queue.Queue = queue.Queue()
    qout: queue.Queue = queue.Queue()
    set_queues(qin, qout)
    policy = make_policy(job.get('policy', {}))
    events = res['events']
    sent = res['sent']

    def put(trace_no, prompt_no, command):
        sent.append([trace_no, prompt_no, command])
        # through pickle, as the multiprocessing queue of the real parent does: the child must never see the
        # responder's own objects (an identity comparison of numbers would otherwise go unnoticed)
        qin.put(pickle.loads(pickle.dumps(PdbCommand(trace_no=trace_no, prompt_no=prompt_no, command=command))))

    def responder():
        while (ev := qout.get()) is not None:
            d = ev_to_dict(ev)
            events.append(d)
            try:
                policy.on_event(d, put)
            except BaseException:
                res['error'] = 'policy: ' + traceback.format_exc()

    th = threading.Thread(target=responder, daemon=True)
    th.start()
    run_arg = RunArg(
        run_no=RunNo(job.get('run_no', 1)), statement=statement, filename=filename,
        trace_threads=job.get('trace_threads', True), trace_modules=job.get('trace_modules', False),
    )
    buf = io.StringIO()
    old = sys.stdout
    sys.stdout = buf
    try:
        result = main(run_arg)
        res['ret'] = repr(result.ret)
        res['fmt_ret'] = result.fmt_ret
        res['fmt_exc'] = result.fmt_exc
    except BaseException as e:
        res['error'] = f'main raised: {e!r}'
    finally:
        sys.stdout = old
        sys.settrace(None)
        threading.settrace(None)  # type: ignore
    qout.put(None)
    th.join(5)
    res['stdout'] = buf.getvalue()
    if hasattr(policy, 'summary'):
        res['policy_summary'] = policy.summary()
    if job.get('reference') and with_reference:
        from . import reference
        res['reference'] = reference.run_reference(job['src'], job.get('form', 'str'), build_statement)
    return res


def main_loop():
    jobs = json.loads(sys.stdin.read())
    # stderr of traced programs and nextline's own traceback.print_exc are not wanted
    sys.stderr = open(os.devnull, 'w')
    for job in jobs:
        done = threading.Event()
        tmo = float(job.get('timeout', 20))

        def watchdog(job=job, done=done, tmo=tmo):
            if not done.wait(tmo):
                r = dict(CURRENT.get('res') or {'id': job.get('id'), 'events': [], 'sent': []})
                r['events'] = list(r.get('events', []))
                r['error'] = 'timeout'
                r['timeout'] = True
                emit(r)
                os._exit(3)

        threading.Thread(target=watchdog, daemon=True).start()
        t0 = time.time()
        try:
            r = run_job(job)
        except BaseException:
            r = {'id': job.get('id'), 'error': 'worker: ' + traceback.format_exc(), 'events': [], 'sent': []}
        r['wall'] = round(time.time() - t0, 3)
        done.set()
        emit(r)
    if _tmpdir:
        import shutil
        shutil.rmtree(_tmpdir, ignore_errors=True)


if __name__ == '__main__':
    main_loop()
