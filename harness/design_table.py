"""python -m harness.design_table : refresh section 5.0 of DESIGN.md (theorems per property) from Props/*.v"""
import json, re
from pathlib import Path
V = Path(__file__).resolve().parent.parent
m = json.loads((V / 'MANIFEST.json').read_text())
rows = []
for c in m['checks']:
    pid = c['property_id']
    thms = []
    for f in sorted((V / 'coq/theories/Props').glob(f'{pid}*.v')):
        thms += re.findall(r'^(?:Theorem|Example)\s+([A-Za-z0-9_]+)', f.read_text(), re.M)
    rows.append((pid, c.get('technique', ''), len(thms), ', '.join(t.replace(pid + '_', '') for t in thms)))
out = ['### 5.0 As built: theorems per property *(generated from Props/*.v; kept current)*', '',
       'All theorems are closed under the global context (no axioms; `Print Assumptions` is checked on every run).',
       'Names are without the `Cxx_` prefix.  `_refuted` = the full statement is false of the faithful model (witness by',
       '`vm_compute`, reproduced on the real code = a recorded known finding); `_partial` = the strongest true form, with the',
       'added hypothesis visible in the statement.', '',
       '| Id | Deciding method | # | Theorems / examples |', '|---|---|---|---|']
out += [f'| {a} | {b} | {c} | {d} |' for a, b, c, d in rows]
p = V / 'DESIGN.md'
s = p.read_text()
block = '\n'.join(out) + '\n\n'
j = s.index('### C01 —')
i = s.index('### 5.0 As built') if '### 5.0 As built' in s else j
p.write_text(s[:i] + block + s[j:])
print(len(rows), 'rows')
