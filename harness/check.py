"""./check Cxx [--tier quick|thorough] [--replay file]  |  ./check --setup

Verdict rule (DESIGN.md 1.1):
  regenerate Gen/*.v -> make Props/Cxx.vo -> audit (Print Assumptions)
  -> correspondence (model vs implementation) + property oracle
  -> if anything broke: widened search for a failing input
"""
from __future__ import annotations

import argparse
import importlib
import json
import os
import re
import sys
import time
import traceback
from pathlib import Path

from . import common as C


def run_translators(mod, ctx) -> list[str]:
    """Returns the list of broken tie obligations (translator failures)."""
    broken = []
    for name in getattr(mod, 'TRANSLATORS', []):
        try:
            t = importlib.import_module(f'translate.{name}')
            text = t.translate(C.REPO)
            with C.CoqLock():
                changed = C.write_if_changed(C.GEN / t.OUTPUT, text)
            if changed:
                ctx.log(f'translator {name}: Gen/{t.OUTPUT} changed')
        except Exception as e:  # fail-closed
            ctx.log(f'translator {name} FAILED: {e!r}')
            broken.append(f'translator:{name}: {e}')
    return broken


def first_error(log: str) -> str:
    m = re.search(r'File "([^"]+)", line (\d+), characters [^\n]*\n(Error:[^\n]*(\n[^\n]+){0,6})', log)
    if m:
        return f'{m.group(1)}:{m.group(2)}: {m.group(3)}'
    return log[-1500:]


def setup() -> int:
    """Build everything the claimed checks need: regenerate Gen/*.v, full .vo build of every
    property file listed by a check of MANIFEST.json (and what it depends on), hygiene scan."""
    t0 = time.time()
    with C.CoqLock():
        return _setup(t0)


def _setup(t0) -> int:
    import pkgutil
    import translate
    for m in pkgutil.iter_modules(translate.__path__):
        t = importlib.import_module(f'translate.{m.name}')
        if hasattr(t, 'translate'):
            try:
                C.write_if_changed(C.GEN / t.OUTPUT, t.translate(C.REPO))
            except Exception as e:
                print(f'translator {m.name} failed at setup: {e!r} (left to the checks to report)')
    man = json.loads((C.VERIF / 'MANIFEST.json').read_text())
    prop_files: list[str] = []
    for c in man.get('checks', []):
        pid = c['property_id']
        try:
            mod = importlib.import_module(f'harness.props.{pid.lower()}')
            prop_files += getattr(mod, 'PROP_FILES', [f'Props/{pid}.v'])
        except Exception as e:
            print(f'cannot import the module of {pid}: {e!r}')
            return 1
    bad = C.hygiene_scan(prop_files)
    if bad:
        print('HYGIENE FAILURES:\n' + '\n'.join(bad))
        return 1
    targets = sorted({f'theories/{f}o' for f in prop_files} | {'theories/Life/Obs.vo'})
    ok, log = C.coq_make(targets, timeout=3000)
    print(log[-3000:])
    print(f'setup: make {len(targets)} targets {"ok" if ok else "FAILED"} in {time.time() - t0:.0f}s')
    return 0 if ok else 1


def main() -> int:
    ap = argparse.ArgumentParser()
    ap.add_argument('prop', nargs='?')
    ap.add_argument('--tier', default=os.environ.get('VERIF_TIER', 'quick'))
    ap.add_argument('--replay')
    ap.add_argument('--setup', action='store_true')
    a = ap.parse_args()
    if a.setup:
        return setup()
    prop = a.prop
    assert prop and re.match(r'^C\d\d$', prop), 'usage: ./check Cxx [--tier quick|thorough]'
    tier = a.tier if a.tier in ('quick', 'thorough') else 'quick'
    seed = int(os.environ.get('VERIF_SEED', '0') or 0)
    mod = importlib.import_module(f'harness.props.{prop.lower()}')
    ctx = C.Ctx(prop, tier, seed)
    try:
        if a.replay:
            return mod.replay(ctx, Path(a.replay))
        return decide(mod, ctx)
    finally:
        ctx.cleanup()


def decide(mod, ctx) -> int:
    prop, tier = ctx.prop, ctx.tier
    broken: list[str] = []           # broken obligations (names)
    # 1. translators + hygiene (of everything the property files depend on; ./check --setup scans all)
    prop_files = getattr(mod, 'PROP_FILES', [f'Props/{prop}.v'])
    with C.CoqLock():        # translators + build under ONE lock: nobody regenerates Gen/*.v in between
        broken += run_translators(mod, ctx)
        bad = C.hygiene_scan(prop_files)
        if bad:
            broken += [f'hygiene:{b}' for b in bad]
        # 2. proofs
        targets = [f'theories/{f}o' for f in prop_files]
        ok, log = C.coq_make(targets, timeout=1800)
    thms: list[str] = []
    for f in prop_files:
        thms += [f'{f}:{t}' for t in C.theorems_in(f)]
    discharged = 0
    assumptions: dict[str, list[str]] = {}
    if not ok:
        err = first_error(log)
        ctx.log('PROOF BUILD FAILED:', err)
        broken.append(f'coq-build: {err}')
    else:
        # 3. audit
        lines = []
        names = []
        for f in prop_files:
            modname = 'NL.' + f[:-2].replace('/', '.')
            lines.append(f'Require {modname}.')
            for t in C.theorems_in(f):
                q = f'{modname}.{t}'
                names.append(q)
                lines.append(f'Goal True. idtac "@@AUDIT {q}@@". Abort.')
                lines.append(f'Print Assumptions {q}.')
        okA, outA = ctx.coq_eval(f'Audit_{prop}', '\n'.join(lines) + '\n')
        if not okA:
            broken.append('audit: ' + outA[-800:])
        else:
            assumptions = C.parse_assumptions(outA, names)
            for n, axs in assumptions.items():
                extra = [x for x in axs if x.split('.')[-1] not in C.ALLOWED_AXIOMS]
                if extra:
                    broken.append(f'assumptions:{n}: {extra}')
                else:
                    discharged += 1
    obligations = len(thms)
    ctx.log(f'proofs: {discharged}/{obligations} discharged; broken={len(broken)}')

    # 4. correspondence + oracle
    corr = C.Corr()
    try:
        corr = mod.correspond(ctx)
    except Exception as e:
        traceback.print_exc()
        broken.append(f'correspondence-harness: {e!r}')
    for mm in corr.mismatches[:5]:
        ctx.log('MISMATCH model/impl:', json.dumps(mm, default=str)[:600])
    if corr.mismatches:
        broken.append(f'correspondence: {len(corr.mismatches)} case(s) disagree')

    violations: list[C.Violation] = list(corr.violations)

    # 5. something broke and no concrete failing input yet: widened search
    searched = False
    if broken and not violations and hasattr(mod, 'search'):
        searched = True
        ctx.log('searching for a concrete failing input ...')
        try:
            violations += mod.search(ctx, broken)
        except Exception as e:
            traceback.print_exc()
            ctx.notes.append(f'search crashed: {e!r}')

    # 6. verdict
    known = C.load_known()
    known_sigs = {(k['property'], k['signature']): k for k in known.get('findings', [])}
    new_v, known_v = [], []
    seen = set()
    for v in violations:
        if v.signature in seen:
            continue
        seen.add(v.signature)
        (known_v if (prop, v.signature) in known_sigs else new_v).append(v)
    rc = 0
    for v in known_v:
        print(f'KNOWN-FINDING: property={prop} {v.what}')
    for v in new_v:
        p = C.write_replay(prop, {
            'property': prop, 'seed': ctx.seed, 'tier': tier, 'kind': 'impl-violation',
            'signature': v.signature, 'what': v.what, **v.data,
            'broken_obligations': broken,
            'how_to_run': f'./check {prop} --replay <this file>',
        })
        ctx.log(f'violation [{v.signature}] {v.what[:300]}')
        print(f'VIOLATION property={prop} replay={p}')
        rc = 1
    if broken and not new_v:
        p = C.write_replay(prop, {
            'property': prop, 'seed': ctx.seed, 'tier': tier, 'kind': 'broken-obligation',
            'broken_obligations': broken,
            'mismatches': corr.mismatches[:20],
            'searched': searched,
            'note': 'a theorem, tie obligation or the model/implementation correspondence no longer '
                    'checks; the search found no input on which the property itself fails',
        })
        print(f'VIOLATION property={prop} replay={p} no-failing-input-found')
        rc = 1

    ev = {
        'property_id': prop,
        'tier': tier,
        'seed': ctx.seed,
        'level': 'proof',
        'coverage': {
            'obligations': max(obligations, 1),
            'discharged': discharged if not broken or discharged < obligations else discharged,
            'checker_cmd': f'make -C coq {" ".join(targets)} (coqc 8.16.1, full .vo) ; Print Assumptions on every theorem of {", ".join(prop_files)}',
            'trusted_base': getattr(mod, 'TRUSTED_BASE', []) + [
                'Coq 8.16.1 kernel + vm_compute (no native_compute)',
                'axioms per theorem (Print Assumptions): ' + (
                    'all closed under the global context' if all(not v for v in assumptions.values()) and assumptions
                    else json.dumps({k: v for k, v in assumptions.items() if v})),
            ],
            'theorems': thms,
            'broken_obligations': broken,
            'evaluations': corr.evaluations,
            'distinct_nontrivial': corr.distinct_nontrivial,
            'rule': corr.rule,
            'samples': corr.samples[:6],
            'traces_validated_against_impl': corr.traces_validated or corr.evaluations,
            'mismatches': len(corr.mismatches),
            'known_findings_reproduced': [v.signature for v in known_v],
            **corr.extra,
        },
        'assumptions': getattr(mod, 'ASSUMPTIONS', []) + ctx.notes,
        'wall_s': round(time.time() - ctx.t0, 2),
        'violations': len(new_v) + (1 if broken and not new_v else 0),
    }
    C.write_evidence(prop, ev)
    ctx.log(f'done rc={rc} wall={ev["wall_s"]}s evals={corr.evaluations}')
    return rc


if __name__ == '__main__':
    sys.exit(main())
