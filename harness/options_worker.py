"""Worker of the C05 glue tie "options in force": executes option histories on the REAL Nextline object
(constructor, start(), reset(...) ..., close(); no script is run) and reports the RunArg composed for each run,
observed from a registered plugin's on_initialize_run hook.

stdin: JSON list of histories  {'init': {'trace_threads': bool, 'trace_modules': bool, 'statement': str},
                                'resets': [ {'trace_threads': bool?, 'trace_modules': bool?, 'statement': str?} ... ]}
stdout: '@@O ' + JSON list of  {'seen': [[trace_threads, trace_modules, statement, run_no] ...]} | {'error': str}
"""
import asyncio
import json
import sys
import traceback


async def one(h):
    from nextline import Nextline
    from nextline.plugin.spec import hookimpl

    class Rec:
        def __init__(self):
            self.seen = []

        @hookimpl
        async def on_initialize_run(self, context):
            ra = context.run_arg
            self.seen.append([ra.trace_threads, ra.trace_modules, ra.statement if isinstance(ra.statement, str) else repr(ra.statement), ra.run_no])

    rec = Rec()
    nl = Nextline(h['init']['statement'], trace_threads=h['init']['trace_threads'], trace_modules=h['init']['trace_modules'])
    nl.register(rec)
    async with nl:
        for r in h['resets']:
            await nl.reset(**r)
    return {'seen': rec.seen}


async def main(hs):
    out = []
    for h in hs:
        try:
            out.append(await asyncio.wait_for(one(h), 20))
        except BaseException:
            out.append({'error': traceback.format_exc()[-600:]})
    return out


if __name__ == '__main__':
    hs = json.loads(sys.stdin.read())
    res = asyncio.run(main(hs))
    sys.stdout.write('@@O ' + json.dumps(res) + '\n')
