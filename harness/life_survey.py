"""dev tool: run a scenario set and print oracle hits by property and signature
   python -m harness.life_survey quick|thorough|close|overlap|ksweep|endings|continuous [seed]"""
import json, random, sys, time
from collections import defaultdict
from . import life, life_oracles as O, life_scenarios as SC

which = sys.argv[1] if len(sys.argv) > 1 else 'quick'
rng = random.Random(int(sys.argv[2]) if len(sys.argv) > 2 else 0)
scns = {'quick': lambda: SC.quick_set(rng), 'thorough': lambda: SC.thorough_set(rng), 'close': SC.close_points,
        'overlap': SC.overlaps, 'ksweep': SC.ksweeps, 'endings': SC.endings, 'continuous': SC.continuous}[which]()
t0 = time.time()
res = life.run_many(scns)
print(f'{len(scns)} scenarios in {time.time()-t0:.1f}s')
hits = defaultdict(list)
for scn, obs in zip(scns, res):
    p = O.runner_problem(obs)
    if p:
        hits[('RUNNER', p.get('k'))].append((scn['meta'], str(p)[:300]))
    for prop, f in O.ORACLES.items():
        for sig, what in f(scn, obs):
            hits[(prop, sig)].append((scn['meta'], what))
for (prop, sig), l in sorted(hits.items()):
    print(f'{prop} {sig}  x{len(l)}')
    for meta, what in l[:2]:
        print('     ', json.dumps(meta)[:160], '|', what[:200])
json.dump([[s, o] for s, o in zip(scns, res)], open('/tmp/life_survey.json', 'w'), default=repr)
