"""C11 at SYSTEM level: the registrars inside a real Nextline object, with the relay of the child's events held in a
slow hook of a user plugin while the run ends (normally / terminate / kill), i.e. "subscribers scheduled in every
order relative to the relay".  The stream-level tie (harness/props/c11.py) drives the registrars directly and cannot
see WHEN the session calls on_end_run relative to the relay; System/Pipeline.v composes emitter, relay and registrars
and these runs are its tie.

Oracle (the property text on the observation log of harness/life_runner.py; the harness's own plugin sees every
on_start_prompt hook call, its subscribers were attached before the run):
  * prompt notices match prompt starts one to one: the (trace, prompt) pairs received on prompts() are exactly those of
    the on_start_prompt hook calls, in order;
  * when the run has been reported finished the last published active set is empty and nothing is published on
    trace_nos afterwards;
  * the prompt-notice stream of a subscriber attached while it was live has terminated when the run is finished.
"""
from __future__ import annotations

from .. import life, life_oracles as O, life_scenarios as SC
from ..common import Violation


def scenarios(tier: str) -> list[dict]:
    out = SC.relay_order()
    if tier != 'quick':
        out += [s for s in SC.endings() if s['meta'].get('outcome') in ('return', 'raise', 'exit', 'terminate', 'kill')][:10]
    # two Nextline objects in one process: object A stopped at a prompt with a subscriber on its per-trace prompt stream; another
    # object goes through a whole life (its trace numbers restart at 1 too); A is then killed: A's streams must still be closed out
    for ending in ('kill', 'terminate'):
        steps = SC.START + [['call', 'A', 'run'], ['wait_prompt_open'], SC.settle(0.3), ['subscribe_prompt_info_for', 1], SC.settle(0.2),
                            ['other_object_cycle'], SC.settle(0.3), ['call', 'B', ending], SC.settle(0.8), ['sample']]
        out.append(SC.S(steps, dict(family='two-objects', outcome=ending, expect_complete=False), config={'answer': None}))
    for s in out:
        s['meta'] = dict(s['meta'], c11_system=True)
    return out


def oracle(scn: dict, obs: list[dict]) -> list[tuple[str, str]]:
    bad = []
    fin = [o for o in obs if o.get('k') == 'pub' and o.get('topic') == 'run_info' and (o.get('value') or {}).get('state') == 'finished']
    if not fin:
        return bad          # the run was never closed out: judged by C02 (abrupt death) -- nothing to say here
    t_fin = fin[0]['i']
    cut = next((o['i'] for o in obs if o.get('k') == 'end'), len(obs) + 10 ** 6)
    starts = [(o.get('trace_no'), o.get('prompt_no')) for o in obs
              if o.get('k') == 'hook' and o.get('hook') == 'on_start_prompt' and o['i'] < cut]
    notices = [(o['value'].get('trace_no'), o['value'].get('prompt_no')) for o in obs
               if o.get('k') == 'pub' and o.get('topic') == 'prompt_notice' and o['i'] < cut]
    if starts != notices:
        bad.append(('system:notices-do-not-match-prompt-starts',
                    f'prompt starts delivered to the plugins {starts[:12]} but the prompts() subscriber attached before the run '
                    f'received {notices[:12]}'))
    nos = [o for o in obs if o.get('k') == 'pub' and o.get('topic') == 'trace_nos' and o['i'] < cut]
    if nos and nos[-1]['value'] != []:
        bad.append(('system:active-set-not-empty-after-run', f'the run is reported finished, last published active set {nos[-1]["value"]}'))
    late = [o for o in obs if o.get('k') == 'hook' and o.get('hook') in ('on_start_trace', 'on_start_prompt') and t_fin < o['i'] < cut]
    if late:
        bad.append(('system:start-event-after-close-out',
                    f'{late[0]["hook"]} (trace {late[0].get("trace_no")}) was delivered after the run had been reported finished: '
                    'what it opens is never closed out'))
    for st in [o for o in obs if o.get('k') == 'sub_start' and o['i'] < t_fin]:
        if not any(o.get('k') == 'sub_end' and o.get('topic') == st['topic'] and o['i'] < cut for o in obs):
            bad.append(('system:per-trace-prompt-stream-not-terminated',
                        f'a subscriber attached to {st["topic"]} while the trace was live is still waiting after the run was reported finished'))
    ended = any(o.get('k') == 'sub_end' and o.get('topic') == 'prompt_notice' and o['i'] < cut for o in obs)
    if not ended:
        bad.append(('system:notice-stream-not-terminated', 'the run is finished but the prompts() stream attached before it has not terminated'))
    return bad


def run(ctx, tier: str | None = None):
    """-> (violations, stats)"""
    scns = scenarios(tier or ctx.tier)
    res = life.run_many(scns)
    vs: list[Violation] = []
    judged = 0
    for scn, obs in zip(scns, res):
        if any(o.get('k') == 'runner_dead' for o in obs):
            obs = life.run_one(scn)
        p = O.runner_problem(obs)
        if p is not None and p.get('k') in ('runner_dead', 'runner_error'):
            continue
        if scn['meta'].get('outcome') in ('hard', 'terminate', 'kill') and any(o.get('k') in ('await_timeout', 'scenario_timeout') for o in obs):
            continue        # the recorded finding of C02/C17 (abrupt death with a queue lock held)
        judged += 1
        for sig, what in oracle(scn, obs):
            vs.append(Violation(sig, what + f' [{scn["meta"]}]', {'system_scenario': {k: scn[k] for k in ('config', 'steps', 'meta')},
                                                             'observed_tail': life.brief(obs)[-30:]}))
    return vs, {'system_scenarios': len(scns), 'system_judged': judged}
