"""Shared implementation of the lifecycle-family checks (C01 C02 C03 C12 C14 C15 C16).

Tie of Life/Model.v to /repo (checked on every run):
  (i)  gate-level co-simulation (harness/life_cosim.py): generated label sequences executed by the
       model inside Coq (vm_compute) and by the real Nextline with every hook gate held by a user
       plugin; observations (hook log with state/run number/script, publications per topic, call
       results) compared label by label;
  (ii) scenario families (harness/life_scenarios.py) that pin lifecycle points and loop-hop windows
       (k-sweeps) the gate-level run cannot, with real child processes.
Oracle: harness/life_oracles.py, the property text over the observation log of every scenario
(including those of the co-simulation).
"""
from __future__ import annotations

import json
import random
from pathlib import Path

from .. import common as C
from .. import life, life_cosim, life_oracles as O, life_scenarios as SC
from ..common import Corr, Violation

TRUSTED_BASE = [
    'lifecycle harness: harness/life_runner.py (GatePlugin = a user plugin on the public plugin API, real spawned child '
    'controlled through a file), harness/life_cosim.py (label mapping, canonicalisation), harness/life_oracles.py',
    'modelled, not verified: transitions.AsyncMachine trigger semantics, apluggy/pluggy gather of hook implementations, '
    'asyncio.Lock FIFO hand-over, asyncio scheduling fairness (assumption F: a run cannot complete before the run() call '
    'that started it has issued its state notification), multiprocessing spawn',
]
ASSUMPTIONS = [
    'atomic segments: code between two suspension points (hook gates, lock, events, child exit) runs without interleaving (asyncio)',
    'assumption F (DESIGN.md 4.2) is a guard of the model; the co-simulation and the k-sweep scenarios would disagree if it were wrong',
    'API calls are issued from ordinary tasks (contexts not copied inside a transition)',
]


def corpus_scenarios(prop: str) -> list[dict]:
    out = []
    seen = set()
    d = C.CORPUS / 'life'
    if d.exists():
        for p in sorted(d.glob('*.json')):
            j = json.loads(p.read_text())
            key = json.dumps([j.get('config'), j.get('steps')], sort_keys=True)
            if key in seen:        # the same history was saved once per property it violated
                continue
            seen.add(key)
            j.setdefault('meta', {})['corpus'] = p.name
            out.append(j)
    return out


def pick(rng: random.Random, l: list, n: int) -> list:
    return l if len(l) <= n else rng.sample(l, n)


def scenarios_for(prop: str, tier: str, rng: random.Random) -> list[dict]:
    q = tier == 'quick'
    cp = SC.close_points(ksweep=(0, 2, 5) if q else (0, 1, 2, 3, 5, 8, 12))
    ov = SC.overlaps()
    ks = SC.ksweeps(ks=(0, 3, 8, 9, 10, 11, 12) if q else range(0, 24))
    en = SC.endings()
    co = SC.continuous()
    rnd = [SC.random_history(rng, rng.randint(2, 7)) for _ in range(6 if q else 50)]
    tr = SC.triples()
    ro = SC.relay_order()
    nu = SC.numbering()
    n = 12 if q else 10 ** 6
    fam = {
        'C01': tr + SC.finishing_overlaps() + pick(rng, ov, n) + pick(rng, ks, n) + rnd + pick(rng, cp, 8 if q else 10 ** 6),
        'C02': en + SC.failing_to_deliver()[:1] + pick(rng, ks, n) + pick(rng, ov, 6 if q else 10 ** 6),
        'C03': cp + tr + pick(rng, co, 2 if q else 10) + (rnd if not q else rnd[:2]),
        'C12': ro + (SC.relay_order_all_events() if not q else SC.relay_order_all_events()[::2]) + SC.registration() + SC.finishing_overlaps() + pick(rng, ov, n) + pick(rng, ks, n) + en[:4] + rnd[:3] + tr[:2],
        'C14': nu + SC.cancelled_resets() + SC.display() + pick(rng, ov, n + 2) + pick(rng, ks, n) + rnd[:3],
        'C15': pick(rng, ov, n) + pick(rng, ks, n + 4) + en[4:] + rnd[:3] + tr[:3] + SC.cancelled_requests() + SC.failing_to_deliver() + SC.requests_from_hook_tasks(),
        'C16': co + rnd + pick(rng, ov, 6 if q else 10 ** 6),
    }[prop]
    return corpus_scenarios(prop) + fam


def relevant(prop: str, scn: dict, obs: list) -> bool:
    """did the scenario reach the behaviour this property is about?"""
    def has(pred):
        return any(pred(o) for o in obs)
    if prop == 'C03':
        return has(lambda o: o.get('k') == 'call' and o.get('api') in ('close', 'aexit'))
    if prop == 'C16':
        return has(lambda o: o.get('k') == 'call' and o.get('api') in ('run_and_continue', 'run_continue_and_wait'))
    if prop == 'C14':
        return has(lambda o: o.get('k') == 'call' and o.get('api') == 'reset') and has(lambda o: o.get('k') == 'hook' and o['hook'] == 'on_start_run')
    if prop in ('C02', 'C12', 'C15'):
        return has(lambda o: o.get('k') == 'hook' and o['hook'] == 'on_start_run')
    return has(lambda o: o.get('k') == 'pub' and o.get('topic') == 'state_name' and o.get('value') == 'running')


def make(prop: str):
    oracle = O.ORACLES[prop]

    def judge(scn, obs, corr, where):
        crashed = next((o for o in obs if o.get('k') == 'loop_crashed' and o.get('from_impl')), None)
        if crashed is not None and prop == 'C02':
            last = (crashed.get('tb') or '').strip().splitlines()[-1:]
            corr.violations.append(Violation(
                f"run-never-finishes:event-loop-crashed:{crashed.get('err')}",
                f"{crashed.get('err')} raised inside a task of nextline escaped the event loop ({last}): the run is never reported "
                f"finished and its waiters never return [{scn.get('meta')}]",
                {'scenario': {k: scn[k] for k in ('config', 'steps', 'meta') if k in scn}, 'found_in': where,
                 'observed_tail': life.brief(obs)[-25:]}))
            return
        if prop != 'C02' and scn.get('meta', {}).get('outcome') in ('hard', 'terminate', 'kill') and \
                any(o.get('k') in ('await_timeout', 'scenario_timeout') for o in obs):
            # the recorded finding of C02/C17 (the child died abruptly with a queue lock held and the run never
            # finishes) struck in this scenario: it is reported by C02 under its own signature; for this property
            # the history is inconclusive
            corr.extra.setdefault('abrupt_death_hangs_not_judged', 0)
            corr.extra['abrupt_death_hangs_not_judged'] += 1
            return
        p = O.runner_problem(obs)
        if p is not None and p.get('k') in ('runner_dead', 'runner_error'):
            corr.extra.setdefault('runner_problems', 0)
            corr.extra['runner_problems'] += 1
            return
        for sig, what in oracle(scn, obs):
            corr.violations.append(Violation(sig, what, {
                'scenario': {k: scn[k] for k in ('config', 'steps', 'meta') if k in scn}, 'found_in': where,
                'observed_tail': life.brief(obs)[-25:]}))

    def correspond(ctx) -> Corr:
        corr = Corr()
        quick = ctx.tier == 'quick'
        # (i) gate-level co-simulation
        r = life_cosim.run(ctx, 20 if quick else 120, 28 if quick else 40)
        if r.get('error'):
            corr.mismatches.append({'kind': 'cosim', 'error': r['error']})
        for m in r['mismatches']:
            corr.mismatches.append({'kind': 'cosim', **{k: m[k] for k in ('label_index', 'label', 'model', 'impl', 'labels') if k in m}})
        n_cosim = r.get('cases', 0)
        seen = set()
        for scn, obs in r.get('observations', []):
            judge(scn, obs, corr, 'cosim')
            if relevant(prop, scn, obs):
                seen.add(json.dumps(scn['steps']))
        # (ii) scenario families + corpus
        scns = scenarios_for(prop, ctx.tier, ctx.rng)
        res = life.run_many(scns)
        fam_hist: dict[str, int] = {}
        for scn, obs in zip(scns, res):
            if any(o.get('k') in ('runner_dead',) for o in obs):
                obs = life.run_one(scn)
            judge(scn, obs, corr, 'scenario')
            f = scn.get('meta', {}).get('family', 'corpus')
            fam_hist[f] = fam_hist.get(f, 0) + 1
            if relevant(prop, scn, obs):
                seen.add(json.dumps(scn['steps']))
        n_reg = 0
        if prop == 'C12':
            # (iii) the registry model (Life/Registry.v) against register()/unregister()/reset() of a real object
            from .. import registry_tie
            rr = registry_tie.run(ctx, 30 if quick else 300)
            if rr.get('error'):
                corr.mismatches.append({'kind': 'registry', 'error': rr['error']})
            corr.mismatches += rr['mismatches']
            n_reg = rr.get('cases', 0)
            corr.extra['registry_cases'] = n_reg
            corr.extra['registry_hook_calls'] = rr.get('hook_calls', 0)
            for m in rr['mismatches'][:3]:
                corr.violations.append(Violation(
                    'registration:hook-delivery-differs',
                    f"after the operations {m['ops']} the plugins that received a hook call (or the result of a "
                    f"(un)registration) differ from 'registered at the call': expected {m['model']}, got {m['impl']}",
                    {'registry_ops': m['ops'], 'found_in': 'registry-tie'}))
        corr.evaluations = n_cosim + len(scns) + n_reg
        corr.traces_validated = n_cosim
        corr.distinct_nontrivial = len(seen)
        corr.rule = (f'co-simulation: {n_cosim} generated label sequences (calls from 4 tasks, gate releases, child exits; '
                     f'{r.get("effective_labels", 0)} effective labels) compared label by label with Life/Model.v; scenarios: corpus of '
                     'the defects found on the unchanged tree + families (close points, overlapping transitions held at every gate, '
                     'k-sweeps over loop hops, endings x signals, continuous mode, random histories). distinct = distinct step lists; '
                     f'non-trivial = reaches the behaviour {prop} is about (see harness/props/_life.py:relevant)')
        corr.samples = [r.get('sample', {}), {'scenario_steps': scns[len(scns) // 2]['steps'][:14], 'meta': scns[len(scns) // 2].get('meta')}]
        corr.extra['cosim_label_histogram'] = r.get('label_histogram', {})
        corr.extra['cosim_effective_labels'] = r.get('effective_labels', 0)
        corr.extra['scenario_families'] = fam_hist
        return corr

    def search(ctx, broken) -> list:
        """wider hunt: all families for this property at thorough size + more co-simulation"""
        v = Corr()
        scns = scenarios_for(prop, 'thorough', ctx.rng)
        for scn, obs in zip(scns, life.run_many(scns)):
            judge(scn, obs, v, 'search')
        r = life_cosim.run(ctx, 60, 40)
        for scn, obs in r.get('observations', []):
            judge(scn, obs, v, 'search-cosim')
        return v.violations

    def replay(ctx, path: Path) -> int:
        j = json.loads(Path(path).read_text())
        if 'registry_ops' in j:
            from .. import registry_tie
            real = registry_tie.run_real(ctx, [j['registry_ops']])
            ok, out = ctx.coq_eval('RegistryReplay', 'From NL Require Import Life.Registry.\nFrom Coq Require Import List. Import ListNotations.\n'
                                   'Eval vm_compute in run_enc ' + registry_tie.model_ops(j['registry_ops']) + '.\n')
            import re
            m = re.search(r'=\s*(\[.*\])\s*:\s*list', out, re.S)
            model = json.loads(re.sub(r'\s+', ' ', m.group(1).replace(';', ','))) if m else None
            print('operations:', j['registry_ops'])
            print('model :', model)
            print('real  :', real[0] if real else None)
            same = real is not None and model == real[0]
            print('replay verdict:', 'property holds on this history' if same else 'property violated')
            return 0 if same else 1
        scn = j.get('scenario', j)
        obs = life.run_one(scn)
        for line in life.brief(obs):
            print(line)
        v = Corr()
        judge(scn, obs, v, 'replay')
        bad = [(x.signature, x.what) for x in v.violations]
        for sig, what in bad:
            print('FAILS:', sig, '|', what)
        print('replay verdict:', 'property violated' if bad else 'property holds on this scenario')
        return 1 if bad else 0

    return correspond, search, replay
