"""C08 -- pub/sub delivers every item once, in order, and ends cleanly.

Model: coq/theories/PubSub/Model.v; theorems: Props/C08.v.
Tie: (o) translate/pubsub_funs.py regenerates Gen/PubSubFuns.v (the method bodies as terms of
PubSub/Syntax.v) and PubSub/Tie.v, TieBroker.v prove that interpreting them IS the model,
operation by operation (C08_tie_* in Props/C08.v); (i) atomicity check -- every publish/aclose/end/close coroutine is driven
with send(None) and must finish without suspending; (ii) the real PubSubItem /
PubSub are driven with generated operation sequences and their outputs are
compared with the model's (evaluated inside Coq by vm_compute).
Oracle: an independent Python statement of the property over the observed
outputs.
"""
from __future__ import annotations

import asyncio
import json
from pathlib import Path

from .. import common as C
from ..common import Corr, Violation, cbool, clist, cnat, cz

TRANSLATORS = ['pubsub_funs']     # Gen/PubSubFuns.v: the method bodies of PubSubItem / PubSub, regenerated on every run

TRUSTED_BASE = [
    'correspondence harness harness/props/c08.py (op-sequence generator, canonicalisation of outputs)',
    'translator translate/pubsub_funs.py (Python ast -> the syntax of PubSub/Syntax.v, fail-closed) and the meaning '
    'PubSub/Interp.v + PubSub/TieBroker.v give that syntax (truthiness, `is`, list copies vs live lists, generator '
    'suspension/resumption, try/finally on aclose, defaultdict lookup/pop/popitem)',
    'generator protocol: the interpreter gives try/finally its real meaning for normal exit, return, break, raise, '
    'aclose()/cancellation at each of the four suspension points (C08_tie_leave); NOT modelled: athrow() of another '
    'exception, a concurrent second __anext__, GC finalisation of an abandoned generator',
    'modelled, not verified: asyncio.Queue is FIFO and unbounded put never suspends (the latter is checked per call)',
]
ASSUMPTIONS = [
    'operations of PubSubItem/PubSub are atomic w.r.t. the event loop (checked on every call by driving the coroutine with send(None))',
    'a subscriber is observed through anext(); "blocked" = the anext task is still pending after 3 loop iterations',
]


# ---------------------------------------------------------------- implementation driver

class AtomicityError(Exception):
    pass


def drive(coro):
    """Run a coroutine that must not suspend."""
    try:
        coro.send(None)
    except StopIteration as e:
        return e.value
    coro.close()
    raise AtomicityError('coroutine suspended')


class Gen:
    def __init__(self, agen):
        self.agen = agen
        self.task = None

    async def next(self):
        if self.task is None:
            self.task = asyncio.ensure_future(self.agen.__anext__())
        for _ in range(3):
            if self.task.done():
                break
            await asyncio.sleep(0)
        if not self.task.done():
            return ['blocked']
        t, self.task = self.task, None
        try:
            return ['item', of_payload(t.result())]
        except StopAsyncIteration:
            return ['stop']

    async def leave(self):
        if self.task is not None:
            if not self.task.done():
                self.task.cancel()
            try:
                await self.task
            except (asyncio.CancelledError, StopAsyncIteration):
                pass
            self.task = None
        await self.agen.aclose()


# Items are integers in the op lists and in the Coq model.  Negative codes stand for payloads that a "falsy" or
# "is None" test in the code could mistake for "nothing published": the real objects below are what is published, and
# what comes back is mapped to the code again (by type and value), so the model still sees one opaque item per code.
PAYLOADS = {-1: None, -2: '', -3: False, -4: (), -5: 0.0, -6: 0, -7: [], -8: {}, -9: b''}


def to_payload(n):
    return PAYLOADS[n] if n in PAYLOADS else n


def of_payload(o):
    for n, p in PAYLOADS.items():
        if type(o) is type(p) and o == p:
            return n
    return o


def special_value(rng, used: set):
    free = [n for n in PAYLOADS if n not in used]
    if not free or rng.random() >= 0.2:
        return None
    n = rng.choice(free)
    used.add(n)
    return n


async def run_item(cache: bool, ops: list) -> list:
    from nextline.utils.pubsub.item import PubSubItem
    obj = PubSubItem(cache=cache)
    gens: list[Gen] = []
    outs = []
    for op in ops:
        k = op[0]
        try:
            if k == 'publish':
                drive(obj.publish(to_payload(op[1]))); outs.append(['unit'])
            elif k == 'clear':
                obj.clear(); outs.append(['unit'])
            elif k == 'close':
                drive(obj.aclose()); outs.append(['unit'])
            elif k == 'latest':
                outs.append(['latest', of_payload(obj.latest())])
            elif k == 'sub':
                # an argument equal to the documented default (True) is OMITTED, so that the defaults of the
                # signature are exercised by the correspondence and the oracle as well
                kw = {}
                if not op[1]:
                    kw['last'] = False
                if not op[2]:
                    kw['cache'] = False
                gens.append(Gen(obj.subscribe(**kw))); outs.append(['sid', len(gens) - 1])
            elif k == 'next':
                outs.append(await gens[op[1]].next() if op[1] < len(gens) else ['err'])
            elif k == 'leave':
                if op[1] < len(gens):
                    await gens[op[1]].leave(); outs.append(['unit'])
                else:
                    outs.append(['err'])
        except (RuntimeError, LookupError) as e:
            if isinstance(e, AtomicityError):
                raise
            outs.append(['err'])
    for g in gens:
        await g.leave()
    if obj.n_subscriptions != 0:
        outs.append(['leak', obj.n_subscriptions])
    return outs


async def run_broker(ops: list) -> list:
    from nextline.utils.pubsub.broker import PubSub
    obj = PubSub()
    gens: list[Gen] = []
    outs = []
    for op in ops:
        k = op[0]
        try:
            if k == 'publish':
                drive(obj.publish(op[1], to_payload(op[2]))); outs.append(['unit'])
            elif k == 'end':
                drive(obj.end(op[1])); outs.append(['unit'])
            elif k == 'close':
                drive(obj.close()); outs.append(['unit'])
            elif k == 'latest':
                outs.append(['latest', of_payload(obj.latest(op[1]))])
            elif k == 'sub':
                gens.append(Gen(obj.subscribe(op[1]) if op[2] else obj.subscribe(op[1], last=False))); outs.append(['sid', len(gens) - 1])
            elif k == 'next':
                outs.append(await gens[op[1]].next() if op[1] < len(gens) else ['err'])
            elif k == 'leave':
                if op[1] < len(gens):
                    await gens[op[1]].leave(); outs.append(['unit'])
                else:
                    outs.append(['err'])
        except (RuntimeError, LookupError) as e:
            if isinstance(e, AtomicityError):
                raise
            outs.append(['err'])
    for g in gens:
        await g.leave()
    return outs


async def run_broker_reentrant_cases() -> list:
    """A consumer that reacts to the END of its topic by using the broker again (seed C08-6).  The task is woken by the end
    marker that close() / end() sent; whatever it does then -- subscribe to another key, publish on the same key -- must
    behave as on a broker on which the call has completed: the new subscription receives what is published afterwards and
    terminates at the next end, the publish starts a new lifetime of the key.  -> [(signature, what)]"""
    import asyncio
    from nextline.utils.pubsub.broker import PubSub
    bad = []
    for closer in ('close', 'end'):
        obj = PubSub()
        got_b, state = [], {}

        async def consumer():
            async for _ in obj.subscribe('a', last=False):
                pass
            # woken by the end marker of 'a'
            try:
                await obj.publish('a', 'again')
                state['latest_a'] = obj.latest('a')
            except BaseException as e:      # noqa
                state['publish_a'] = repr(e)
            async for v in obj.subscribe('b', last=False):
                got_b.append(v)
            state['b_ended'] = True

        t = asyncio.ensure_future(consumer())
        await asyncio.sleep(0)
        await obj.publish('a', 1)
        await asyncio.sleep(0)
        await (obj.close() if closer == 'close' else obj.end('a'))
        for _ in range(5):
            await asyncio.sleep(0)
        await obj.publish('b', 7)
        for _ in range(5):
            await asyncio.sleep(0)
        await obj.end('b')
        try:
            await asyncio.wait_for(t, 2)
        except asyncio.TimeoutError:
            pass
        if 'publish_a' in state:
            bad.append(('broker:publish-after-end-refused', f"after {closer}() ended topic 'a', a consumer woken by the end marker published on 'a': {state['publish_a']}"))
        elif state.get('latest_a') != 'again':
            bad.append(('broker:publish-after-end-lost', f"after {closer}() ended topic 'a', a consumer woken by the end marker published 'again' on 'a'; latest('a') = {state.get('latest_a')!r}"))
        if not state.get('b_ended') or got_b != [7]:
            bad.append(('broker:subscriber-after-end-waits-forever' if not state.get('b_ended') else 'broker:delivery-after-end-wrong',
                        f"a consumer woken by the end marker of 'a' ({closer}()) subscribed to 'b'; then 7 was published on 'b' and 'b' was ended: it received {got_b}, "
                        f"terminated={bool(state.get('b_ended'))}"))
    return bad


# ---------------------------------------------------------------- generators

def gen_item_case(rng, maxlen: int):
    cache = rng.random() < 0.5
    n = rng.randint(1, maxlen)
    ops = []
    nsub = 0
    val = 0
    used: set = set()
    for _ in range(n):
        r = rng.random()
        if r < 0.30:
            sp = special_value(rng, used)
            if sp is None:
                val += 1
            ops.append(['publish', val if sp is None else sp])
        elif r < 0.36:
            ops.append(['clear'])
        elif r < 0.41:
            ops.append(['close'])
        elif r < 0.47:
            ops.append(['latest'])
        elif r < 0.62 or nsub == 0:
            ops.append(['sub', rng.random() < 0.7, rng.random() < 0.7]); nsub += 1
        elif r < 0.95:
            ops.append(['next', rng.randrange(nsub)])
        else:
            ops.append(['leave', rng.randrange(nsub)])
    return cache, ops


def backlog_item_cases() -> list:
    """one subscriber falls far behind (it stopped iterating without closing its generator, or is slow) while items keep
    coming: publish / clear / close must complete at once however many items are pending for it, the others get everything"""
    out = []
    for n in (120, 260):
        for cache in (False, True):
            ops = [['sub', True, True], ['sub', False, False], ['next', 0], ['next', 1]]        # both registered, both waiting
            ops += [['publish', k + 1] for k in range(n)]                                   # subscriber 0 never takes them
            ops += [['next', 1]] * 3 + [['latest'], ['close']] + [['next', 1]] * 2 + [['next', 0]] * 3
            out.append((cache, ops))
    return out


def gen_broker_case(rng, maxlen: int):
    n = rng.randint(1, maxlen)
    nkeys = rng.randint(1, 3)
    ops = []
    nsub = 0
    val = 0
    used: set = set()
    for _ in range(n):
        r = rng.random()
        k = rng.randrange(nkeys)
        if r < 0.32:
            sp = special_value(rng, used)
            if sp is None:
                val += 1
            ops.append(['publish', k, val if sp is None else sp])
        elif r < 0.40:
            ops.append(['end', k])
        elif r < 0.43:
            ops.append(['close'])
        elif r < 0.49:
            ops.append(['latest', k])
        elif r < 0.62 or nsub == 0:
            ops.append(['sub', k, rng.random() < 0.7]); nsub += 1
        elif r < 0.95:
            ops.append(['next', rng.randrange(nsub)])
        else:
            ops.append(['leave', rng.randrange(nsub)])
    return ops


def exhaustive_item_cases(maxlen: int):
    """All op sequences up to maxlen over a small alphabet, one fixed pair of subscribers."""
    alpha = [['publish', None], ['clear'], ['close'], ['next', 0], ['next', 1], ['leave', 0]]
    import itertools
    for cache in (False, True):
        for o0 in ((True, True), (True, False), (False, True)):
            for n in range(0, maxlen + 1):
                for seq in itertools.product(range(len(alpha)), repeat=n):
                    ops = [['sub', o0[0], o0[1]], ['sub', True, True]]
                    v = 0
                    for i in seq:
                        a = list(alpha[i])
                        if a[0] == 'publish':
                            v += 1; a[1] = v
                        ops.append(a)
                    yield cache, ops


# ---------------------------------------------------------------- Coq terms

def item_op_term(op) -> str:
    k = op[0]
    if k == 'publish': return f'Publish {cz(op[1])}'
    if k == 'clear': return 'Clear'
    if k == 'close': return 'Close'
    if k == 'latest': return 'Latest'
    if k == 'sub': return f'Sub {cbool(op[1])} {cbool(op[2])}'
    if k == 'next': return f'Next {cnat(op[1])}'
    if k == 'leave': return f'Leave {cnat(op[1])}'
    raise ValueError(op)


def broker_op_term(op) -> str:
    k = op[0]
    if k == 'publish': return f'BPublish {cz(op[1])} {cz(op[2])}'
    if k == 'end': return f'BEnd {cz(op[1])}'
    if k == 'close': return 'BClose'
    if k == 'latest': return f'BLatest {cz(op[1])}'
    if k == 'sub': return f'BSub {cz(op[1])} {cbool(op[2])}'
    if k == 'next': return f'BNext {cnat(op[1])}'
    if k == 'leave': return f'BLeave {cnat(op[1])}'
    raise ValueError(op)


def out_term(o) -> str:
    k = o[0]
    if k == 'unit': return 'OUnit'
    if k == 'err': return 'OErr'
    if k == 'latest': return f'OLatest (Some {cz(o[1])})'
    if k == 'sid': return f'OSid {cnat(o[1])}'
    if k == 'item': return f'OItem {cz(o[1])}'
    if k == 'stop': return 'OStop'
    if k == 'blocked': return 'OBlocked'
    if k == 'leak': return 'OErr'
    raise ValueError(o)


HEADER = 'From NL Require Import PubSub.Model.\nOpen Scope Z_scope.\n'


def item_cases_file(cases) -> str:
    rows = [f'(({cbool(c)}, {clist(map(item_op_term, ops))}), {clist(map(out_term, outs))})' for c, ops, outs in cases]
    return (HEADER + 'Definition cases : list ((bool * list op) * list out) :=\n ' + clist(rows).replace('); (', ');\n (') + '.\n'
            'Eval vm_compute in bad_from (fun co : bool * list op => outs (fst co) (snd co)) 0%nat cases.\n')


def broker_cases_file(cases) -> str:
    rows = [f'({clist(map(broker_op_term, ops))}, {clist(map(out_term, outs))})' for ops, outs in cases]
    return (HEADER + 'Definition cases : list (list bop * list out) :=\n ' + clist(rows).replace('); (', ');\n (') + '.\n'
            'Eval vm_compute in bad_from bouts 0%nat cases.\n')


# ---------------------------------------------------------------- oracle (independent of the model)

def oracle_item(cache: bool, ops, outs):
    """The property, stated directly on what the subscribers observed.
    Returns a list of (signature, what)."""
    bad = []
    log = []            # (position, 'pub', v) | 'clear' | 'close'
    closed_at = None
    subs = []           # per generator: dict(opts, start, left, got, stopped)
    if outs and outs[-1][0] == 'leak':
        bad.append(('queue-leak', f'{outs[-1][1]} subscriber queue(s) still registered after every subscriber has gone'))
        outs = outs[:-1]
    for pos, (op, out) in enumerate(zip(ops, outs)):
        k = op[0]
        if k == 'publish' and closed_at is None:
            log.append((pos, 'pub', op[1]))
        elif k == 'clear' and closed_at is None:
            log.append((pos, 'clear', None))
        elif k == 'close' and closed_at is None:
            closed_at = pos
        elif k == 'sub':
            subs.append(dict(last=op[1], cache=op[2], start=None, left=None, got=[], stopped=None, blocked_after_close=False))
        elif k == 'next' and op[1] < len(subs):
            s = subs[op[1]]
            if s['left'] is not None:
                continue
            if s['start'] is None:
                s['start'] = pos
            if out[0] == 'item':
                s['got'].append(out[1])
            elif out[0] == 'stop':
                if s['stopped'] is None:
                    s['stopped'] = pos
            elif out[0] == 'blocked' and closed_at is not None:
                s['blocked_after_close'] = True
        elif k == 'leave' and op[1] < len(subs):
            if subs[op[1]]['left'] is None:
                subs[op[1]]['left'] = pos
        elif k == 'latest':
            since = []
            for (p, t, v) in log:
                if t == 'clear':
                    since = []
                else:
                    since.append(v)
            want = ['latest', since[-1]] if since else ['err']
            if out != want:
                bad.append(('latest-wrong', f'latest() returned {out}, most recent item of the current lifetime is {want}'))
    for i, s in enumerate(subs):
        if s['start'] is None:
            continue
        st = s['start']
        if closed_at is not None and closed_at < st:
            exp = []
        else:
            since = []
            for (p, t, v) in log:
                if p > st:
                    break
                if t == 'clear':
                    since = []
                else:
                    since.append(v)
            if not s['last']:
                replay = []
            elif cache and s['cache']:
                replay = since
            else:
                replay = since[-1:]
            end = min(x for x in (closed_at, s['left'], 10 ** 9) if x is not None)
            exp = replay + [v for (p, t, v) in log if t == 'pub' and st < p < end]
        got = s['got']
        if got != exp[:len(got)]:
            bad.append(('delivery-not-prefix', f'subscriber {i} received {got}, expected a prefix of {exp}'))
        elif s['stopped'] is not None and s['left'] is None and got != exp:
            bad.append(('stopped-early', f'subscriber {i} terminated after {got}, expected {exp}'))
        elif s['stopped'] is not None and closed_at is None and (s['left'] is None or s['stopped'] < s['left']):
            bad.append(('stopped-without-end', f'subscriber {i} terminated although the topic was not ended'))
        if s['blocked_after_close'] and s['left'] is None:
            bad.append(('blocked-after-end', f'subscriber {i} waits although the topic has ended'))
    return bad


def nontrivial_item(ops, outs) -> bool:
    # a subscriber received at least one item that was published after it started
    return sum(1 for o in outs if o[0] == 'item') >= 1 and any(o[0] == 'publish' for o in ops)


# ---------------------------------------------------------------- main entry points

def _run_cases(ctx, item_cases, broker_cases) -> Corr:
    corr = Corr()
    corr.rule = ('item cases: random op sequences (publish/clear/close/latest/sub/next/leave) on a real PubSubItem, '
                 'cache on/off; broker cases: publish/end/close/latest/sub/next/leave over <=3 keys on a real PubSub; '
                 'corpus first. distinct = distinct (options, op sequence); non-trivial = at least one subscriber '
                 'received an item through anext()')
    loop = asyncio.new_event_loop()
    obs_item, obs_broker = [], []
    seen = set()
    hist: dict[str, int] = {}
    try:
        for cache, ops in item_cases:
            try:
                outs = loop.run_until_complete(run_item(cache, ops))
            except AtomicityError:
                corr.mismatches.append({'kind': 'atomicity', 'cache': cache, 'ops': ops})
                # a publish / close that suspends waits for some subscriber to make room or to move: a subscriber that fell behind or
                # stopped early then holds up the publisher and, through it, every other subscriber
                corr.violations.append(Violation('item:operation-suspends', 'publish()/aclose() of a PubSubItem did not complete at once: it waits on a '
                                                 f'subscriber ({sum(1 for o in ops if o[0] == "publish")} items published, a subscriber that does not take them)',
                                                 {'level': 'item', 'cache': cache, 'ops': ops}))
                continue
            obs_item.append((cache, ops, outs))
            for op in ops:
                hist[op[0]] = hist.get(op[0], 0) + 1
            key = json.dumps([cache, ops])
            if key not in seen:
                seen.add(key)
                if nontrivial_item(ops, outs):
                    corr.distinct_nontrivial += 1
            for sig, what in oracle_item(cache, ops, outs):
                corr.violations.append(Violation(f'item:{sig}', what, {'level': 'item', 'cache': cache, 'ops': ops, 'observed': outs}))
        for ops in broker_cases:
            try:
                outs = loop.run_until_complete(run_broker(ops))
            except AtomicityError:
                corr.mismatches.append({'kind': 'atomicity', 'ops': ops})
                continue
            obs_broker.append((ops, outs))
            key = json.dumps(ops)
            if key not in seen:
                seen.add(key)
                if nontrivial_item(ops, outs):
                    corr.distinct_nontrivial += 1
            for sig, what in oracle_broker(ops, outs):
                corr.violations.append(Violation(f'broker:{sig}', what, {'level': 'broker', 'ops': ops, 'observed': outs}))
        for sig, what in loop.run_until_complete(run_broker_reentrant_cases()):
            corr.violations.append(Violation(sig, what, {'level': 'broker-reentrant'}))
    finally:
        loop.close()
    corr.evaluations = len(obs_item) + len(obs_broker)
    # model side, inside Coq
    files = {}
    CH = 400
    for i in range(0, len(obs_item), CH):
        files[f'item_{i // CH}'] = item_cases_file(obs_item[i:i + CH])
    for i in range(0, len(obs_broker), CH):
        files[f'broker_{i // CH}'] = broker_cases_file(obs_broker[i:i + CH])
    res = ctx.coq_eval_many(files)
    for name, (ok, out) in res.items():
        kind, n = name.split('_'); base = int(n) * CH
        bad = C.parse_nat_list(out) if ok else None
        if bad is None:
            corr.mismatches.append({'kind': 'coq-eval-failed', 'file': name, 'log': out[-600:]})
            continue
        for b in bad:
            if kind == 'item':
                c, ops, outs = obs_item[base + b]
                corr.mismatches.append({'kind': 'item', 'cache': c, 'ops': ops, 'impl': outs})
            else:
                ops, outs = obs_broker[base + b]
                corr.mismatches.append({'kind': 'broker', 'ops': ops, 'impl': outs})
    if obs_item:
        c, ops, outs = obs_item[len(obs_item) // 2]
        corr.samples.append({'item_cache': c, 'ops': ops, 'impl_outputs': outs})
    if obs_broker:
        ops, outs = obs_broker[len(obs_broker) // 2]
        corr.samples.append({'broker_ops': ops, 'impl_outputs': outs})
    corr.extra['op_histogram_item'] = hist
    corr.extra['item_cases'] = len(obs_item)
    corr.extra['broker_cases'] = len(obs_broker)
    return corr


def oracle_broker(ops, outs):
    """Project the broker history onto topic lifetimes and apply the item oracle."""
    bad = []
    # lifetime id per key; a generator is bound to the lifetime current at subscribe()
    cur: dict[int, int] = {}
    nlife = 0
    per: dict[int, list] = {}       # lifetime -> (ops, outs) projected
    gens = []                        # global gen -> (lifetime, local index)
    nloc: dict[int, int] = {}

    def life(k):
        nonlocal nlife
        if k not in cur:
            cur[k] = nlife; per[nlife] = ([], []); nloc[nlife] = 0; nlife += 1
        return cur[k]

    for op, out in zip(ops, outs):
        k = op[0]
        if k == 'publish':
            l = life(op[1]); per[l][0].append(['publish', op[2]]); per[l][1].append(out)
        elif k == 'latest':
            l = life(op[1]); per[l][0].append(['latest']); per[l][1].append(out)
        elif k == 'end':
            if op[1] in cur:
                l = cur.pop(op[1]); per[l][0].append(['close']); per[l][1].append(out)
        elif k == 'close':
            for key in list(cur):
                l = cur.pop(key); per[l][0].append(['close']); per[l][1].append(['unit'])
        elif k == 'sub':
            l = life(op[1]); gens.append((l, nloc[l])); nloc[l] += 1
            per[l][0].append(['sub', op[2], True]); per[l][1].append(['sid', gens[-1][1]])
        elif k in ('next', 'leave') and op[1] < len(gens):
            l, s = gens[op[1]]; per[l][0].append([k, s]); per[l][1].append(out)
    for l, (o, u) in per.items():
        bad += oracle_item(False, o, u)
    return bad


def correspond(ctx) -> Corr:
    rng = ctx.rng
    corpus_item, corpus_broker = load_corpus()
    if ctx.tier == 'quick':
        n_item, n_broker, maxlen, exh = 1200, 600, 25, 3
    else:
        n_item, n_broker, maxlen, exh = 30000, 12000, 40, 5
    item_cases = list(corpus_item) + backlog_item_cases() + [gen_item_case(rng, maxlen) for _ in range(n_item)]
    ex = list(exhaustive_item_cases(exh))
    item_cases += ex
    broker_cases = list(corpus_broker) + [gen_broker_case(rng, maxlen) for _ in range(n_broker)]
    corr = _run_cases(ctx, item_cases, broker_cases)
    corr.extra['exhaustive_item_cases'] = len(ex)
    corr.extra['exhaustive_bound'] = f'all sequences of length <= {exh} over 6 operations x 2 cache settings x 3 option pairs'
    return corr


def search(ctx, broken) -> list:
    """Widened search for a concrete input on which the property fails."""
    rng = ctx.rng
    item_cases = [gen_item_case(rng, 40) for _ in range(20000)] + list(exhaustive_item_cases(5))
    broker_cases = [gen_broker_case(rng, 40) for _ in range(8000)]
    v = []
    loop = asyncio.new_event_loop()
    try:
        for cache, ops in item_cases:
            try:
                outs = loop.run_until_complete(run_item(cache, ops))
            except AtomicityError:
                continue
            for sig, what in oracle_item(cache, ops, outs):
                v.append(Violation(f'item:{sig}', what, {'level': 'item', 'cache': cache, 'ops': shrink_item(loop, cache, ops, sig), 'original_ops': ops}))
            if len(v) > 3:
                break
        for ops in broker_cases:
            if len(v) > 3:
                break
            try:
                outs = loop.run_until_complete(run_broker(ops))
            except AtomicityError:
                continue
            for sig, what in oracle_broker(ops, outs):
                v.append(Violation(f'broker:{sig}', what, {'level': 'broker', 'ops': ops, 'observed': outs}))
    finally:
        loop.close()
    return v


def shrink_item(loop, cache, ops, sig):
    """Delta-debug: drop operations while the same oracle signature persists."""
    cur = list(ops)
    changed = True
    while changed:
        changed = False
        for i in range(len(cur)):
            cand = cur[:i] + cur[i + 1:]
            try:
                outs = loop.run_until_complete(run_item(cache, cand))
            except Exception:
                continue
            if any(s == sig for s, _ in oracle_item(cache, cand, outs)):
                cur = cand
                changed = True
                break
    return cur


def load_corpus():
    d = C.CORPUS / 'C08'
    items, brokers = [], []
    if d.exists():
        for p in sorted(d.glob('*.json')):
            j = json.loads(p.read_text())
            if j.get('level') == 'broker':
                brokers.append(j['ops'])
            else:
                items.append((j['cache'], j['ops']))
    return items, brokers


def replay(ctx, path: Path) -> int:
    j = json.loads(path.read_text())
    loop = asyncio.new_event_loop()
    if j.get('level') == 'broker':
        outs = loop.run_until_complete(run_broker(j['ops']))
        bad = oracle_broker(j['ops'], outs)
    else:
        outs = loop.run_until_complete(run_item(j['cache'], j['ops']))
        bad = oracle_item(j['cache'], j['ops'], outs)
    print('observed:', outs)
    for sig, what in bad:
        print('FAILS:', sig, what)
    print('replay verdict:', 'property violated' if bad else 'property holds on this input')
    return 1 if bad else 0
