"""C10 -- events are relayed to the main process completely, in order, within the run.

Model: coq/theories/Relay/Model.v; theorems: Props/C10.v.
Tie, checked on every run: REAL processes through the public API (harness/relay_runner.py:
Nextline(statement), a Recorder user plugin logging on_start_run / every event hook /
on_end_run, optionally slow hooks, optionally kill()/terminate() requested at the k-th delivered
event, optionally a task hogging the event loop).  The stream the script emits is obtained
independently by running the same script IN-PROCESS with nextline.spawned.main
(harness/child.py); the plugin's log is compared with it by the oracle, and with the model
inside Coq (cases.v: the canonical schedule reproducing the observed log must be a legal run
of the model ending as observed).
"""
from __future__ import annotations

import json
import os
import subprocess
from concurrent.futures import ThreadPoolExecutor
from pathlib import Path

from .. import child
from .. import common as C
from ..common import Corr, Violation, clist, cnat, cz

# Gen/RelaySkel.v (statement trees of RunSession.run, relay_events, _monitor, Timer, wait_until_queue_empty, spawned.main) and
# Gen/CallbackSkeleton.v (the coarser skeleton shared with C12) are regenerated from /repo on every run; Relay/Tie.v interprets
# the trees under the labels of Relay/Model.v and proves the simulation (C10_tie_* in Props/C10.v).
TRANSLATORS = ['relay_skeleton', 'callback_skeleton']

TRUSTED_BASE = [
    'translate/relay_skeleton.py (ast -> terms of Relay/Syntax.v; fail closed: an unrecognised statement that awaits, transfers control or '
    'mentions a name the relay depends on aborts the translation) and translate/callback_skeleton.py; the meaning given to a label in '
    'Relay/Tie.v (which await a label completes; the drain-loop pass is atomic; on_start_run call+return are one label); the five '
    'child/pipe labels (Emit, Flush, ChildExit, Kill, KillMidWrite) are environment semantics shared with the model; statements the '
    'translator drops are pinned by text (DROPPED_* in relay_skeleton.py), everything else is translated or refused',
    'exceptions/cancellation: Relay/TieExn.v gives try/finally its real meaning for the MAIN task (every await, assert and the yield may '
    'raise or be cancelled; C10_tie_finally_semantics); NOT covered: raising inside the monitor task (a raising plugin hook kills '
    '_monitor: seen only as "await task raises"), GeneratorExit/aclose of the context managers',
    'harness/relay_runner.py (Recorder plugin, scenario runner) and harness/child.py (in-process reference run of the same script)',
    'modelled, not verified: multiprocessing.Queue (feeder threads, pipe FIFO, write lock), asyncio.to_thread, the OS scheduler, '
    'ProcessPoolExecutor; the correspondence is trace inclusion: every observed log must be a run of the model',
]
ASSUMPTIONS = [
    'FIFO: multiprocessing.Queue delivers the objects of one producer in the order of its put() calls; the sentinel put by the '
    'main process after the child has exited is behind every event of the child',
    'flush-before-exit: a child that exits normally has written every event to the pipe (spawned.main: wait_until_queue_empty; '
    'multiprocessing joins the feeder thread at interpreter exit)',
    'boot (only for C10_bracketed): the child cannot emit an event before `on_start_run` is called: the process is started in the '
    'same event-loop step that wakes the caller up, the ready queue of the loop is FIFO, and a spawned interpreter needs >= tens of ms '
    'to boot and import nextline; checked by runs whose first traced line executes immediately while a task hogs the loop',
    'the 1-second drain timer is modelled as a nondeterministic Timeout label (over-approximation)',
    'expected stream of a deterministic single-threaded script = in-process run of the same script (fields *_at and frame_object_id dropped); '
    'for a script that kills itself the reference is the script with the kill statement replaced by `pass` (prefix relation only)',
    'liveness is not part of C10: a run that never ends after a kill (child died inside a pipe write; theorem C10_kill_mid_write_never_ends) '
    'is reported in the evidence (hangs_after_kill) and compared with the model, not flagged as a C10 violation',
]

SCN_TIMEOUT = 40


# ---------------------------------------------------------------- scripts

def src_calls(n: int, tail: str = "print('bye')\n") -> str:
    return f"def f(i):\n    return i\nfor i in range({n}):\n    f(i)\n" + tail


def src_prints(n: int) -> str:
    return f"for i in range({n}):\n    print(i)\n"


def src_mixed(n: int) -> str:
    return ("import time\n"
            "def g(i):\n    if i % 3 == 0:\n        print('g', i)\n    return i * 2\n"
            "x = 0\ntime.sleep(0.05)\n"
            f"for i in range({n}):\n    x += g(i)\nprint(x)\n")


def src_selfkill(n: int, how: str) -> tuple[str, str]:
    """(script, reference script): the burst, then the process kills itself / hard-exits"""
    kill = {'sigkill': 'os.kill(os.getpid(), signal.SIGKILL)', 'sigterm': 'os.kill(os.getpid(), signal.SIGTERM)',
            'hardexit': 'os._exit(0)'}[how]
    head = f"import os, signal\ndef f(i):\n    return i\nfor i in range({n}):\n    f(i)\n"
    tail = "print('after')\n"
    return head + kill + "\n" + tail, head + "pass\n" + tail


# ---------------------------------------------------------------- running

def _run_chunk(scns: list[dict], repo: str) -> list[dict]:
    out: list[dict] = []
    todo = list(scns)
    while todo:
        env = dict(os.environ)
        env.update(PYTHONPATH=f'{repo}:{C.VERIF}', PYTHONHASHSEED='0', PYTHONDONTWRITEBYTECODE='1')
        budget = sum(float(s.get('timeout', SCN_TIMEOUT)) + 5 for s in todo) + 20
        try:
            p = subprocess.run(['timeout', '-k', '5', str(int(budget)), C.PY, '-u', '-m', 'harness.relay_runner'],
                               input=json.dumps(todo), text=True, stdout=subprocess.PIPE, stderr=subprocess.DEVNULL,
                               env=env, cwd=str(C.VERIF), timeout=budget + 15)
            lines = p.stdout.splitlines()
        except subprocess.TimeoutExpired as e:
            so = e.stdout
            lines = (so.decode(errors='replace') if isinstance(so, bytes) else (so or '')).splitlines()
        got = []
        for l in lines:
            i = l.find('@@R ')          # the traced script's own stdout may precede it on the line
            if i >= 0:
                try:
                    got.append(json.loads(l[i + 4:]))
                except Exception:
                    pass
        out += got
        if len(got) >= len(todo):
            break
        if not got:
            out.append({'id': todo[0].get('id'), 'runner_dead': True, 'log': []})
            todo = todo[1:]
        else:
            todo = todo[len(got):]
    return out


def run_many(scns: list[dict], par: int = 14, chunk: int = 2) -> list[dict]:
    repo = str(C.REPO)
    for i, s in enumerate(scns):
        s['id'] = i
        s.setdefault('timeout', SCN_TIMEOUT)
    nch = max(1, (len(scns) + chunk - 1) // chunk)
    chunks = [scns[i::nch] for i in range(nch)]
    with ThreadPoolExecutor(par) as ex:
        res = list(ex.map(lambda c: _run_chunk(c, repo), chunks))
    by_id = {}
    for r in (x for c in res for x in c):
        by_id.setdefault(r.get('id'), r)
    return [by_id.get(s['id'], {'id': s['id'], 'runner_dead': True, 'log': []}) for s in scns]


def reference_streams(srcs: list[str]) -> dict[str, list[dict]]:
    uniq = sorted(set(srcs))
    jobs = [{'src': s, 'policy': {'kind': 'all', 'cmd': 'continue'}, 'trace_threads': False, 'trace_modules': False, 'timeout': 60}
            for s in uniq]
    res = child.run_jobs(jobs, par=12, chunk=3)
    out = {}
    for s, r in zip(uniq, res):
        evs = [{k: v for k, v in e.items() if k != 'frame_object_id'} for e in r.get('events', [])]
        out[s] = None if r.get('error') else evs
    return out


# ---------------------------------------------------------------- scenarios

def scn(src, ref=None, **kw):
    d = {'src': src, 'ref_src': ref or src, 'trace_modules': False, 'trace_threads': False}
    d.update(kw)
    return d


def gen_scenarios(rng, tier: str) -> list[dict]:
    out = []
    if tier == 'quick':
        out.append(scn(src_calls(1000), family='burst'))                                                  # ~5000 events at exit
        out.append(scn(src_prints(1500), family='burst'))
        out.append(scn(src_calls(400), delay={'every': 40, 'seconds': 0.01}, family='burst-slow'))
        out.append(scn(src_mixed(60), delay={'every': 1, 'seconds': 0.002}, family='slow-every-hook'))
        out.append(scn("print('a')\nprint('b')\nprint('c')\n", delay={'every': 5, 'seconds': 1.25}, family='drain-timeout'))
        out.append(scn(src_calls(3), hog=0.03, family='hog-boot'))      # ~40 events; every loop iteration costs 30 ms
        out.append(scn("x = 1\n", hog=0.05, start_delay=0.3, family='hog-boot'))
        out.append(scn(src_mixed(30), start_delay=0.4, family='slow-start-hook'))
        out.append(scn("x = 1\n", delay={'every': 1, 'seconds': 0.3}, family='slow-last-hook'))       # the last hook outlives the process
        # the handler of the LAST relayed event is held while the child exits, the queue drains and the sentinel is read
        out.append(scn("x = 1\n", delay={'types': ['OnEndTrace'], 'gate': 2.0}, family='held-last-hook'))
        out.append(scn(src_calls(20), delay={'types': ['OnEndTrace'], 'seconds': 1.5}, family='held-last-hook'))
        out.append(scn(src_prints(3), delay={'types': ['OnWriteStdout', 'OnEndTrace'], 'gate': 0.4}, family='held-last-hook'))
        out.append(scn(src_calls(2), delay={'every': 1, 'seconds': 0.1}, kill={'how': 'kill', 'at_event': 3}, family='kill-slow'))
        out.append(scn(src_calls(300), kill={'how': 'kill', 'at_event': 100}, family='kill'))
        out.append(scn(src_calls(300), kill={'how': 'terminate', 'at_event': 7}, family='kill'))
        s, r = src_selfkill(100, 'sigkill')
        out.append(scn(s, r, family='selfkill', selfkill=True))
        s, r = src_selfkill(40, 'hardexit')
        out.append(scn(s, r, family='selfkill', selfkill=True))
        for o in out:
            if o['family'] in ('kill', 'selfkill', 'kill-slow'):
                o['timeout'] = 15
    else:
        for _ in range(40):
            n = rng.choice([0, 1, 5, 30, 100, 300, 600])
            mk = rng.choice([src_calls, src_prints, src_mixed])
            out.append(scn(mk(n), family='burst'))
        for n in (1000, 2000):
            out.append(scn(src_calls(n), family='burst'))
            out.append(scn(src_prints(n), family='burst'))
        for _ in range(60):
            n = rng.choice([5, 30, 100, 300])
            mk = rng.choice([src_calls, src_prints, src_mixed])
            out.append(scn(mk(n), delay={'every': rng.choice([1, 3, 10, 50]), 'seconds': rng.choice([0.001, 0.005, 0.02])},
                           family='burst-slow'))
        for _ in range(10):
            k = rng.choice([1, 2, 4])
            out.append(scn(''.join(f"print({i})\n" for i in range(k)), delay={'every': rng.choice([3, 5, 6]), 'seconds': rng.choice([1.1, 1.3])},
                           family='drain-timeout'))
        for _ in range(40):
            out.append(scn(rng.choice([src_calls(rng.choice([0, 1, 3])), "x = 1\n", src_prints(3)]),
                           hog=rng.choice([0.01, 0.03, 0.08]), start_delay=rng.choice([None, 0.2]), family='hog-boot'))
        for _ in range(12):
            out.append(scn(rng.choice(["x = 1\n", "print(1)\n", src_calls(1)]), delay={'every': 1, 'seconds': rng.choice([0.1, 0.3, 0.6])},
                           family='slow-last-hook'))
        for _ in range(16):
            types = rng.choice([['OnEndTrace'], ['OnEndTrace', 'OnEndTraceCall'], ['OnWriteStdout', 'OnEndTrace'], ['OnEndPrompt', 'OnEndTrace']])
            d = {'types': types}
            if rng.random() < 0.5:
                d['gate'] = rng.choice([0.3, 1.0, 2.0])
            else:
                d['seconds'] = rng.choice([0.2, 0.8, 1.5])
            if len(types) > 1 and 'seconds' in d:
                d['seconds'] = 0.2
            out.append(scn(rng.choice(["x = 1\n", src_prints(2), src_calls(3)]), delay=d, family='held-last-hook'))
        for _ in range(12):
            out.append(scn(src_calls(2), delay={'every': 1, 'seconds': rng.choice([0.05, 0.1])},
                           kill={'how': rng.choice(['kill', 'terminate']), 'at_event': rng.randint(1, 20)}, family='kill-slow', timeout=15))
        for _ in range(30):
            out.append(scn(src_mixed(rng.choice([5, 30])), start_delay=rng.choice([0.1, 0.4]), family='slow-start-hook'))
        for _ in range(130):
            n = rng.choice([50, 200, 400])
            out.append(scn(rng.choice([src_calls, src_prints])(n), kill={'how': rng.choice(['kill', 'terminate']),
                                                                         'at_event': rng.randint(1, 3 * n)},
                           delay=rng.choice([None, None, {'every': 10, 'seconds': 0.002}]), family='kill', timeout=15))
        for _ in range(80):
            s, r = src_selfkill(rng.choice([0, 3, 20, 100, 300]), rng.choice(['sigkill', 'sigterm', 'hardexit']))
            out.append(scn(s, r, family='selfkill', selfkill=True, timeout=15))
    return out


# ---------------------------------------------------------------- oracle (the property, directly)

def is_kill(s: dict) -> bool:
    return bool(s.get('kill')) or bool(s.get('selfkill'))


def oracle(s: dict, o: dict, ref: list[dict] | None) -> list[tuple[str, str]]:
    bad = []
    if o.get('runner_dead'):
        return [('runner-died', 'no observation')]
    if o.get('runner_error'):
        return [('run-raised', f'the run raised: {o["runner_error"][:300]}')]
    log = o.get('log', [])
    kinds = [e[0] for e in log]
    evs = [e[2] for e in log if e[0] == 'ev']
    # ---- bracket
    if 'ev' in kinds or 'ev_done' in kinds:
        first_ev = min(i for i, k in enumerate(kinds) if k in ('ev', 'ev_done'))
        if 'start_run' not in kinds or kinds.index('start_run') > first_ev:
            bad.append(('event-before-start-run', f'event hook {log[first_ev][1:2]} called before on_start_run was called'))
    if 'end_run' in kinds:
        after = [e for e in log[kinds.index('end_run') + 1:] if e[0] in ('ev', 'ev_done')]
        if after:
            bad.append(('event-after-end-run', f'{len(after)} event hook call(s)/completion(s) after on_end_run was called, first: {after[0][:2]}'))
        if kinds.count('end_run') > 1 or kinds.count('start_run') > 1:
            bad.append(('bracket-repeated', f'start_run x{kinds.count("start_run")}, end_run x{kinds.count("end_run")}'))
    # ---- delivery = the handler has COMPLETED: every handler that began must have ended before on_end_run, one at a time
    open_ev = None
    n_begun = 0
    for e in log:
        if e[0] == 'ev':
            n_begun += 1
            if open_ev is not None:
                bad.append(('handlers-overlap', f'the handler of event #{n_begun} ({e[1]}) began while the handler of event #{open_ev} was still running'))
                break
            open_ev = n_begun
        elif e[0] == 'ev_done':
            if open_ev is not None and e[1] == open_ev:
                open_ev = None
        elif e[0] == 'end_run' and open_ev is not None:
            bad.append(('end-run-before-delivery-completed', f'on_end_run was called while the handler of event #{open_ev} '
                                                             f'({[x for x in log if x[0] == "ev"][open_ev - 1][2].get("type")}) had not completed'))
            break
    # ---- completeness / order
    if ref is None:
        return bad + [('no-reference', 'the in-process reference run of the script failed')]
    if not is_kill(s):
        if o.get('hang'):
            bad.append(('normal-exit:run-never-ends', f'no kill, yet on_end_run was not called within {s.get("timeout")} s; delivered {len(evs)}/{len(ref)}'))
        elif evs != ref:
            if evs == ref[:len(evs)]:
                bad.append(('events-lost', f'delivered {len(evs)} of {len(ref)} emitted events (a strict prefix) when on_end_run was called; first missing: {ref[len(evs)]}'))
            elif sorted(map(json.dumps, evs)) == sorted(map(json.dumps, ref)):
                i = next(i for i, (a, b) in enumerate(zip(evs, ref)) if a != b)
                bad.append(('events-reordered', f'same events, different order from position {i}: got {evs[i]}, emitted {ref[i]}'))
            else:
                i = next((i for i, (a, b) in enumerate(zip(evs, ref)) if a != b), min(len(evs), len(ref)))
                bad.append(('events-differ', f'delivered {len(evs)}, emitted {len(ref)}; first difference at {i}: got {evs[i] if i < len(evs) else None}, '
                                             f'emitted {ref[i] if i < len(ref) else None}'))
        if 'end_run' not in kinds and not o.get('hang'):
            bad.append(('no-end-run', 'the run finished but on_end_run was never called'))
    else:
        if evs != ref[:len(evs)]:
            i = next((i for i, (a, b) in enumerate(zip(evs, ref)) if a != b), min(len(evs), len(ref)))
            bad.append(('kill:not-a-prefix', f'delivered events are not a prefix of the emitted stream; first difference at {i}: got '
                                             f'{evs[i] if i < len(evs) else None}, emitted {ref[i] if i < len(ref) else None}'))
    return bad


# ---------------------------------------------------------------- Coq terms

def encode_case(s: dict, o: dict, ref: list[dict]) -> tuple[str, int]:
    codes: dict[str, int] = {}

    def code(e) -> int:
        k = json.dumps(e, sort_keys=True)
        if k not in codes:
            codes[k] = len(codes)
        return codes[k]

    script = [code(e) for e in ref]
    obs = []
    seen_ev = []
    for e in o.get('log', []):
        if e[0] == 'start_run':
            obs.append('OStartRun')
        elif e[0] == 'end_run':
            obs.append('OEndRun')
        elif e[0] == 'ev':
            c = code(e[2])
            seen_ev.append(c)
            obs.append(f'ODeliver {cz(c)}')
        elif e[0] == 'ev_done':
            i = e[1] - 1
            obs.append(f'ODone {cz(seen_ev[i] if 0 <= i < len(seen_ev) else -1)}')
    if o.get('hang'):
        ending = 'EndWedged'
    elif is_kill(s):
        ending = 'EndKilled'
    else:
        ending = 'EndNormal'
    term = f'(mkCase {clist(map(cz, script))} {clist(obs)} {ending} {cnat(1 if is_kill(s) else 0)})'
    return term, len(script) + len(obs)


def cases_file(rows: list[str]) -> str:
    return ('From NL Require Import Relay.Model.\nOpen Scope Z_scope.\n'
            'Definition cases : list rcase :=\n ' + clist(rows).replace('); (mkCase', ');\n (mkCase') + '.\n'
            'Eval vm_compute in bad_from 0%nat cases.\n')


# ---------------------------------------------------------------- entry points

def _evaluate(ctx, scns: list[dict], corr: Corr) -> None:
    refs = reference_streams([s['ref_src'] for s in scns])
    obs = run_many(scns)
    rows: list[tuple[str, int, int]] = []
    hist: dict[str, int] = {}
    hangs_after_kill = 0
    max_burst = 0
    seen = set()
    for i, (s, o) in enumerate(zip(scns, obs)):
        corr.evaluations += 1
        ref = refs.get(s['ref_src'])
        n_ev = sum(1 for e in o.get('log', []) if e[0] == 'ev')
        for sg, what in oracle(s, o, ref):
            corr.violations.append(Violation(sg, what, {'scenario': {k: v for k, v in s.items()}, 'delivered': n_ev,
                                                        'emitted_reference': len(ref or []),
                                                        'log_head': o.get('log', [])[:12], 'log_tail': o.get('log', [])[-6:]}))
        if o.get('runner_dead') or o.get('runner_error') or ref is None:
            corr.mismatches.append({'kind': 'no-observation', 'scenario': s, 'error': o.get('runner_error')})
            continue
        fam = s.get('family', '?')
        hist[fam] = hist.get(fam, 0) + 1
        if o.get('hang') and is_kill(s):
            hangs_after_kill += 1
        max_burst = max(max_burst, n_ev)
        key = json.dumps([s['src'], s.get('delay'), s.get('kill'), s.get('hog'), s.get('start_delay')], sort_keys=True)
        if key not in seen:
            seen.add(key)
            if n_ev >= 3:
                corr.distinct_nontrivial += 1
        term, size = encode_case(s, o, ref)
        rows.append((term, size, i))
    # chunk by size
    files, index, cur, cur_size = {}, {}, [], 0
    for term, size, i in rows:
        if cur and (cur_size + size > 16000 or len(cur) >= 200):
            name = f'cases_{len(files)}'
            files[name] = cases_file([t for t, _ in cur]); index[name] = [j for _, j in cur]
            cur, cur_size = [], 0
        cur.append((term, i)); cur_size += size
    if cur:
        name = f'cases_{len(files)}'
        files[name] = cases_file([t for t, _ in cur]); index[name] = [j for _, j in cur]
    res = ctx.coq_eval_many(files, timeout=900)
    for name, (ok, out) in res.items():
        bad = C.parse_nat_list(out) if ok else None
        if bad is None:
            corr.mismatches.append({'kind': 'coq-eval-failed', 'file': name, 'log': out[-800:]})
            continue
        for b in bad:
            i = index[name][b]
            s, o = scns[i], obs[i]
            corr.mismatches.append({'kind': 'model-vs-impl', 'scenario': s, 'hang': o.get('hang'), 'finished': o.get('finished'),
                                    'log_head': o.get('log', [])[:10], 'log_tail': o.get('log', [])[-6:]})
    corr.extra['families'] = {**corr.extra.get('families', {}), **hist}
    corr.extra['hangs_after_kill'] = corr.extra.get('hangs_after_kill', 0) + hangs_after_kill
    corr.extra['largest_delivered_stream'] = max(max_burst, corr.extra.get('largest_delivered_stream', 0))
    if hangs_after_kill:
        ctx.notes.append(f'{hangs_after_kill} killed run(s) never ended (on_end_run not called): the child died inside a pipe write and the '
                         f'queue write lock was lost -- outside C10 (liveness), see C10_kill_mid_write_never_ends')
    for s, o in list(zip(scns, obs))[:: max(1, len(scns) // 4)][:4]:
        corr.samples.append({'family': s.get('family'), 'delay': s.get('delay'), 'kill': s.get('kill'), 'hog': s.get('hog'),
                             'delivered': sum(1 for e in o.get('log', []) if e[0] == 'ev'),
                             'emitted_reference': len(refs.get(s['ref_src']) or []), 'finished': o.get('finished'), 'hang': o.get('hang'),
                             'markers': [e[0] for e in o.get('log', []) if e[0] not in ('ev', 'ev_done')]})


def load_corpus() -> list[dict]:
    d = C.CORPUS / 'C10'
    out = []
    if d.exists():
        for p in sorted(d.glob('*.json')):
            j = json.loads(p.read_text())
            if 'scenario' in j:
                out.append(j['scenario'])
    return out


def correspond(ctx) -> Corr:
    corr = Corr()
    corr.rule = ('each case = one REAL run of Nextline(statement).run_continue_and_wait() with a spawned child and a Recorder plugin: '
                 'burst scripts (up to thousands of events right before exit), slow hooks, drain timeout (hooks slower than 1 s), a task hogging '
                 'the loop, slow on_start_run, kill()/terminate() requested at the k-th delivered event, scripts that SIGKILL/SIGTERM/os._exit '
                 'themselves; the plugin log is compared with the in-process reference stream (oracle) and with the model (Coq); '
                 'distinct = distinct (script, delay, kill, hog, start delay); non-trivial = at least 3 events delivered')
    scns = load_corpus() + gen_scenarios(ctx.rng, ctx.tier)
    _evaluate(ctx, scns, corr)
    corr.extra['scenarios'] = len(scns)
    # component level: relay_events driven in the state "normal exit with events still in the pipe" x slow plugin
    # (Relay/Model.v: ChildExit with a non-empty pipe, then Timeout) -- harness/props/c10_component.py
    from . import c10_component
    vs, st = c10_component.run(ctx)
    corr.violations += vs
    corr.evaluations += st['component_scenarios']
    corr.extra.update(st)
    return corr


def search(ctx, broken) -> list:
    corr = Corr()
    from . import c10_component
    corr.violations += c10_component.run(ctx, 'thorough')[0]
    rng = ctx.rng
    scns = gen_scenarios(rng, 'quick')
    for _ in range(16):
        n = rng.choice([5, 50, 200])
        scns.append(scn(rng.choice([src_calls, src_prints, src_mixed])(n),
                        delay=rng.choice([None, {'every': 1, 'seconds': 0.002}, {'every': 7, 'seconds': 0.02}]), family='burst-slow'))
    _evaluate(ctx, scns, corr)
    return corr.violations


def replay(ctx, path: Path) -> int:
    j = json.loads(Path(path).read_text())
    if 'component_scenario' in j:
        from . import c10_component
        r = c10_component.run_one(j['component_scenario'])
        print('scenario:', j['component_scenario'])
        print('log:', r.get('log', r))
        bad = c10_component.oracle(j['component_scenario'], r)
        for sg, what in bad:
            print('FAILS:', sg, what)
        print('replay verdict:', 'property violated' if bad else 'property holds on this input')
        return 1 if bad else 0
    s = dict(j['scenario'])
    refs = reference_streams([s['ref_src']])
    o = run_many([s])[0]
    evs = [e for e in o.get('log', []) if e[0] == 'ev']
    print('delivered', len(evs), 'reference', len(refs.get(s['ref_src']) or []), 'finished', o.get('finished'), 'hang', o.get('hang'))
    print('markers:', [e for e in o.get('log', []) if e[0] not in ('ev', 'ev_done')])
    bad = oracle(s, o, refs.get(s['ref_src']))
    for sg, what in bad:
        print('FAILS:', sg, what)
    print('replay verdict:', 'property violated' if bad else 'property holds on this input')
    return 1 if bad else 0
