"""C02 -- lifecycle family; see harness/props/_life.py (co-simulation of coq/theories/Life/Model.v
against the real Nextline + scenario families + the C02 oracle of harness/life_oracles.py).

Second tie (the `C02_tie_*` theorems of Props/C02.v): the record-keeping code is translated statement by statement
at every check (translate/run_record.py -> Gen/RunRecord.v; control flow: translate/callback_skeleton.py ->
Gen/CallbackSkeleton.v; the asyncio task behind the process handle: translate/run_skeleton.py -> Gen/RunSkeleton.v) and
Life/RecordInterp.v / RecordRun.v / RecordTie.v prove, about THOSE definitions, for every outcome of the child, every
exit code and every raising await: `_run_finished.set()` on every path out of `_finish`; run_info = initialized,
running, finished once under one run number; the finished record = the outcome = what result()/format_exception()
report; awaiting the process handle never raises; simulation with the publications of Life/Model.v."""
from . import _life

PROP_FILES = ['Props/C02.v']
TRANSLATORS = ['callback_skeleton', 'run_skeleton', 'run_record']
TRUSTED_BASE = _life.TRUSTED_BASE + [
    'translate/run_record.py (ast -> terms of Life/RecordSyntax.v; fail closed: any statement / expression of the translated '
    'functions that is not recognised aborts the translation; ignored positions follow the shared rule of harness/HARDEN_TASK.md: '
    'only docstrings, bare annotations and logger calls with call-free arguments; asserts and time stamps are translated; '
    'pins: the six untracked statements of RunSession.run (UNTRACKED_SESSION), the body of is_timezone_aware), '
    'translate/callback_skeleton.py, translate/run_skeleton.py; the semantics given to the terms in Life/RecordInterp.v '
    '(Python attribute / dict / dataclass / `or` / `and` / walrus semantics as far as the code uses them; attribute reads of '
    'live objects (Process.exitcode, .pid), strftime, datetime.now, json.dumps, traceback.format_exception do not raise; a '
    'module-level dict is consulted with one key per await) and in Life/RecordRun.v (the data statements of an atomic '
    'segment run at its control point; the continuation of an await runs iff the await returned; a hook call reaches the '
    'built-in implementations unless the caller is cancelled before they had a step (world field rw_ran: ONE flag for all hook '
    'awaits of a run that raise); pluggy calls implementations by argument name, last registered first, firstresult = first '
    'non-None); cancellation = the oracle of Life/FailStart.v makes the await raise: try/finally and `async with` have their '
    'real meaning there, a cancellation BETWEEN awaits does not exist in asyncio; not modelled: a second cancellation '
    'inside a finally block beyond what the oracle already allows (every await of a finally block may raise too)',
]
ASSUMPTIONS = _life.ASSUMPTIONS + [
    'RecordRun: the child is one of {spawned.main returned RunResult(ret, exc) built by the translated class, spawned.main '
    'raised (exception as data), nothing came back}; exit code and membership in _exitcode_to_name are arbitrary and '
    'independent of it; user plugins do not implement result/format_exception and do not publish on run_info',
]
correspond, search, replay = _life.make('C02')
