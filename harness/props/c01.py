"""C01 -- lifecycle family; see harness/props/_life.py (co-simulation of coq/theories/Life/Model.v
against the real Nextline + scenario families + the C01 oracle of harness/life_oracles.py)."""
from . import _life

PROP_FILES = ['Props/C01.v']
TRUSTED_BASE = _life.TRUSTED_BASE + [
    'translate/imp_skeleton.py (ast): nextline/imp.py + nextline/main.py -> Gen/ImpSkeleton.v, statement terms per method of Imp / Nextline; '
    'trusted: the reading of the source into the AST of Life/ImpSyntax.v (what counts as tracked: _machine, _lock, _callback, pubsub.close, '
    '_hook.(a)hook, _imp, _continuous, _started, _closed; everything else in those positions fails closed), the semantics of Life/ImpTie.v '
    '(async with releases on every exit, try/finally, asynccontextmanager = body at the yield, asyncio.Lock not re-entrant), and the call '
    'lists of continuous.py (which Nextline methods Continuous.run_and_continue / run_continue_and_wait call); '
    'definitional in the interpreter, not proved: `async with lock` releases on every exit, try/finally, `except BaseException` '
    'catches every exception incl. cancellation, wait_for(c, t) = c with any await possibly the cancelled one; positions that are '
    'not translated may only contain calls of a fixed list (imp_skeleton.py ALLOWED_CALLS / LOGGER_CALLS / INIT_CALLS), `self.<known attribute>`, '
    'no assert; the per-call refinement (ImpTie.v section 5) is by computation on seven representative model states, one task, lock free; '
    'fsm/machine.py is read for names only (pin), fsm/callback.py (the unlocked `finish` trigger of the run task) is not read by this tie',
    'translate/machine_wiring.py (ast, fail-closed): nextline/fsm/machine.py + callback.py (+ the names of config.py) -> Gen/MachineWiring.v, '
    'every method of StateMachine and Callback as a statement term of Life/MachineSyntax.v, both __init__ bodies; trusted: the Python-ast -> AST '
    'mapping, and in Life/MachineTie.v the callback resolution and order of the transitions library 0.9.3 for one trigger (`script`: '
    'before, exit callbacks of the source, set_state, enter callbacks of dest, after_state_change also for the internal transition; '
    'on_enter_<state>/on_exit_<state> discovered iff the model has the method; MachineError iff no row; file/line references in the header), '
    'the event data of each trigger (reset(reset_options=...), the others without arguments), the meaning of each hook / wait over the model state '
    '(the model\'s own helpers log_hook / change_state_hook / ...; names of the suspension points gate_pc); the Imp-level epilogue after a trigger '
    'is no longer trusted: Life/MachineImpTie.v derives it from Gen/ImpSkeleton.v (rest of the Imp method after the trigger, release included, tail of '
    'Nextline.close) and proves it equal; what remains copied from the model there: after_imp (what the Nextline wrapper does with the returned call: '
    'return / run_session waits for the run / close() that had to start first goes on), the lock acquisition (the model\'s acquire), hook.init without '
    'effect on the model state, an exception leaving `async with` releases the lock, the name tables imp_trig_name / trig_of_name; Life/MachineCont.v: the continuation stored at every park is after_pc of the one program (generic lemma, proved); not modelled: a hook or wait that raises or is cancelled inside a trigger, the catching of the awaiting '
    'task\'s own cancellation by `except BaseException` in Callback.on_exit_finished (the clause itself is required syntactically)',
]
ASSUMPTIONS = _life.ASSUMPTIONS
correspond, search, replay = _life.make('C01')
# Gen/FsmConfig.v is regenerated from nextline/fsm/config.py, Gen/ImpSkeleton.v from imp.py + main.py on every run
TRANSLATORS = ['fsm_config', 'imp_skeleton', 'machine_wiring']
