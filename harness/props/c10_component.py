"""C10, component level: relay_events driven directly in the state "the subprocess exited normally with events still in
the pipe" and a slow plugin (harness/relay_component_runner.py).  Model counterpart: Relay/Model.v schedules
Emit^n Flush^n ChildExit ProcExitSeen ... Timeout PutSentinel ..., for which C10_complete_in_order proves
delivered = script.  Oracle = the property text: everything put is delivered, in order, once, before the end of the run
(the point where the block is left and on_end_run would be called), nothing after it."""
from __future__ import annotations

import json
import os
import subprocess
from concurrent.futures import ThreadPoolExecutor

from .. import common as C
from ..common import Violation


def scenarios(tier: str) -> list[dict]:
    out = [
        {'n': 5, 'slow': {'index': 0, 'seconds': 2.0}},          # hook of the first outlives the 1 s quiet timeout, 4 behind it
        {'n': 8, 'slow': {'index': 3, 'seconds': 1.4}},
        {'n': 3, 'slow': {'index': 2, 'seconds': 1.3}},          # the last one is slow
        {'n': 40, 'each': 0.002},                                # no slow hook, a burst
        {'n': 6, 'slow': {'index': 1, 'seconds': 0.3}},          # slow but within the timeout
    ]
    if tier != 'quick':
        out += [{'n': n, 'slow': {'index': i, 'seconds': s}} for n in (2, 4, 12) for i in (0, n // 2, n - 1) for s in (0.5, 1.2, 2.5)]
        out += [{'n': 300, 'each': 0.0}, {'n': 30, 'each': 0.05}]
    return out


def run_one(scn: dict) -> dict:
    env = dict(os.environ)
    env.update(PYTHONPATH=f'{C.REPO}:{C.VERIF}', PYTHONHASHSEED='0', PYTHONDONTWRITEBYTECODE='1')
    try:
        r = subprocess.run(['timeout', '-k', '5', '90', C.PY, '-u', '-m', 'harness.relay_component_runner', json.dumps(scn)],
                           stdout=subprocess.PIPE, stderr=subprocess.DEVNULL, text=True, env=env, cwd=str(C.VERIF), timeout=110)
        out = r.stdout
    except subprocess.TimeoutExpired:
        out = ''
    for line in out.splitlines():
        if line.startswith('@@LOG '):
            return {'log': json.loads(line[6:])}
        if line.startswith('@@ERR '):
            return {'error': json.loads(line[6:])}
    return {'error': 'no output (hang or crash)'}


def oracle(scn: dict, res: dict) -> list[tuple[str, str]]:
    if 'log' not in res:
        return [('component:relay-does-not-end', f'relay_events did not complete: {res.get("error")}')]
    log = res['log']
    end = next((k for k, e in enumerate(log) if e[0] == 'END'), len(log))
    before = [e[1] for e in log[:end] if e[0] == 'ev']
    done_before = [e[1] for e in log[:end] if e[0] == 'done']
    after = [e for e in log[end + 1:]]
    want = list(range(scn['n']))
    bad = []
    if after:
        bad.append(('component:event-after-end-of-run', f'{after[:5]} after the relay block was left (where on_end_run is called)'))
    if before != want:
        lost = [i for i in want if i not in before]
        bad.append(('component:not-complete-in-order' if lost else 'component:reordered-or-duplicated',
                    f'the subprocess exited normally after emitting {scn["n"]} events; delivered {before[:20]}' + (f', lost {lost[:20]}' if lost else '')))
    elif done_before != want:
        bad.append(('component:end-before-delivery-completed', f'the block was left while the hooks of {[i for i in want if i not in done_before][:5]} had not completed'))
    return bad


def run(ctx, tier: str | None = None):
    scns = scenarios(tier or ctx.tier)
    with ThreadPoolExecutor(8) as ex:
        res = list(ex.map(run_one, scns))
    vs = []
    for scn, r in zip(scns, res):
        for sig, what in oracle(scn, r):
            vs.append(Violation(sig, what + f' [{scn}]', {'component_scenario': scn, 'observed': r}))
    return vs, {'component_scenarios': len(scns)}
