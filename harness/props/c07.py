"""C07 -- a command reaches exactly the prompt it addresses, exactly once.

Model: coq/theories/Prompt/Model.v; theorems: Props/C07.v.
Tie: the REAL `nextline.spawned.main` is run in-process (harness/child.py) on generated
multi-threaded scripts; a custom responder (`Policy`, below, running inside the child
worker) surrounds every genuine answer with generated decoys and records one log of
(observed event | command sent).  From the log a label sequence for the model is built
(Send/Relay/Take/StartTrace/EndTrace/OpenPrompt) and Coq (vm_compute) compares the
model's prompts, executed commands and discarded commands with the implementation's
OnStartPrompt / OnEndPrompt events and its 'PromptNo mismatch' warnings.
Oracle: the property text on the real run only (recorded command of each prompt == the
genuine command addressed to it, no decoy had an effect on what the script prints, every
genuine statement took effect exactly once, the run completes).
"""
from __future__ import annotations

import json
import logging
import os
import random
import re
import threading
import time
from pathlib import Path

from .. import common as C
from ..common import Corr, Violation, clist, cnat, cz

TRANSLATORS = ['prompt_filter',     # Gen/PromptFilter.v: the code facts the main-process filter model rests on
               'prompt_funs']       # Gen/PromptFuns.v: statement trees of the command path (child + main), interpreted by
                                    # Prompt/Interp.v and tied to Prompt/Model.v / System.v by simulation (Prompt/Tie.v, TieSys.v)

TRUSTED_BASE = [
    'translate/prompt_funs.py (ast -> terms of Prompt/Syntax.v, fail closed; drops ONLY logging statements / strings built for them / '
    'docstrings / pass; asserts and ifs are translated; alpha-normalises locals; refuses class bases, class-level statements, special '
    'methods, monkeypatching or rebinding of translated names) and the semantics Prompt/Interp.v gives those terms (queue.Queue FIFO, '
    'dict/defaultdict/set, int identity = CPython small-int cache, pluggy calling Prompt.prompt / entering Repeater.on_prompt, '
    '@contextmanager generators, try/except by class, try/finally with the exception going on afterwards, ThreadPoolExecutor = one '
    'thread per submit and wait at exit; a thread runs from one blocking operation to the next without interleaving). '
    'Exceptions: real (one frame per micro-step). Cancellation: does not exist in this code (threads, no awaits in the child; the three '
    'main-process coroutines translated have no try/finally and nothing to clean up). Opaque reads (utcnow(), '
    'current_trace_call_info(), self._run_no) are assumed pure and non-raising',
    'Prompt/TieFactory.v object semantics (Cls(k=v) allocates, def = closure over earlier locals, attribute stores on locals not '
    'tracked); StdInOut keeping and calling prompt_func is a shape check in the translator; pluggy calls init once per run',
    'correspondence harness harness/props/c07.py (script generator, decoy policy, log -> label sequence: '
    'Relay right after each Send, Take of the addressed trace after each Relay and after each OpenPrompt)',
    'harness/child.py + child_worker.py (real nextline.spawned.main in-process with queue.Queue)',
    'modelled, not verified: queue.Queue is FIFO and thread-safe; itertools.count.__next__ is atomic; '
    'ThreadPoolExecutor runs try_again_on_error(fn) in one thread; Pdb executes exactly the string returned by the prompt function',
]
ASSUMPTIONS = [
    'a run that dies of the ThreadDoneCallback race (RuntimeError: Set changed size during iteration, property C18) is not '
    'counted for or against this property (reported as runs_lost_to_the_C18_done_callback_race)',
    'a trace number is started at most once and ended only when its thread/task is done (no prompt open) -- '
    'labels violating this are ONotEnabled in the model; the first half is C06_trace_no_injective',
    'the order of OnStartPrompt events of different threads may differ from the order of the counter calls; '
    'the label sequence is built in prompt-number order (sound: nothing observable happens between counter() and the event)',
    'two levels: the SYSTEM-level runs (real Nextline, public API, harness/props/c07_system.py) and the child-level family A '
    '(decoys with issued prompt numbers only) are judged by the property oracle; the child-level family B (every decoy kind, put '
    'straight into the child\'s queue_in, which only the main process does in production) is judged by the child\'s contract '
    '(signatures child:...); a command for a FUTURE prompt queued BEHIND the genuine answer IS executed by the child '
    '(C07_decoys_discarded_refuted, child level only; excluded at system level by the main-process filter, 5be87b5) -- family B '
    'generates it behind a gate and only compares the model\'s prediction with the real child',
    'system level: the order in which the main process handles events is taken from a passive plugin (public plugin API); a run in '
    'which two threads\' prompt numbers reach the main process out of order is not compared with the model (counted)',
]

LOGGER_NAME = 'nextline.spawned.plugin.plugins.pdb_.prompt'

# ---------------------------------------------------------------- command texts <-> integers

GENUINE = {'next': 1, 'step': 2, 'continue': 3, 'return': 4}
LOG_BASE = 1000          # '!LOG.append(k)'   <-> 1000 + k   (genuine, harmless, visible in the output)
MARK_BASE = 100000       # '!MARK.append(k)'  <-> 100000 + k (decoy: changes what the script prints)


def text_id(s) -> int:
    if s in GENUINE:
        return GENUINE[s]
    m = re.fullmatch(r'!LOG\.append\((\d+)\)', s or '')
    if m:
        return LOG_BASE + int(m.group(1))
    m = re.fullmatch(r'!MARK\.append\((\d+)\)', s or '')
    if m:
        return MARK_BASE + int(m.group(1))
    return -1


# ---------------------------------------------------------------- gate (runs inside the traced script)

GATES: dict = {}
_glock = threading.Lock()


def _gate_event(k):
    with _glock:
        if k not in GATES:
            GATES[k] = threading.Event()
        return GATES[k]


def gate(k):
    """Called by the generated script: blocks until the responder releases gate k."""
    _gate_event(k).wait(3.0)


def release(k):
    _gate_event(k).set()


# ---------------------------------------------------------------- responder (runs in the child worker)

DECOY_KINDS_PRE = ['stale', 'wrong-trace', 'unknown-trace', 'early', 'nonexistent', 'ended-trace']
DECOY_KINDS_POST = ['duplicate', 'stale', 'wrong-trace', 'unknown-trace', 'nonexistent', 'ended-trace']
ISSUED_KINDS = ['stale', 'duplicate', 'wrong-trace', 'unknown-trace', 'ended-trace']


class _Capture(logging.Handler):
    def __init__(self, sink):
        super().__init__(level=logging.DEBUG)
        self.sink = sink

    def emit(self, record):
        try:
            self.sink(record)
        except Exception:
            pass


class Policy:
    """Answers every prompt with one genuine command surrounded by decoys; may withhold
    answers for a while so that several traces have prompts open at the same time."""

    def __init__(self, args):
        self.rng = random.Random(args.get('seed', 0))
        self.gate_lines = {int(k): v for k, v in args.get('gate_lines', {}).items()}
        self.p_withhold = args.get('withhold', 0.5)
        self.max_decoys = args.get('max_decoys', 3)
        self.p_stmt = args.get('p_stmt', 0.2)
        self.p_continue = args.get('p_continue', 0.03)
        self.use_future = args.get('future', True)
        self.p_future = args.get('p_future', 0.7)
        self.first_start_line = args.get('first_start_line')
        self.p_unborn = args.get('p_unborn', 0.0)
        self.cmds = args.get('cmds', ['next', 'next', 'step'])
        # family A: only decoys the main-process filter could let through (prompt numbers that have been issued)
        self.issued_only = args.get('issued_only', False)
        self.kinds_pre = [k for k in DECOY_KINDS_PRE if not self.issued_only or k in ISSUED_KINDS]
        self.kinds_post = [k for k in DECOY_KINDS_POST if not self.issued_only or k in ISSUED_KINDS]
        self.no_decoys = args.get('no_decoys', False)
        self.lock = threading.RLock()
        self.put = None
        self.log = []                 # ['start', t] ['end', t] ['open', t, p] ['close', t, p, text] ['put', t, p, text]
        self.pending = {}             # t -> (p, line_no, event)   prompts seen and not yet answered
        self.live = []                # traces started and not seen ended
        self.ended = []
        self.history = {}             # t -> prompts of t seen so far
        self.genuine = {}             # 'p' -> [t, text]
        self.decoys = {}              # id -> {'kind', 't', 'p', 'after_genuine_of'}
        self.ndecoy = 0
        self.nlog = 0
        self.nstmt = {}
        self.tainted = set()
        self.maxp = 0
        self.maxt = 0
        self.discards = []            # (n, p) from the 'PromptNo mismatch' warnings, in order
        self.asserts = 0
        self.dropped = 0
        self.last_event = time.monotonic()
        self.stop = False
        GATES.clear()
        import builtins
        builtins.MARK = []      # type: ignore[attr-defined]
        builtins.LOG = []       # type: ignore[attr-defined]
        self.handler = _Capture(self._on_log)
        lg = logging.getLogger(LOGGER_NAME)
        lg.addHandler(self.handler)
        self._old_prop = lg.propagate
        lg.propagate = False
        self.pump = threading.Thread(target=self._pump, daemon=True)
        self.pump.start()

    # --- log capture (called in the thread that logs)
    def _on_log(self, rec):
        msg = rec.getMessage()
        m = re.match(r'PromptNo mismatch: (-?\d+) != (-?\d+)', msg)
        if m:
            with self.lock:
                self.discards.append([int(m.group(1)), int(m.group(2))])
        elif msg.startswith('TraceNo mismatch'):
            with self.lock:
                self.asserts += 1
        elif rec.exc_info and isinstance(rec.exc_info[1], KeyError):
            with self.lock:
                self.dropped += 1

    # --- decoys
    def _decoy(self, kind, t, p):
        cands = []
        others = [x for x in self.live if x != t]
        if kind == 'stale':
            for tt in self.live:
                hs = self.history.get(tt, [])
                # every prompt of tt before its latest one is closed for certain
                cands += [(tt, q) for q in hs[:-1]]
        elif kind == 'duplicate':
            cands = [(t, p)]
        elif kind == 'wrong-trace':
            cands = [(tt, p) for tt in others]
            cands += [(t, q) for tt, (q, _, _) in self.pending.items() if tt != t]
            cands += [(t, hs[-1]) for tt, hs in self.history.items() if tt != t and hs]
        elif kind == 'unknown-trace':
            cands = [(0, p), (-1, p), (self.maxt + 50 + self.rng.randrange(5), p)]
        elif kind == 'ended-trace':
            cands = [(tt, p) for tt in self.ended] + [(tt, self.history[tt][-1]) for tt in self.ended if self.history.get(tt)]
        elif kind == 'early':
            # only to traces that are certainly blocked at an unanswered prompt: read and discarded at once
            # (not to a trace that was sent 'future' decoys: one of them may have closed its prompt unseen)
            tgt = [tt for tt in [t] + [x for x in self.pending if x != t] if tt not in self.tainted]
            cands = [(tt, self.maxp + self.rng.randint(1, 3)) for tt in tgt]
        elif kind == 'nonexistent':
            cands = [(t, 0), (t, -self.rng.randint(1, 9)), (t, 10 ** 6 + self.rng.randrange(100))]
            cands += [(tt, 0) for tt in others]
        if not cands:
            return
        tt, q = self.rng.choice(cands)
        self._send_decoy(kind, tt, q)

    def _unborn(self, t, p, line_no):
        """Commands addressed to a trace that does not exist YET, with the prompt numbers it may well open later.
        Sent only while it is certain that no second trace can have been born: trace 1 is the only trace seen, it is
        blocked at this unanswered prompt, and its module-level code has not reached the line that starts the first
        thread.  (trace 2.., prompt p+1..) are then non-existent prompts for certain: they must be dropped."""
        rng = self.rng
        if not (t == 1 and self.maxt == 1 and not self.ended and self.first_start_line is not None
                and isinstance(line_no, int) and line_no < self.first_start_line and rng.random() < self.p_unborn):
            return
        width = rng.randint(4, 12)
        for tt in ([2] if rng.random() < 0.6 else [2, 3]):
            for q in range(p + 1, p + 1 + width):
                self._send_decoy('unborn-trace', tt, q)

    def _send_decoy(self, kind, tt, q):
        self.ndecoy += 1
        k = self.ndecoy
        self.decoys[k] = {'kind': kind, 't': tt, 'p': q}
        self._put(tt, q, f'!MARK.append({k})')

    def _put(self, t, p, text):
        self.log.append(['put', t, p, text])
        # In a real run a command crosses a process boundary (pickled): the child never receives the int OBJECTS of its
        # own events back.  The in-process harness would hand them back; send equal but distinct objects instead.
        self.put(int(str(t)), int(str(p)), str(text))

    def _answer(self, t):
        p, line_no, event = self.pending.pop(t)
        rng = self.rng
        gate_k = self.gate_lines.get(line_no) if event == 'line' else None
        r = rng.random()
        if r < self.p_stmt and self.nstmt.get(t, 0) < 3:
            self.nstmt[t] = self.nstmt.get(t, 0) + 1
            self.nlog += 1
            text = f'!LOG.append({self.nlog})'
        elif r < self.p_stmt + self.p_continue and not self.gate_lines:
            text = 'continue'
        else:
            text = rng.choice(self.cmds)
        resumes = not text.startswith('!')
        if not self.no_decoys:
            for _ in range(rng.randint(0, self.max_decoys)):
                self._decoy(rng.choice(self.kinds_pre), t, p)
            if not self.issued_only:
                self._unborn(t, p, line_no)
        self.genuine[str(p)] = [t, text]
        self._put(t, p, text)
        if not self.no_decoys:
            for _ in range(rng.randint(0, self.max_decoys)):
                self._decoy(rng.choice(self.kinds_post), t, p)
        if gate_k is not None and resumes:
            # the thread of trace t is now inside gate(k) (or still before it): it cannot have
            # opened another prompt, so every (t, q > p) is a FUTURE prompt for certain
            if self.use_future and not self.issued_only and not self.no_decoys and text != 'continue' and rng.random() < self.p_future:
                self.tainted.add(t)
                for d in range(1, rng.randint(1, 3) + 1):
                    self._send_decoy('future', t, p + d)
            release(gate_k)

    # --- events (responder thread)
    def on_event(self, ev, put):
        with self.lock:
            self.put = put
            self.last_event = time.monotonic()
            ty = ev['type']
            if ty == 'OnStartTrace':
                t = ev['trace_no']
                self.log.append(['start', t]); self.live.append(t); self.maxt = max(self.maxt, t)
            elif ty == 'OnEndTrace':
                t = ev['trace_no']
                self.log.append(['end', t])
                if t in self.live:
                    self.live.remove(t)
                self.ended.append(t)
            elif ty == 'OnStartPrompt':
                t, p = ev['trace_no'], ev['prompt_no']
                self.log.append(['open', t, p])
                self.history.setdefault(t, []).append(p)
                self.maxp = max(self.maxp, p)
                self.pending[t] = (p, ev.get('line_no'), ev.get('event'))
                if self.rng.random() >= self.p_withhold:
                    self._answer(t)
            elif ty == 'OnEndPrompt':
                self.log.append(['close', ev['trace_no'], ev['prompt_no'], ev['command']])
            else:
                return
            if self.pending and self.rng.random() < 0.3:
                self._answer(self.rng.choice(sorted(self.pending)))

    def _pump(self):
        # releases withheld answers when nothing else happens (all other threads blocked)
        while not self.stop:
            time.sleep(0.002)
            with self.lock:
                if self.put is not None and self.pending and time.monotonic() - self.last_event > 0.004:
                    self._answer(self.rng.choice(sorted(self.pending)))
                    self.last_event = time.monotonic()

    def summary(self):
        self.stop = True
        lg = logging.getLogger(LOGGER_NAME)
        lg.removeHandler(self.handler)
        lg.propagate = self._old_prop
        for k in list(GATES):
            release(k)
        with self.lock:
            return {'log': self.log, 'genuine': self.genuine, 'decoys': self.decoys, 'discards': self.discards,
                    'asserts': self.asserts, 'dropped': self.dropped, 'unanswered': sorted(self.pending)}


def make_policy(args):
    return Policy(args)


# ---------------------------------------------------------------- script generator

def gen_program(rng, max_threads: int):
    """A script with `nthreads` worker threads; returns (src, gate_lines: line_no -> gate id)."""
    nthreads = rng.randint(0, max_threads)
    style = rng.choice(['concurrent', 'concurrent', 'sequential', 'oneline'])
    first_start_line = None     # the module-level line that starts the first thread: before it no second trace can be born
    # MARK and LOG are lists the responder installs in `builtins` (so that a command executed at the very first
    # line already finds them); the script prints them at the end
    lines = ['import threading', 'from harness.props.c07 import gate']
    gates = {}
    ngate = 0

    def body(indent, n):
        nonlocal ngate
        out = []
        for j in range(n):
            if rng.random() < 0.3:
                ngate += 1
                out.append((f'{indent}gate({ngate})', ngate))
            else:
                out.append((f'{indent}v{j} = {rng.randint(0, 9)} + {j}', None))
        return out

    funcs = []
    for i in range(nthreads):
        lines.append(f'def f{i}():')
        for text, g in body('    ', rng.randint(1, 4)):
            lines.append(text)
            if g is not None:
                gates[len(lines)] = g
        funcs.append(f'f{i}')
    for text, g in body('', rng.randint(0, 2)):
        lines.append(text)
        if g is not None:
            gates[len(lines)] = g
    if funcs:
        lines.append('ths = [threading.Thread(target=f) for f in (' + ', '.join(funcs) + ',)]')
        first_start_line = len(lines) + 1
        if style == 'sequential':
            lines.append('for t in ths:')
            lines.append('    t.start()')
            lines.append('    t.join()')
        elif style == 'oneline':
            # trace 1 has no prompt open while a worker runs: prompt numbers are predictable
            lines.append('for t in ths: t.start(); t.join()')
        else:
            lines.append('for t in ths: t.start()')
            for text, g in body('', rng.randint(0, 2)):
                lines.append(text)
                if g is not None:
                    gates[len(lines)] = g
            lines.append('for t in ths: t.join()')
    lines.append("print('@@', sorted(MARK), sorted(LOG))")
    return '\n'.join(lines) + '\n', gates, first_start_line


def gen_job(rng, tier_threads: int, plain: bool = False, family: str = 'B'):
    src, gates, first_start = gen_program(rng, tier_threads)
    args = {'seed': rng.randrange(1 << 30), 'gate_lines': {str(k): v for k, v in gates.items()},
            'first_start_line': first_start, 'p_unborn': rng.choice([0.3, 0.6, 1.0]),
            'withhold': rng.choice([0.0, 0.3, 0.6, 0.9]), 'max_decoys': rng.choice([1, 2, 3, 4]),
            'p_stmt': rng.choice([0.0, 0.15, 0.3]), 'future': True, 'no_decoys': plain, 'issued_only': family == 'A'}
    return {'src': src, 'form': 'str', 'trace_threads': True, 'trace_modules': False, 'timeout': 8,
            'policy': {'kind': 'custom', 'module': 'harness.props.c07', 'func': 'make_policy', 'args': args}}


def gen_long_job(rng, kind: str):
    """Long runs: prompt numbers (kind 'prompts': > 300, interleaved across threads) or trace numbers
    (kind 'traces': > 256 sequential threads) beyond CPython's shared small integers (-5..256) and beyond one byte."""
    if kind == 'prompts':
        nth = rng.randint(2, 3)
        lines = ['import threading']
        for i in range(nth):
            lines += [f'def f{i}():', f'    for i in range({rng.randint(60, 80)}):', '        v = i']
        lines += ['ths = [threading.Thread(target=f) for f in (' + ', '.join(f'f{i}' for i in range(nth)) + ',)]',
                  'for t in ths: t.start()', f'for i in range({rng.randint(20, 40)}):', '    w = i', 'for t in ths: t.join()']
        first_start = 3 * nth + 3
    else:
        lines = ['import threading', 'def f():', '    return 1', f'for i in range({rng.randint(258, 270)}):',
                 '    t = threading.Thread(target=f)', '    t.start(); t.join()']
        first_start = None
    lines.append("print('@@', sorted(MARK), sorted(LOG))")
    args = {'seed': rng.randrange(1 << 30), 'gate_lines': {}, 'first_start_line': first_start, 'p_unborn': 0.3,
            'withhold': rng.choice([0.0, 0.3]), 'max_decoys': rng.choice([1, 2]), 'p_stmt': 0.03, 'p_continue': 0.0,
            'future': False, 'no_decoys': False, 'cmds': ['next'], 'issued_only': True}
    return {'src': '\n'.join(lines) + '\n', 'form': 'str', 'trace_threads': True, 'trace_modules': False, 'timeout': 40, 'long': kind,
            'policy': {'kind': 'custom', 'module': 'harness.props.c07', 'func': 'make_policy', 'args': args}}


# ---------------------------------------------------------------- log -> model labels + observations

def build_case(summary):
    """Label sequence (eager relay / eager prompt loop) and the implementation's observations.
    The number of `Take` labels after an OpenPrompt is the length of the trace's backlog, obtained by
    following the queues along the log (too few Takes would show up as a mismatch, too many are no-ops)."""
    labels = []          # tuples
    open_pos = []        # (prompt number, index in labels of its OpenPrompt)
    nsent_to = {}
    opens, execs = [], []
    live, queue, cur = set(), {}, {}
    exact = True         # False after an out-of-order OnStartPrompt: fall back to the upper bound
    for e in summary['log']:
        k = e[0]
        if k == 'start':
            labels.append(('StartTrace', e[1])); live.add(e[1]); queue[e[1]] = []
        elif k == 'end':
            labels.append(('EndTrace', e[1])); live.discard(e[1]); queue.pop(e[1], None)
        elif k == 'open':
            t, p = e[1], e[2]
            later = [(q, i) for (q, i) in open_pos if q > p]
            if later:
                exact = False
            ntake = nsent_to.get(t, 0)
            if exact:
                ntake, cur[t] = 1, p
                q_ = queue.get(t, [])
                while q_ and cur.get(t) is not None:
                    ntake += 1
                    if q_.pop(0) == p:
                        cur[t] = None
            new = [('OpenPrompt', t)] + [('Take', t)] * ntake
            if later:
                at = min(i for _, i in later)
                labels[at:at] = new
                open_pos = [(q, i + len(new) if i >= at else i) for (q, i) in open_pos]
                open_pos.append((p, at))
            else:
                open_pos.append((p, len(labels)))
                labels += new
            opens.append((t, p))
        elif k == 'put':
            t, p, text = e[1], e[2], e[3]
            labels += [('Send', t, p, text_id(text)), ('Relay',), ('Take', t)]
            nsent_to[t] = nsent_to.get(t, 0) + 1
            if t in live:
                queue[t].append(p)
                if cur.get(t) is not None and queue[t].pop(0) == cur[t]:
                    cur[t] = None
        elif k == 'close':
            execs.append((e[1], e[2], text_id(e[3])))
    opens.sort(key=lambda tp: tp[1])
    per = {}
    for n, p in summary['discards']:
        per.setdefault(p, []).append(n)
    obs = {'opens': opens, 'execs': execs, 'discards': sorted(per.items()), 'asserts': summary['asserts']}
    return labels, obs


def label_term(l) -> str:
    k = l[0]
    if k == 'Send':
        return f'Send (mkCmd {cz(l[1])} {cz(l[2])} {cz(l[3])})'
    if k == 'Relay':
        return 'Relay'
    return f'{k} {cz(l[1])}'


def obs_term(o) -> str:
    opens = clist(f'({cz(t)}, {cz(p)})' for t, p in o['opens'])
    execs = clist(f'({cz(t)}, {cz(p)}, {cz(c)})' for t, p, c in o['execs'])
    disc = clist(f'({cz(p)}, {clist(cz(n) for n in ns)})' for p, ns in o['discards'])
    return f'(mkObs {opens} {execs} {disc} {cnat(o["asserts"])})'


HEADER = 'From NL Require Import Prompt.Corr.\nOpen Scope Z_scope.\n'


LIT = 400     # longest list literal written in one piece (coqc's front end recurses over list literals)


def _biglist(name: str, terms: list, ty: str, defs: list) -> str:
    """A Coq term for the list; long lists are cut into named pieces of <= LIT elements joined by ++."""
    if len(terms) <= LIT:
        return clist(terms)
    parts = []
    for k in range(0, len(terms), LIT):
        n = f'{name}_{k // LIT}'
        defs.append(f'Definition {n} : list {ty} := {clist(terms[k:k + LIT])}.')
        parts.append(n)
    return '(' + ' ++ '.join(parts) + ')'


def case_text(idx: int, ls, o):
    """(auxiliary definitions, row term) of one case."""
    defs: list = []
    lab = _biglist(f'c{idx}_l', [label_term(l) for l in ls], 'label', defs)
    opens = _biglist(f'c{idx}_o', [f'({cz(t)}, {cz(p)})' for t, p in o['opens']], '(Z * Z)', defs)
    execs = _biglist(f'c{idx}_e', [f'({cz(t)}, {cz(p)}, {cz(c)})' for t, p, c in o['execs']], '(Z * Z * Z)', defs)
    disc = _biglist(f'c{idx}_d', [f'({cz(p)}, {clist(cz(n) for n in ns)})' for p, ns in o['discards']], '(Z * list Z)', defs)
    return defs, f'({lab},\n  (mkObs {opens} {execs} {disc} {cnat(o["asserts"])}))'


def cases_file(texts) -> str:
    """texts: list of (defs, row) from case_text."""
    defs = [d for ds, _ in texts for d in ds]
    rows = [r for _, r in texts]
    return (HEADER + '\n'.join(defs) + '\nDefinition cases : list (list label * observed) :=\n ' + ';\n '.join(rows).join(['[', ']']) + '.\n'
            'Eval vm_compute in bad_from 0%nat cases.\n')


# ---------------------------------------------------------------- oracle (independent of the model)

def judged(job, res):
    """Family A (decoys with issued prompt numbers only -- what the main-process filter can let through) is judged by the
    property oracle.  Family B (all decoy kinds, sent straight into the child's queue_in) is judged by the CHILD's
    contract, i.e. the child-level theorems (stale / duplicate / other trace's / non-existent / unborn trace / early-ahead
    decoys are never executed: signatures 'child:...'); the execution of a command for a FUTURE prompt queued behind the
    genuine answer is the child's modelled behaviour (C07_decoys_discarded_refuted, child level only) and is compared
    model-vs-real in the correspondence, not judged."""
    hits = oracle(job, res)
    if job['policy']['args'].get('issued_only'):
        return hits
    return [('child:' + sig, what) for sig, what in hits if sig != 'future-command-executed']


def oracle(job, res):
    """The property text on the real run.  Returns a list of (signature, what)."""
    bad = []
    summ = res.get('policy_summary') or {}
    genuine = summ.get('genuine', {})
    decoys = {int(k): v for k, v in summ.get('decoys', {}).items()}
    decoy_text = {f'!MARK.append({k})': v for k, v in decoys.items()}
    if res.get('timeout') or res.get('error'):
        evs = res.get('events', [])
        op = {e['prompt_no']: e['trace_no'] for e in evs if e['type'] == 'OnStartPrompt'}
        for e in evs:
            if e['type'] == 'OnEndPrompt':
                op.pop(e['prompt_no'], None)
        ans = [c for c in res.get('sent', []) if c[1] in op and c[0] == op[c[1]]]
        bad.append(('run-stuck', f'the run did not complete: {str(res.get("error"))[:200]}; prompts left open (prompt: trace) {op}; '
                    f'commands sent with exactly these numbers: {ans[:6]}'))
        if not summ:
            return bad          # the responder's record (which command was the genuine one) is lost with the worker
    opened, closed = {}, {}
    log_before_print, seen_print = [], False
    for ev in res.get('events', []):
        ty = ev['type']
        if ty == 'OnStartPrompt':
            opened[ev['prompt_no']] = ev['trace_no']
        elif ty == 'OnWriteStdout' and ev.get('text', '').startswith('@@'):
            seen_print = True
        elif ty == 'OnEndPrompt':
            t, p, cmd = ev['trace_no'], ev['prompt_no'], ev['command']
            if p in closed:
                bad.append(('prompt-closed-twice', f'prompt {p} of trace {t} was closed twice ({closed[p]!r}, {cmd!r})'))
            closed[p] = cmd
            g = genuine.get(str(p))
            if g is None or g[0] != t or g[1] != cmd:
                if cmd in decoy_text:
                    d = decoy_text[cmd]
                    bad.append((f'{d["kind"]}-command-executed',
                                f'prompt {p} of trace {t} was closed by the decoy {cmd!r} addressed to (trace {d["t"]}, prompt {d["p"]}) '
                                f'[{d["kind"]}]; the genuine answer was {g[1] if g else None!r}'))
                else:
                    bad.append(('wrong-command-recorded', f'prompt {p} of trace {t} recorded {cmd!r}, the command addressed to it was {g!r}'))
            elif cmd.startswith('!LOG.append(') and not seen_print:
                log_before_print.append(int(cmd[12:-1]))
    if not (res.get('timeout') or res.get('error')):
        for p, t in opened.items():
            if p not in closed:
                bad.append(('prompt-not-closed', f'prompt {p} of trace {t} was opened and never closed'))
    # effects visible in the script's own output
    m = re.search(r'@@ (\[[^\]]*\]) (\[[^\]]*\])', res.get('stdout') or '')
    if m:
        marks, logs = json.loads(m.group(1)), json.loads(m.group(2))
        for k in marks:
            d = decoys.get(k, {'kind': 'unknown', 't': None, 'p': None})
            bad.append((f'{d["kind"]}-command-executed',
                        f'the decoy !MARK.append({k}) addressed to (trace {d["t"]}, prompt {d["p"]}) [{d["kind"]}] changed the printed variable MARK'))
        want = sorted(log_before_print)
        if logs != want:
            extra = [x for x in logs if logs.count(x) > want.count(x)]
            sig = 'genuine-executed-twice' if extra else 'genuine-not-executed'
            bad.append((sig, f'genuine statements executed (printed LOG) {logs}, recorded as answers {want}'))
    elif not (res.get('timeout') or res.get('error')):
        bad.append(('run-stuck', 'the script did not print its final line'))
    return bad


# ---------------------------------------------------------------- entry points

def foreign_crash(res) -> bool:
    """The run died of the race in nextline/utils/done_callback/thread.py (ThreadDoneCallback iterates a set that
    another thread registers into: 'Set changed size during iteration') -- the subject of property C18, not of this one."""
    return 'Set changed size during iteration' in str(res.get('error') or '')


def _run(ctx, jobs) -> Corr:
    from .. import child
    corr = Corr()
    corr.rule = ('each case = one real run of nextline.spawned.main on a generated script (0-4 worker threads, gates) with the '
                 'decoy responder; distinct = distinct (script, responder seed); non-trivial = at least one decoy was read and '
                 'discarded by an open prompt (PromptNo mismatch warning) and at least 2 prompts were answered')
    t0 = time.time()
    # VERIF_REPO: run against a scratch copy of the repository (mutation self-tests only)
    alt = os.environ.get('VERIF_REPO')
    env = {'PYTHONPATH': f'{alt}:{C.VERIF}'} if alt else None
    for i, j in enumerate(jobs):
        j['id'] = i
    # long runs each in a worker of their own, in parallel with the chunks of short ones
    from concurrent.futures import ThreadPoolExecutor
    with ThreadPoolExecutor(2) as ex:
        fl = ex.submit(child.run_jobs, [j for j in jobs if j.get('long')], 8, 1, env)
        fs = ex.submit(child.run_jobs, [j for j in jobs if not j.get('long')], 12, 20, env)
        by_id = {r.get('id'): r for r in fl.result() + fs.result()}
    results = [by_id.get(j['id'], {'id': j['id'], 'error': 'missing', 'events': [], 'sent': []}) for j in jobs]
    ctx.log(f'{len(jobs)} real runs in {time.time() - t0:.1f}s')
    cases, kept = [], []
    hist_kinds: dict[str, int] = {}
    seen = set()
    n_conc = 0
    n_foreign = 0
    for job, res in zip(jobs, results):
        if foreign_crash(res):
            n_foreign += 1
            continue
        payload = {'src': job['src'], 'policy_args': job['policy']['args']}
        for sig, what in judged(job, res):
            corr.violations.append(Violation(sig, what, {**payload, 'sent': res.get('sent'),
                                                         'end_prompts': [[e['trace_no'], e['prompt_no'], e['command']] for e in res.get('events', []) if e['type'] == 'OnEndPrompt'],
                                                         'stdout': res.get('stdout')}))
        summ = res.get('policy_summary')
        if not summ:
            corr.mismatches.append({'kind': 'no-summary', 'error': str(res.get('error'))[:300], **payload})
            continue
        labels, obs = build_case(summ)
        cases.append((labels, obs)); kept.append((job, res, summ))
        for d in summ['decoys'].values():
            hist_kinds[d['kind']] = hist_kinds.get(d['kind'], 0) + 1
        key = json.dumps([job['src'], job['policy']['args']['seed']])
        if key not in seen:
            seen.add(key)
            if summ['discards'] and len(obs['execs']) >= 2:
                corr.distinct_nontrivial += 1
        # several prompts open at the same time?
        openset, mx = set(), 0
        for e in summ['log']:
            if e[0] == 'open':
                openset.add(e[2]); mx = max(mx, len(openset))
            elif e[0] == 'close':
                openset.discard(e[2])
        n_conc += mx >= 2
    corr.evaluations = len(cases)
    corr.extra['runs_lost_to_the_C18_done_callback_race'] = n_foreign
    # shards: at most 100 cases and ~250 KB per file; a case bigger than that (a long run) gets a file of its own and its
    # long lists are written in pieces (coqc overflows its stack on very long list literals)
    CAP = 250_000
    texts = [case_text(i, ls, o) for i, (ls, o) in enumerate(cases)]
    shards, cur, size = [], [], 0         # each shard: list of indices into `cases`
    for i, (defs, row) in enumerate(texts):
        sz = len(row) + sum(len(d) for d in defs)
        if cur and (size + sz > CAP or len(cur) >= 100):
            shards.append(cur); cur, size = [], 0
        cur.append(i); size += sz
    if cur:
        shards.append(cur)
    files = {f'c07_{k}': cases_file([texts[i] for i in sh]) for k, sh in enumerate(shards)}
    corr.extra['coq_case_files'] = len(files)
    corr.extra['largest_case_file_bytes'] = max([len(t) for t in files.values()] or [0])
    for name, (ok, out) in ctx.coq_eval_many(files).items():
        shard = shards[int(name.split('_')[1])]
        bad = C.parse_nat_list(out) if ok else None
        if bad is None:
            corr.mismatches.append({'kind': 'coq-eval-failed', 'file': name, 'log': out[-600:]})
            continue
        for b in bad:
            job, res, summ = kept[shard[b]]
            labels, obs = cases[shard[b]]
            corr.mismatches.append({'kind': 'model-vs-impl', 'src': job['src'], 'policy_args': job['policy']['args'],
                                    'log': summ['log'], 'impl': obs})
    if kept:
        job, res, summ = kept[len(kept) // 2]
        corr.samples.append({'src': job['src'], 'log': summ['log'][:40], 'discards': summ['discards'][:20]})
    corr.extra['decoy_kinds'] = hist_kinds
    corr.extra['streams_with_concurrent_open_prompts'] = n_conc
    corr.extra['max_prompt_no'] = max([o['opens'][-1][1] for _, o in cases if o['opens']] or [0])
    corr.extra['max_trace_no'] = max([t for _, o in cases for t, _ in o['opens']] or [0])
    corr.extra['long_runs'] = [{'kind': j['long'], 'prompts': len(r.get('events') and [e for e in r['events'] if e['type'] == 'OnStartPrompt'] or []), 'wall': r.get('wall')} for j, r in zip(jobs, results) if j.get('long')]
    corr.extra['commands_sent'] = sum(len(r.get('sent', [])) for r in results)
    corr.extra['discard_warnings'] = sum(len(s['discards']) for _, _, s in kept)
    corr.extra['relay_keyerrors'] = sum(s['dropped'] for _, _, s in kept)
    return corr


def correspond(ctx) -> Corr:
    rng = ctx.rng
    n, thr = (110, 3) if ctx.tier == 'quick' else (3000, 4)
    nlong = (1, 1) if ctx.tier == 'quick' else (12, 4)
    # the long runs first: they take the longest, start them first
    jobs = [gen_long_job(rng, 'prompts') for _ in range(nlong[0])] + [gen_long_job(rng, 'traces') for _ in range(nlong[1])]
    jobs += load_corpus() + [gen_job(rng, thr, plain=(i % 10 == 9), family='AB'[i % 2]) for i in range(n)]
    corr = _run(ctx, jobs)
    # system level: the real Nextline through its public API against the composed model
    from . import c07_system
    t0 = time.time()
    corr.extra.update(c07_system.run(ctx, corr, 8 if ctx.tier == 'quick' else 80))
    ctx.log(f'system-level runs in {time.time() - t0:.1f}s')
    corr.evaluations += corr.extra['system_runs_compared_with_the_model']
    return corr


def search(ctx, broken) -> list:
    rng = ctx.rng
    jobs = [gen_job(rng, 4, family='AB'[i % 2]) for i in range(600)]
    corr = _run(ctx, jobs)
    from . import c07_system
    c07_system.run(ctx, corr, 30)
    return corr.violations


def load_corpus():
    d = C.CORPUS / 'C07'
    jobs = []
    if d.exists():
        for p in sorted(d.glob('*.json')):
            j = json.loads(p.read_text())
            jobs.append(_job_of(j))
    return jobs


def _job_of(j):
    return {'src': j['src'], 'form': 'str', 'trace_threads': True, 'trace_modules': False, 'timeout': 8,
            'policy': {'kind': 'custom', 'module': 'harness.props.c07', 'func': 'make_policy', 'args': j['policy_args']}}


def replay(ctx, path: Path) -> int:
    from .. import child
    j = json.loads(path.read_text())
    hits = {}
    if j.get('level') == 'system':
        from . import c07_system
        for _ in range(3):
            res = c07_system.run_one(j['job'])
            for sig, what in c07_system.oracle(j['job'], res):
                hits.setdefault(sig, what)
        print(j['job']['src'])
        for sig, what in hits.items():
            print('FAILS:', sig, what)
        print('replay verdict:', 'property violated' if hits else 'property holds on this input (3 runs)')
        return 1 if hits else 0
    jobs = [_job_of(j) for _ in range(10)]       # thread timing varies: repeat
    for job, res in zip(jobs, child.run_jobs(jobs)):
        for sig, what in judged(job, res):
            hits.setdefault(sig, what)
    print(j['src'])
    for sig, what in hits.items():
        print('FAILS:', sig, what)
    print('replay verdict:', 'property violated' if hits else 'property holds on this input (10 runs)')
    return 1 if hits else 0
