"""C12 -- lifecycle family; see harness/props/_life.py (co-simulation of coq/theories/Life/Model.v
against the real Nextline + scenario families + the C12 oracle of harness/life_oracles.py).

In addition ("every way the run ends, including a failure to start"): Life/FailStart.v interprets the
control-flow skeletons of Callback._run/_finish, RunSession.run and relay_events, regenerated on every
run by translate/callback_skeleton.py; `failstart_runs` provokes each failure point reachable through
the public plugin API (a plugin whose `run` context raises on entry / on exit, whose on_end_run /
on_finished hook raises) on the real Nextline and compares what a recording plugin saw with the
model's trace for the corresponding oracle (vm_compute)."""
from __future__ import annotations

from .. import common as C
from .. import life
from ..common import Violation, cbool, clist, cnat
from . import _life

PROP_FILES = ['Props/C12.v']
TRANSLATORS = ['callback_skeleton', 'fsm_config', 'machine_wiring']     # Gen/CallbackSkeleton.v is regenerated from callback.py + session.py on every run
TRUSTED_BASE = _life.TRUSTED_BASE + [
    'translate/callback_skeleton.py (ast pattern matcher, fail-closed) and the try/finally + asynccontextmanager semantics of '
    'Life/FailStart.v; apluggy enters the `run` contexts in pluggy order and exits them in reverse (modelled as nesting)',
    'translate/machine_wiring.py (ast, fail-closed): nextline/fsm/machine.py + callback.py (+ the names of config.py) -> Gen/MachineWiring.v, '
    'every method of StateMachine and Callback as a statement term of Life/MachineSyntax.v, both __init__ bodies; trusted: the Python-ast -> AST '
    'mapping, and in Life/MachineTie.v the callback resolution and order of the transitions library 0.9.3 for one trigger (`script`: '
    'before, exit callbacks of the source, set_state, enter callbacks of dest, after_state_change also for the internal transition; '
    'on_enter_<state>/on_exit_<state> discovered iff the model has the method; MachineError iff no row; file/line references in the header), '
    'the event data of each trigger (reset(reset_options=...), the others without arguments), the meaning of each hook / wait over the model state '
    '(the model\'s own helpers log_hook / change_state_hook / ...; names of the suspension points gate_pc); the Imp-level epilogue after a trigger '
    'is no longer trusted: Life/MachineImpTie.v derives it from Gen/ImpSkeleton.v (rest of the Imp method after the trigger, release included, tail of '
    'Nextline.close) and proves it equal; what remains copied from the model there: after_imp (what the Nextline wrapper does with the returned call: '
    'return / run_session waits for the run / close() that had to start first goes on), the lock acquisition (the model\'s acquire), hook.init without '
    'effect on the model state, an exception leaving `async with` releases the lock, the name tables imp_trig_name / trig_of_name; not modelled: a hook or wait that raises or is cancelled inside a trigger, the catching of the awaiting '
    'task\'s own cancellation by `except BaseException` in Callback.on_exit_finished (the clause itself is required syntactically)',
]
ASSUMPTIONS = _life.ASSUMPTIONS + [
    'FailStart: an exception is one kind; every await of the run session may raise, plain statements may not; the oracle positions '
    'of the real runs: 0 user context entry, 1 spawn, 2 on_start_run, 3 process wait, 4 drain, 5 sentinel, 6 monitor, 7 on_end_run, '
    '8 user context exit, 9 finish trigger (on_finished)',
]
_base_correspond, search, replay = _life.make('C12')

# failure point -> (register_failing argument, oracle, needs a child)
FAIL_POINTS = {
    'none': (None, [], True),
    'run_ctx': ('run_ctx', [True], False),
    'on_end_run': ('on_end_run', [False] * 7 + [True], True),
    'run_ctx_exit': ('run_ctx_exit', [False] * 8 + [True], True),
    'on_finished': ('on_finished', [False] * 9 + [True], True),
}
HOOK_CODE = {'on_start_run': 1, 'on_end_run': 2, 'on_finished': 3}


def failstart_scenarios() -> list[dict]:
    out = []
    for name, (what, oracle, child) in FAIL_POINTS.items():
        steps = [['call', 'A', 'start'], ['settle', 0.15, 12.0]]
        if what:
            steps.append(['register_failing', 'F1', what])
        steps += [['call', 'A', 'run'], ['settle', 0.3, 12.0]]
        if child:
            steps += [['child', 'return'], ['settle', 0.4, 12.0]]
        steps += [['sample']]
        out.append({'config': {'subscribe': False}, 'steps': steps, 'meta': {'family': 'failstart', 'point': name}, 'timeout': 40})
    return out


def failstart_observe(obs: list[dict]):
    hooks = [HOOK_CODE[o['hook']] for o in obs if o.get('k') == 'hook' and o.get('hook') in HOOK_CODE]
    fin = [o for o in obs if o.get('k') == 'hook' and o.get('hook') == 'on_finished']
    run_arg_none = bool(fin) and all(o.get('run_arg') is False for o in fin)
    unblocked = any(o.get('k') == 'ret' and o.get('api') == 'run' for o in obs)
    finished = bool(obs) and obs[-1].get('state') == 'finished'
    return hooks, run_arg_none, unblocked, finished


def failstart_runs(ctx, corr) -> None:
    scns = failstart_scenarios()
    logs = life.run_many(scns, par=len(scns))
    rows = []
    for scn, obs in zip(scns, logs):
        corr.evaluations += 1
        name = scn['meta']['point']
        _, oracle, _ = FAIL_POINTS[name]
        if any(o.get('k') in ('runner_dead', 'runner_error', 'scenario_timeout') for o in obs):
            corr.mismatches.append({'kind': 'failstart-no-observation', 'point': name, 'log': [o for o in obs if o.get('k') in ('runner_dead', 'runner_error', 'scenario_timeout')][:2]})
            rows.append(None)
            continue
        hooks, a, s, f = failstart_observe(obs)
        corr.extra.setdefault('failstart', {})[name] = {'hooks': hooks, 'run_arg_none_at_on_finished': a, 'run_unblocked': s, 'state_finished': f}
        # the property text, directly: run_arg withdrawn at on_finished; nothing of the run after on_finished
        if 3 in hooks and not a:
            corr.violations.append(Violation(f'failstart:run-arg-at-finished:{name}', f'failure point {name}: on_finished was called with context.run_arg still set',
                                             {'failstart': name, 'hooks': hooks}))
        if 3 in hooks and hooks[hooks.index(3) + 1:]:
            corr.violations.append(Violation(f'failstart:hook-after-finished:{name}', f'failure point {name}: hooks {hooks[hooks.index(3) + 1:]} after on_finished',
                                             {'failstart': name, 'hooks': hooks}))
        rows.append(f'({clist(map(cbool, oracle))}, ({clist(map(cnat, hooks))}, {cbool(a)}, {cbool(s)}, {cbool(f)}))')
    live = [(i, r) for i, r in enumerate(rows) if r is not None]
    text = ('From NL Require Import Life.FailStart.\nFrom Coq Require Import List. Import ListNotations.\n'
            'Definition cases : list (list bool * observation) :=\n ' + clist(r for _, r in live) + '.\n'
            'Eval vm_compute in bad_from 0%nat cases.\n')
    ok, out = ctx.coq_eval('failstart_cases', text)
    bad = C.parse_nat_list(out) if ok else None
    if bad is None:
        corr.mismatches.append({'kind': 'coq-eval-failed', 'file': 'failstart_cases', 'log': out[-600:]})
        return
    for b in bad:
        i = live[b][0]
        name = scns[i]['meta']['point']
        corr.mismatches.append({'kind': 'failstart-model-vs-impl', 'point': name, 'oracle': FAIL_POINTS[name][1],
                                'observed': corr.extra.get('failstart', {}).get(name)})


def correspond(ctx):
    corr = _base_correspond(ctx)
    failstart_runs(ctx, corr)
    return corr
