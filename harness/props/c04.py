"""C04 -- tracing is transparent: the script computes what it would untraced.   (label: PARTIAL)

Proved (Props/C04.v): the traceback logic (Gen/TbFuns.v = runner._remove_frame, compose.clean_exception,
local_.clean_exception) and that the debugger model never feeds back into the event stream.
Validated here, differentially: generated programs (harness/progen.py, shared with C05) in the four statement
forms x resuming policies (step, next, return, until, continue, random) x trace flags are run by the REAL
nextline.spawned.main and, in the same interpreter, directly (harness/reference.py); compared: standard output
(whole and per thread/task), return value, exception type/message, the frame list of the formatted traceback,
and the model's cleaned traceback (cases.v, vm_compute).  Oracle = the property text.
"""
from __future__ import annotations

import json
import re
from pathlib import Path

from .. import common as C
from .. import progen
from ..common import Corr, Violation
from . import c05

TRANSLATORS = ['tb_funs', 'hook_order_child', 'skip_list']

TRUSTED_BASE = [
    'translator translate/tb_funs.py: the Gallina transcription of _remove_frame / clean_exception (x2) / the except branch of '
    '_compile_and_run is pinned to the ast of those functions (any edit breaks the tie)',
    'reference execution harness/reference.py (plain exec / call of the same program in the same interpreter) and harness/child.py',
    'modelled, not verified (CPython guarantee): a trace function only observes -- stdout, return value and exceptions of the program '
    'do not depend on the trace function; validated differentially on every run',
    'classification of traceback frames by file name (user script / runner.py / compose.py / spawned/utils.py / other nextline+pluggy / library)',
]
ASSUMPTIONS = [
    'PARTIAL: equality of standard output and return value with the untraced execution is validated on generated programs, not proved',
    'programs do not print __name__ (by design the script module is named nextline.spawned.plugin.plugins._script under nextline, __main__ when '
    'executed directly; an `if __name__ == "__main__"` block does not run under nextline) -- progen.ENV_OBSERVATIONS',
    'per-thread output is compared up to the last newline written (C13: output is reported in whole lines)',
    'the raw traceback of an escaping exception is the runner frame followed by the traceback of the direct execution',
]

NEXTLINE_FILE = re.compile(r'/nextline/|/apluggy/|/pluggy/|/exceptiongroup/')


class InterruptPolicy:
    """answers the first `after` prompts with `cmd`, then simulates Ctrl-C (SIGINT to the main thread) while the
    next prompt is open.

    Synchronisation: CPython notices a signal that arrives while a thread is blocked in lock.acquire() (queue.get())
    through EINTR; a signal that arrives in the few instructions BEFORE the thread blocks only sets a flag and the
    thread then sleeps for ever (measured: 3 % of the runs under load when the signal was sent immediately on
    OnStartPrompt).  Therefore: the signal is sent from a helper thread after a grace period, and sent again as long
    as no further event of the run has been seen (a second signal interrupts the blocked acquire, and the pending
    handler then raises KeyboardInterrupt)."""

    GRACE = 0.05
    RESEND_EVERY = 1.0
    MAX_SIGNALS = 8

    def __init__(self, args):
        self.n = args.get('after', 1)
        self.cmd = args.get('cmd', 'next')
        self.grace = args.get('grace', self.GRACE)
        self.k = 0
        self.done = False
        self.nevents = 0
        self.sent = 0
        self.open_prompt = None

    def on_event(self, ev, put):
        self.nevents += 1
        if ev['type'] != 'OnStartPrompt':
            return
        if self.k < self.n or self.done:
            self.k += 1
            put(ev['trace_no'], ev['prompt_no'], self.cmd)
        else:
            self.done = True
            self.open_prompt = [ev['event'], ev['line_no']]
            import threading
            threading.Thread(target=self._interrupt, args=(self.nevents,), daemon=True).start()

    def _interrupt(self, seen):
        import signal
        import threading
        import time
        time.sleep(self.grace)
        for _ in range(self.MAX_SIGNALS):
            if self.nevents != seen:
                return              # the run has moved on: the interrupt was taken
            signal.pthread_kill(threading.main_thread().ident, signal.SIGINT)
            self.sent += 1
            time.sleep(self.RESEND_EVERY)

    def summary(self):
        return {'signals_sent': self.sent, 'open_prompt': self.open_prompt}


def make_policy(args):
    return InterruptPolicy(args)


def parse_tb(fmt: str) -> list:
    return [[m.group(1), int(m.group(2)), m.group(3)] for m in re.finditer(r'^  File "([^"]*)", line (\d+), in (.*)$', fmt or '', re.M)]


def exc_head(fmt: str) -> tuple:
    lines = [l for l in (fmt or '').splitlines() if l and not l.startswith(' ')]
    last = lines[-1] if lines else ''
    m = re.match(r'^([A-Za-z_][A-Za-z0-9_.]*)(: (.*))?$', last)
    return (m.group(1).split('.')[-1], m.group(3) or '') if m else ('', '')


def fclass(file: str, sfile_norm) -> int:
    if sfile_norm(file) == '<script>' or file == progen.LIB_FILE:
        return 0 if sfile_norm(file) == '<script>' else 5
    if file.endswith('/nextline/spawned/runner.py'):
        return 1
    if file.endswith('/plugins/compose.py'):
        return 2
    if file.endswith('/nextline/spawned/utils.py'):
        return 3
    if file.endswith('/plugins/global_.py'):
        return 6
    if NEXTLINE_FILE.search(file):
        return 4
    return 5


def gen_jobs(rng, tier: str) -> list:
    jobs = []
    pols = [p for p, _ in c05.POLICIES]

    def mk(src_of, name, form, pol, tt, tm, block=None):
        j = {'src': src_of(True, form == 'callable'), 'form': form, 'trace_threads': tt, 'trace_modules': tm,
             'policy': c05.policy_of(pol, rng), 'pol': pol, 'reference': True, 'timeout': 40, 'name': name}
        if block is not None:
            j['block'] = progen.to_json(block)
        jobs.append(j)

    for i, (name, src) in enumerate(progen.FIXED):
        for k, form in enumerate(c05.FORMS[:3]):
            if name == 'syntax-error' and form == 'code':
                continue                # a code object cannot be built from it
            mk(lambda p, r, s=src: s, 'fixed:' + name, form, pols[(i + k) % len(pols)], True, k == 2)
    # programs that reveal how the code is compiled / exec'd (compiler flags, globals, interpreter flags): source text and
    # path on every run (nextline compiles these itself), code object / callable in rotation
    for i, (name, src) in enumerate(progen.ENV_PROGRAMS):
        for k, form in enumerate(['str', 'path', c05.FORMS[2 + i % 2]]):
            mk(lambda p, r, s=src: s, name, form, pols[(i + 2 * k) % len(pols)], True, (i + k) % 4 == 3)
    # scripts given as a path that import what lies next to them, with the import environment of an application that also
    # lists the script's directory (and a same-named module in front of it) on sys.path
    for i, (name, src, siblings, shadows) in enumerate(progen.IMPORT_PROGRAMS):
        for k in range(2):
            mk(lambda p, r, s=src: s, name, 'path', pols[(i + 3 * k) % len(pols)], True, k == 1)
            jobs[-1].update(siblings=siblings, shadows=shadows)
    # programs ending with an uncaught SyntaxError-family exception raised at run time by the user's code
    for i, (name, src) in enumerate(progen.RT_SYNTAX_PROGRAMS):
        for k, form in enumerate(['str', 'path', c05.FORMS[2 + i % 2]]):
            mk(lambda p, r, s=src: s, name, form, pols[(i + k) % len(pols)], (i + k) % 5 != 4, (i + k) % 4 == 1)
    # corpus/C04/*.json: known findings, run on every run
    d = C.CORPUS / 'C04'
    for p in sorted(d.glob('*.json')) if d.exists() else []:
        cj = json.loads(p.read_text())
        j = cj['job']
        jobs.append({'src': j['src'], 'form': j['form'], 'trace_threads': j['trace_threads'], 'trace_modules': j['trace_modules'], 'pol': 'interrupt',
                     'policy': {'kind': 'custom', 'module': 'harness.props.c04', 'func': 'make_policy',
                                'args': {'after': j['interrupt_after'], 'cmd': j['cmd']}},
                     'reference': True, 'timeout': 15, 'name': 'corpus:' + p.stem, 'interrupt': True, 'expect': cj.get('expect') or []})
    # Ctrl-C while a prompt is open
    for i, (after, cmd) in enumerate([(0, 'next'), (2, 'step'), (3, 'next'), (4, 'step')]):
        src = 'def f(a):\n    b = a + 1\n    return b\nx = f(1)\ny = f(x)\nprint(y)\n'
        jobs.append({'src': src, 'form': c05.FORMS[i % 3], 'trace_threads': True, 'trace_modules': False, 'pol': 'interrupt',
                     'policy': {'kind': 'custom', 'module': 'harness.props.c04', 'func': 'make_policy', 'args': {'after': after, 'cmd': cmd}},
                     'reference': True, 'timeout': 15, 'name': f'interrupt{i}', 'interrupt': True})
    max_size, nrand = (2, 50) if tier == 'quick' else (3, 1500)
    blocks = list(progen.enumerate_programs(max_size))
    if tier == 'quick':
        small = [b for b in blocks if progen.size_of(b) == 1]
        two = [b for b in blocks if progen.size_of(b) == 2]
        blocks = small + two[rng.randrange(3)::3]
    blocks = [(f'enum{i}', b) for i, b in enumerate(blocks)] + [(f'rand{i}', progen.random_program(rng, rng.randint(4, 14))) for i in range(nrand)]
    for i, (name, b) in enumerate(blocks):
        mk(lambda p, r, b=b: progen.render(b, p, r), name, c05.FORMS[(i + 1) % 4], pols[(i // 3 + i) % len(pols)], i % 4 != 3, i % 3 == 1, b)
    return jobs


def upto_nl(t: str) -> str:
    return t[:t.rfind('\n') + 1]


def oracle(job: dict, res: dict, ref: dict) -> tuple[list, tuple]:
    """-> ([(signature, what)], coq case (kind, raw, obs) | None)"""
    bad = []
    sfile = ref['script_file']

    def nf(f):
        return c05.norm_file(f, sfile)

    fmt_all = res.get('fmt_exc') or ''
    # traceback.format_exception prints the __context__ / __cause__ chain first; the exception itself is the last section
    sections = re.split(r'\n(?:During handling of the above exception, another exception occurred:|'
                        r'The above exception was the direct cause of the following exception:)\n\n', fmt_all)
    fmt = sections[-1]
    chained = '\n'.join(sections[:-1])
    tb = parse_tb(fmt)
    etype, emsg = exc_head(fmt)
    obs_cls = [fclass(f, nf) for f, _, _ in tb]
    if job.get('interrupt'):
        if etype != 'KeyboardInterrupt':
            bad.append(('interrupt:not-a-keyboard-interrupt', f'Ctrl-C while a prompt was open: result is {etype or "no exception"}'))
        prompts = [e for e in res.get('events', []) if e['type'] == 'OnStartPrompt']
        at = prompts[-1]['event'] if prompts else '?'
        if any(c in (1, 2, 3, 4, 6) for c in obs_cls) or (obs_cls and obs_cls[0] != 0):
            nl = [[f, n] for f, _, n in tb if NEXTLINE_FILE.search(f)]
            bad.append(('interrupt:nextline-frames-in-traceback:prompt-at-call-event' if at == 'call' else 'traceback:nextline-frames',
                        f'Ctrl-C while the prompt of a {at!r} event was open: the traceback of the KeyboardInterrupt contains {len(nl)} '
                        f'Nextline/pluggy frames after the user\'s frames, first {nl[:2]} (local_.clean_exception cuts at the first WithContext '
                        f'frame; a call event reaches WithContext through global_.py and pluggy)'))
        ctx_frames = [f for f, _, _ in parse_tb(chained) if NEXTLINE_FILE.search(f)]
        if ctx_frames:
            bad.append(('interrupt:nextline-frames-in-chained-context',
                        f'Ctrl-C while a prompt was open: the traceback of the KeyboardInterrupt is the user\'s ({[[l, n] for _, l, n in tb]}), but the '
                        f'formatted exception (RunResult.fmt_exc) first prints its __context__ -- the original KeyboardInterrupt -- with '
                        f'{len(ctx_frames)} Nextline/pluggy frames, e.g. {ctx_frames[0]} (clean_exception cleans exc.__traceback__ only)'))
        k = next((i for i, c in enumerate(obs_cls) if c not in (0, 5)), len(obs_cls))
        user = obs_cls[:k]
        # the raw traceback: runner, the program's stack, then -- at a call event -- global_.py, pluggy, global_.py, pluggy,
        # local_.py, and in every case WithContext's frames, pluggy, prompt.py, queue/threading
        entry = [6, 4, 4, 4, 4, 6, 4, 4, 4, 4, 4] if at == 'call' else []
        return bad, ((2, [1] + user + entry + [3, 3, 5, 5, 5, 4, 4, 4, 5, 5], obs_cls) if user else None)
    # ---- return value
    if (res.get('ret') or 'None') != (ref.get('ret') or 'None') and not ref.get('exc_type'):
        bad.append(('return-value-differs', f'returned {res.get("ret")} under nextline, {ref.get("ret")} directly'))
    # ---- exception
    if (etype or None) != ref.get('exc_type'):
        bad.append(('exception-differs', f'uncaught exception {etype or None} under nextline, {ref.get("exc_type")} directly'))
    elif etype:
        want = [[nf(f), l, n] for f, l, n, _ in ref['tb']]
        got = [[nf(f), l, n] for f, l, n in tb]
        ref_msg = exc_head(ref.get('fmt_exc') or '')[1]          # the last line of the formatted exception, both sides
        if emsg != ref_msg:
            bad.append(('exception-message-differs', f'{etype}: {emsg!r} under nextline, {ref_msg!r} directly'))
        if any(NEXTLINE_FILE.search(f) for f, _, _ in tb):
            bad.append(('traceback:nextline-frames', f'the traceback contains Nextline frames: {[f for f, _, _ in tb if NEXTLINE_FILE.search(f)]}'))
        elif got and got[0][0] != '<script>':
            bad.append(('traceback:does-not-start-in-user-code', f'first traceback frame is {got[0]}'))
        if got != want and not any(NEXTLINE_FILE.search(f) for f, _, _ in tb):
            bad.append(('traceback-differs', f'traceback frames {got[:8]} under nextline, {want[:8]} directly'))
    # ---- standard output
    whole_ref = ''.join(t for _, t in ref['stdout'])
    concurrent = 'block' in job and progen.kinds_of(progen.block_from_json(job['block'])) & {'Threads2', 'Tasks2'}
    if not concurrent and (res.get('stdout') or '') != whole_ref:
        bad.append(('stdout-differs', f'standard output {(res.get("stdout") or "")[:120]!r} under nextline, {whole_ref[:120]!r} directly'))
    elif concurrent and sorted(res.get('stdout') or '') != sorted(whole_ref):
        bad.append(('stdout-differs', 'standard output has different content'))
    per = c05.ref_streams(ref)
    traces = c05.real_traces(res)
    match, _ = c05.match_traces(job, ref, per, traces)
    by_trace: dict = {}
    for e in res.get('events', []):
        if e['type'] == 'OnWriteStdout':
            by_trace[e['trace_no']] = by_trace.get(e['trace_no'], '') + e['text']
    by_stream: dict = {}
    for s, t in ref['stdout']:
        by_stream[s] = by_stream.get(s, '') + t
    if not (job['form'] == 'callable' and not job['trace_modules']):
        for s, t in match.items():
            w = upto_nl(by_stream.get(s, ''))
            if by_trace.get(t, '') != w:
                bad.append(('per-thread-stdout-differs', f'{ref["streams"][s]["key"]} (trace {t}) reported {by_trace.get(t, "")[:100]!r}, wrote {w[:100]!r}'))
    # ---- model case
    case = None
    if etype and etype == ref.get('exc_type'):
        family = etype in ('SyntaxError', 'IndentationError', 'TabError')         # isinstance(exc, SyntaxError)
        if family and not ref['tb']:
            case = (1, [1, 4, 4, 2, 2], obs_cls)          # the statement itself does not compile: raised by compile() in compose.py
        else:
            # raised at run time from the user's code, whatever its class: runner frame + the traceback of the direct execution
            user = ref['script_module']
            case = (1 if family else 0, [1] + [0 if m == user else 5 for _, _, _, m in ref['tb']], obs_cls)
    return bad, case


def run(ctx, jobs: list, corr: Corr, seen: set) -> None:
    from .. import child
    strip = ('block', 'name', 'pol', 'interrupt', 'expect')
    results = child.run_jobs([{k: v for k, v in j.items() if k not in strip} for j in jobs], par=14, chunk=8)
    # infrastructure failures (time-outs under load, a worker that died): run again, the last time one at a time;
    # a job that succeeds on a retry is an ordinary job
    for attempt, (par, chunk) in enumerate([(6, 2), (1, 1)]):
        redo = [i for i, r in enumerate(results) if r.get('error') or not r.get('reference')]
        if not redo:
            break
        ctx.log(f'retry {attempt + 1}: {len(redo)} job(s): ' + ', '.join(f'{jobs[i]["name"]}:{results[i].get("error")}' for i in redo[:5]))
        again = child.run_jobs([dict({k: v for k, v in jobs[i].items() if k not in strip}, id=f'r{attempt}_{i}') for i in redo], par=par, chunk=chunk)
        for i, r in zip(redo, again):
            if not (r.get('error') or not r.get('reference')) or attempt == 1:
                results[i] = r
        corr.extra['retried_jobs'] = corr.extra.get('retried_jobs', 0) + len(redo)
    hist = corr.extra.setdefault('shapes', {'jobs': 0, 'by_policy': {}, 'by_form': {}, 'with_exception': 0, 'with_stdout': 0, 'with_return_value': 0,
                                            'threads_or_tasks': 0, 'syntax_errors': 0, 'interrupts': 0, 'failed_runs': 0})
    cases, src = [], []
    for ji, (job, res) in enumerate(zip(jobs, results)):
        ref = res.get('reference')
        if str(res.get('error') or '').startswith('build:') or str((res.get('reference') or {}).get('error') or '').startswith('build:'):
            # the harness could not even build the statement (its own wrapper): never a disagreement between model and implementation
            corr.extra['harness_build_failures'] = corr.extra.get('harness_build_failures', 0) + 1
            ctx.notes.append(f'harness build failure, job {job["name"]} ({job["form"]}): {res.get("error")}')
            ctx.log(f'NOTE: harness could not build {job["name"]} ({job["form"]}): {str(res.get("error"))[:160]}')
            continue
        if res.get('error') == 'timeout':
            # three runs of this job did not finish: the program does not terminate under nextline (every generated program
            # terminates when executed directly) -- a finding about the implementation, not a model disagreement
            hist['failed_runs'] += 1
            last = [[e.get('type'), e.get('event'), e.get('line_no')] for e in res.get('events', [])][-6:]
            sig = 'interrupt:run-hangs-after-ctrl-c-at-prompt' if job.get('interrupt') else 'run-does-not-terminate-under-nextline'
            corr.violations.append(Violation(sig, f'[{job["name"]}, {job["form"]}, policy {job["pol"]}] the run did not finish within {job.get("timeout")} s in '
                                                  f'three attempts; last events {last}',
                                             {'job': {k: job[k] for k in ('src', 'form', 'trace_threads', 'trace_modules', 'policy', 'pol', 'name') if k in job},
                                              'interrupt': bool(job.get('interrupt')), 'last_events': last}))
            continue
        if res.get('error') or not ref or ref.get('error'):
            hist['failed_runs'] += 1
            corr.mismatches.append({'kind': 'run-failed', 'error': res.get('error') or (ref or {}).get('error'), 'name': job['name'], 'src': job['src'][:400]})
            continue
        corr.evaluations += 1
        hist['jobs'] += 1
        hist['by_policy'][job['pol']] = hist['by_policy'].get(job['pol'], 0) + 1
        hist['by_form'][job['form']] = hist['by_form'].get(job['form'], 0) + 1
        hist['with_exception'] += int(bool(ref.get('exc_type')))
        hist['with_stdout'] += int(bool(ref.get('stdout')))
        hist['with_return_value'] += int(job['form'] == 'callable' and not ref.get('exc_type'))
        hist['threads_or_tasks'] += int(len(ref['streams']) > 1)
        hist['syntax_errors'] += int(ref.get('exc_type') == 'SyntaxError')
        hist['runtime_syntax_error_family'] = hist.get('runtime_syntax_error_family', 0) + int(ref.get('exc_type') in ('SyntaxError', 'IndentationError', 'TabError') and bool(ref.get('tb')))
        hist['interrupts'] += int(bool(job.get('interrupt')))
        hist['environment_sensitive'] = hist.get('environment_sensitive', 0) + int(job['name'].startswith('env-'))
        hist['interrupt_signals_sent'] = hist.get('interrupt_signals_sent', 0) + ((res.get('policy_summary') or {}).get('signals_sent') or 0)
        key = job['src'] + json.dumps([job['form'], job['pol'], job['trace_threads'], job['trace_modules']])
        if key not in seen:
            seen.add(key)
            if ref.get('stdout') or ref.get('exc_type') or job['form'] == 'callable':
                corr.distinct_nontrivial += 1
        bad, case = oracle(job, res, ref)
        for want in job.get('expect') or []:
            if not any(sig == want for sig, _ in bad):
                ctx.notes.append(f'corpus entry {job["name"]} no longer reproduces the known finding {want}')
                ctx.log(f'NOTE: {job["name"]} does not reproduce {want} any more')
        payload = {'job': {k: job[k] for k in ('src', 'form', 'trace_threads', 'trace_modules', 'policy', 'pol', 'name') if k in job},
                   'interrupt': bool(job.get('interrupt'))}
        for sig, what in bad:
            corr.violations.append(Violation(sig, f'[{job["name"]}, {job["form"]}, policy {job["pol"]}, trace_threads={job["trace_threads"]}, '
                                                  f'trace_modules={job["trace_modules"]}] {what}',
                                             dict(payload, fmt_exc=(res.get('fmt_exc') or '')[-1500:], reference_exc=ref.get('fmt_exc', '')[-1500:])))
        if case is not None:
            cases.append(case)
            src.append(ji)
        if len(corr.samples) < 4 and ref.get('exc_type') and ji % 5 == 0:
            corr.samples.append({'program': job['src'][:300], 'form': job['form'], 'policy': job['pol'], 'exception': ref['exc_type'],
                                 'traceback_frames': parse_tb(res.get('fmt_exc') or '')[:6]})
    files = {}
    for i in range(0, len(cases), 400):
        rows = [f'({k}%nat, [{";".join(f"{x}%nat" for x in raw)}], [{";".join(f"{x}%nat" for x in obs)}])' for k, raw, obs in cases[i:i + 400]]
        files[f'tb_{i // 400}'] = ('From NL Require Import Tb.Model.\nDefinition cases : list (nat * list nat * list nat) :=\n ['
                                   + ';\n  '.join(rows) + '].\nEval vm_compute in bad_from 0%nat cases.\n')
    out = ctx.coq_eval_many(files)
    for name, (ok, log) in out.items():
        badl = C.parse_nat_list(log) if ok else None
        if badl is None:
            corr.mismatches.append({'kind': 'coq-eval-failed', 'file': name, 'log': log[-600:]})
            continue
        base = int(name.split('_')[1]) * 400
        for b in badl:
            job = jobs[src[base + b]]
            corr.mismatches.append({'kind': 'traceback-model-vs-real', 'case': cases[base + b], 'name': job['name'], 'src': job['src'][:600],
                                    'fmt_exc': (results[src[base + b]].get('fmt_exc') or '')[-800:]})
    corr.traces_validated += len(cases)
    corr.extra['traceback_cases'] = corr.extra.get('traceback_cases', 0) + len(cases)


def correspond(ctx) -> Corr:
    corr = Corr()
    corr.rule = ('generated programs (progen) x form x resuming policy x flags, traced by the real nextline.spawned.main vs executed directly: '
                 'stdout (whole, per thread/task), return value, exception type/message, traceback frame list; cleaned-traceback model vs fmt_exc. '
                 'distinct = distinct (program, form, policy, flags); non-trivial = the program prints, raises or returns a value')
    seen: set = set()
    jobs = gen_jobs(ctx.rng, ctx.tier)
    ctx.log(f'{len(jobs)} jobs')
    run(ctx, jobs, corr, seen)
    corr.violations.sort(key=lambda v: (len(v.data.get('job', {}).get('src', '')), v.signature))
    corr.extra['programs_skipped_at_generation'] = progen.SKIPPED['invalid_programs']
    ctx.log(f'jobs={corr.evaluations} traceback cases={corr.traces_validated} mismatches={len(corr.mismatches)} oracle hits={len(corr.violations)}')
    return corr


def search(ctx, broken) -> list:
    corr = Corr()
    rng = ctx.rng
    jobs = gen_jobs(rng, 'quick')
    for i in range(800):
        b = progen.random_program(rng, rng.randint(2, 12))
        jobs.append({'src': progen.render(b, True, i % 4 == 3), 'form': c05.FORMS[i % 4], 'trace_threads': i % 5 != 4, 'trace_modules': i % 3 == 2,
                     'policy': c05.policy_of(c05.POLICIES[i % 6][0], rng), 'pol': c05.POLICIES[i % 6][0], 'reference': True, 'timeout': 40,
                     'name': f'search{i}', 'block': progen.to_json(b)})
    run(ctx, jobs, corr, set())
    corr.violations.sort(key=lambda v: (len(v.data.get('job', {}).get('src', '')), v.signature))
    return corr.violations


def replay(ctx, path: Path) -> int:
    from .. import child
    j = json.loads(Path(path).read_text())
    job = dict(j['job'], reference=True, timeout=40)
    if j.get('interrupt'):
        job['interrupt'] = True
    res = child.run_jobs([{k: v for k, v in job.items() if k not in ('name', 'pol', 'interrupt')}])[0]
    print('program:\n' + job['src'])
    print(f'form={job["form"]} policy={job.get("pol")} trace_threads={job["trace_threads"]} trace_modules={job["trace_modules"]}')
    ref = res.get('reference')
    if not ref:
        print('run failed:', res.get('error'))
        return 2
    print('under nextline: ret', res.get('ret'), 'stdout', repr(res.get('stdout')), '\n' + (res.get('fmt_exc') or ''))
    print('directly      : ret', ref.get('ret'), 'stdout', repr(''.join(t for _, t in ref['stdout'])), '\n' + (ref.get('fmt_exc') or ''))
    bad, _ = oracle(job, res, ref)
    for sig, what in bad:
        print('VIOLATION', sig, '--', what)
    want = j.get('signature')
    return 1 if any(s == want for s, _ in bad) or (bad and not want) else 0
