"""C09 -- the subprocess emits a well-formed, properly nested event stream.

Model: coq/theories/Events/Grammar.v (grammar WF + proved recogniser wf) and
Events/Emitter.v (the emitter: structured actor programs, counters, interleaving).
Theorems: Props/C09.v.

Tie: generated programs (straight-line, loops, functions, generators, classes,
exceptions, threads, asyncio tasks) are run by the REAL nextline.spawned.main
in-process (harness/child.py) under generated command policies (step / next /
continue / return / until / random / Pdb statements that keep the command loop
open / decoy commands addressed to wrong prompts and traces).  Every real event
stream is
  (a) checked by `oracle_stream`, a direct Python statement of the property text
      (regular expression over the per-trace kinds + number checks), and
  (b) written into cases.v and decided by the PROVED recogniser inside Coq
      (vm_compute), together with one random truncation (wf_prefix must accept, wf
      must reject) and one random corruption (recogniser and oracle must agree);
  (c) parsed into per-trace structured programs + the schedule of emissions and
      replayed by the emitter model (Events/Emitter.v): the model must emit exactly
      the real stream.
"""
from __future__ import annotations

import json
import re
from pathlib import Path

from .. import child
from .. import common as C
from ..common import Corr, Violation, clist, cz

# The statement trees of the emitter (Repeater, Factory._context, TraceCallHandler, TaskAndThreadKeeper,
# TaskOrThreadToTraceMapper, CmdloopHook, PromptFunc, CustomizedPdb.cmdloop, count.py, registration order) are
# regenerated from /repo on every run into Gen/EmitterSkel.v; Events/Interp.v interprets them under the structured
# actor programs and schedules of Events/Emitter.v and Events/Tie.v proves the simulation (C09_tie_* in Props/C09.v).
TRANSLATORS = ['emitter_skeleton']

TRUSTED_BASE = [
    'translate/emitter_skeleton.py (ast -> terms of Events/Syntax.v; fail closed: an unrecognised statement or expression in a '
    'translated function aborts the translation.  Dropped without a trace: docstrings, logger calls whose arguments call nothing, '
    'bare annotations, timestamps.  asserts are translated (the interpreter raises).  PINS by source shape inside the translator '
    '(not theorems): the event dataclasses of nextline/events.py and TraceCallInfo.__post_init__; the bodies of local_.Factory/_factory, '
    'pdb_.Factory/_factory (StdInOut / CustomizedPdb wiring), PromptFunc, CmdloopHook, LocalTraceFunc.local_trace_func, '
    'CustomizedPdb._cmdloop / __init__, PdbInstanceFactory; the done-callback wiring of TaskAndThreadKeeper.context/_on_start '
    '(SExt tags); class bases, class members, decorators, defaults, init/__init__ bindings, module-level statements of the translated '
    'files; no other queue_out putter in nextline/spawned)',
    'the meaning Events/Interp.v gives to the trees: generator-based context managers stacked as apluggy does (trusted, not '
    'translated); derived fields of TraceCallInfo; one label = up to and including the next counter call / queue put, then on to '
    'the next point where settrace / Pdb decide; the environment: filtered() at a trace call, `with _context(..): trace()`, '
    'cmdloop iff the item has a command loop, _prompt_func per prompt, _on_end by the done-callback',
    'EXCEPTIONS: the interpreter behind C09_tie_same_stream raises nothing but an explicit raise / a failing assert (try/finally = '
    'sequencing there).  C09_tie_end_in_finally_* and C09_tie_handler_removes_in_finally cover, for each generator hook on its own, '
    'an exception thrown into it at its first yield.  Not covered: exceptions raised by a hook\'s own statements, by the entry of a '
    'later-stacked context manager, by hook.prompt; KeyboardInterrupt through catch() in _context; the unwinding order of apluggy',
    'correspondence harness harness/props/c09.py + harness/child.py, child_worker.py (program/policy generators, '
    'event-to-term encoding: payloads interned to integers)',
    'modelled, not verified: Python `with`/`finally`, generator-based context managers, sys.settrace discipline and '
    'Pdb.cmdloop supply the structured actor programs of Events/Emitter.v (a trace call is a `with` block; a command '
    'loop reads at least one command); checked on every run by replaying each real stream in the emitter model',
    'itertools.count.__next__ is atomic (counters of nextline/count.py); queue.Queue.put is atomic and FIFO',
]
ASSUMPTIONS = [
    'the stream is observed as the sequence of objects put on the outgoing queue of nextline.spawned.main (run in-process '
    'with queue.Queue, as the repository tests do)',
    'command policies: resuming commands next/step/return/until/continue, non-resuming Pdb statements (p, assignment, '
    'where, list, args), decoy commands with wrong prompt/trace numbers; Pdb commands that open a nested interpreter '
    '(commands/debug/interact) are outside the quantifier and only used by the widened search',
]

KINDS = ['OnStartTrace', 'OnEndTrace', 'OnStartTraceCall', 'OnEndTraceCall', 'OnStartCmdloop', 'OnEndCmdloop',
         'OnStartPrompt', 'OnEndPrompt', 'OnWriteStdout']
LETTER = {'OnStartTrace': 'T', 'OnEndTrace': 't', 'OnStartTraceCall': 'C', 'OnEndTraceCall': 'c',
          'OnStartCmdloop': 'L', 'OnEndCmdloop': 'l', 'OnStartPrompt': 'P', 'OnEndPrompt': 'p', 'OnWriteStdout': 'w'}

# ---------------------------------------------------------------- program generator


class ProgGen:
    """Grammar-based generator of small terminating Python programs."""

    def __init__(self, rng, allow_threads=True, allow_async=True):
        self.rng = rng
        self.n = 0
        self.imports = set()
        self.allow_threads = allow_threads
        self.allow_async = allow_async
        self.tags = set()

    def name(self, p='v'):
        self.n += 1
        return f'{p}{self.n}'

    def expr(self, vars_):
        r = self.rng
        if vars_ and r.random() < 0.6:
            v = r.choice(vars_)
            return r.choice([f'{v} + {r.randint(1, 5)}', f'{v} * 2', v, f'({v}, {r.randint(0, 9)})', f'[{v}] * 2'])
        return r.choice([str(r.randint(0, 99)), repr(r.choice(['a', 'bc', ''])), '[1, 2, 3]', 'None', '1 + 2'])

    def block(self, depth, vars_, ind, toplevel=False):
        """Returns a list of source lines."""
        r = self.rng
        kinds = ['assign', 'assign', 'print', 'loop', 'if', 'func', 'exc', 'gen', 'cls', 'lam', 'while', 'comp']
        if toplevel and self.allow_threads:
            kinds += ['thread', 'thread']
        if toplevel and self.allow_async:
            kinds += ['async', 'async']
        if depth >= 2:
            kinds = ['assign', 'print', 'assign']
        k = r.choice(kinds)
        self.tags.add(k)
        p = '    ' * ind
        if k == 'assign':
            v = self.name()
            out = [f'{p}{v} = {self.expr(vars_)}']
            vars_.append(v)
            return out
        if k == 'print':
            return [f'{p}print({self.expr(vars_)!s})']
        if k == 'loop':
            i = self.name('i')
            body = self.blocks(depth + 1, vars_ + [i], ind + 1, r.randint(1, 2))
            return [f'{p}for {i} in range({r.randint(0, 3)}):'] + body
        if k == 'while':
            i = self.name('w')
            body = self.blocks(depth + 1, vars_ + [i], ind + 1, 1)
            return [f'{p}{i} = {r.randint(0, 2)}', f'{p}while {i} > 0:'] + body + [f'{p}    {i} -= 1']
        if k == 'if':
            a = self.blocks(depth + 1, list(vars_), ind + 1, 1)
            b = self.blocks(depth + 1, list(vars_), ind + 1, 1)
            return [f'{p}if {r.choice(["True", "False", "1 > 2", "len([1]) == 1"])}:'] + a + [f'{p}else:'] + b
        if k == 'func':
            f = self.name('f')
            a = self.name('a')
            body = self.blocks(depth + 1, [a], ind + 1, r.randint(1, 2))
            calls = [f'{p}{self.name()} = {f}({r.randint(0, 5)})' for _ in range(r.randint(1, 2))]
            rec = []
            if r.random() < 0.25:
                rec = [f'{p}    if {a} > 0:', f'{p}        return {f}({a} - 1)']
            return [f'{p}def {f}({a}):'] + rec + body + [f'{p}    return {a}'] + calls
        if k == 'exc':
            e = self.name('e')
            body = self.blocks(depth + 1, list(vars_), ind + 1, 1)
            fin = [f'{p}finally:', f'{p}    print("fin")'] if r.random() < 0.5 else []
            exc = r.choice(['ValueError', 'KeyError', 'ZeroDivisionError'])
            raiser = '1 / 0' if exc == 'ZeroDivisionError' else f'raise {exc}("x")'
            return [f'{p}try:'] + body + [f'{p}    {raiser}', f'{p}except {exc} as {e}:', f'{p}    print("caught", type({e}).__name__)'] + fin
        if k == 'gen':
            g = self.name('g')
            x = self.name('x')
            return [f'{p}def {g}(n):', f'{p}    for k in range(n):', f'{p}        yield k * 2',
                    f'{p}for {x} in {g}({r.randint(0, 3)}):', f'{p}    print({x})']
        if k == 'cls':
            c = self.name('K')
            o = self.name('o')
            return [f'{p}class {c}:', f'{p}    z = 1', f'{p}    def __init__(self, q):', f'{p}        self.q = q',
                    f'{p}    def m(self):', f'{p}        return self.q + self.z', f'{p}{o} = {c}({r.randint(0, 9)})', f'{p}print({o}.m())']
        if k == 'lam':
            l = self.name('l')
            return [f'{p}{l} = lambda y: y + 1', f'{p}print({l}({r.randint(0, 9)}))']
        if k == 'comp':
            v = self.name()
            vars_.append(v)
            return [f'{p}{v} = [q * q for q in range({r.randint(0, 4)})]']
        if k == 'thread':
            self.imports.add('threading')
            f = self.name('tf')
            ts = self.name('ts')
            n = r.randint(1, 3)
            body = self.blocks(depth + 1, ['n'], ind + 1, r.randint(1, 2))
            boom = [f'{p}    raise RuntimeError("in thread")'] if r.random() < 0.12 else []
            lines = [f'{p}def {f}(n):'] + body + [f'{p}    print("t", n)'] + boom
            lines += [f'{p}{ts} = [threading.Thread(target={f}, args=(k,)) for k in range({n})]',
                      f'{p}for t_ in {ts}:', f'{p}    t_.start()']
            # always joined: a script that ends while an un-joined thread is at a prompt never finishes
            # (the command relay is stopped when the main thread leaves the context) -- a hang, not a
            # malformed stream; reported separately
            lines += [f'{p}for t_ in {ts}:', f'{p}    t_.join()']
            return lines
        if k == 'async':
            self.imports.add('asyncio')
            co = self.name('co')
            mn = self.name('amain')
            n = r.randint(1, 3)
            body = self.blocks(depth + 1, ['n'], ind + 1, 1)
            boom = [f'{p}    if n == 1:', f'{p}        raise ValueError("in task")'] if r.random() < 0.12 else []
            lines = [f'{p}async def {co}(n):', f'{p}    await asyncio.sleep(0)'] + body + boom + [f'{p}    print("c", n)', f'{p}    return n']
            style = r.choice(['gather', 'tasks', 'seq'])
            lines += [f'{p}async def {mn}():']
            if style == 'gather':
                lines += [f'{p}    r_ = await asyncio.gather(*[{co}(k) for k in range({n})], return_exceptions=True)', f'{p}    print(len(r_))']
            elif style == 'tasks':
                lines += [f'{p}    ts_ = [asyncio.create_task({co}(k)) for k in range({n})]', f'{p}    for t_ in ts_:',
                          f'{p}        try:', f'{p}            await t_', f'{p}        except ValueError:', f'{p}            pass']
            else:
                lines += [f'{p}    for k in range({n}):', f'{p}        try:', f'{p}            await {co}(k)',
                          f'{p}        except ValueError:', f'{p}            pass']
            lines += [f'{p}asyncio.run({mn}())']
            return lines
        raise AssertionError(k)

    def blocks(self, depth, vars_, ind, n, toplevel=False):
        out = []
        for _ in range(n):
            out += self.block(depth, vars_, ind, toplevel)
        return out

    def program(self, nblocks):
        body = self.blocks(0, [], 0, nblocks, toplevel=True)
        if self.rng.random() < 0.15:
            body.append(self.rng.choice(['raise KeyError("uncaught")', 'x_ = 1 / 0', 'undefined_name_']))
            self.tags.add('uncaught')
        head = [f'import {m}' for m in sorted(self.imports)]
        return '\n'.join(head + body) + '\n'


RESUMING = ['next', 'step', 'return', 'until', 'continue']
STATEMENTS = ['p 1', 'zz_ = 1', 'where', 'list', 'args', 'p zz_']


def gen_policy(rng, jid):
    k = rng.random()
    if k < 0.40:
        return {'kind': 'all', 'cmd': rng.choice(RESUMING)}
    if k < 0.60:
        return {'kind': 'random', 'seed': rng.randrange(10 ** 6), 'cmds': RESUMING}
    if k < 0.80:
        return {'kind': 'random', 'seed': rng.randrange(10 ** 6), 'cmds': RESUMING + STATEMENTS}
    return {'kind': 'custom', 'module': 'harness.props.c09', 'func': 'make_policy',
            'args': {'seed': rng.randrange(10 ** 6), 'cmds': RESUMING + STATEMENTS[:3]}}


class DecoyPolicy:
    """Runs inside the child worker: every genuine answer is surrounded by decoy commands
    (stale / future prompt number, another live trace, unknown trace)."""

    def __init__(self, args):
        import random
        self.rng = random.Random(args.get('seed', 0))
        self.cmds = args.get('cmds', RESUMING)
        self.live = set()
        self.ndecoys = 0

    def on_event(self, ev, put):
        t = ev['type']
        if t == 'OnStartTrace':
            self.live.add(ev['trace_no'])
        elif t == 'OnEndTrace':
            self.live.discard(ev['trace_no'])
        elif t == 'OnStartPrompt':
            tn, pn = ev['trace_no'], ev['prompt_no']
            r = self.rng
            for _ in range(r.randint(0, 3)):
                kind = r.choice(['stale', 'future', 'other', 'unknown', 'zero'])
                self.ndecoys += 1
                if kind == 'stale':
                    put(tn, pn - r.randint(1, 3), 'zz_ = 777')
                elif kind == 'future':
                    put(tn, pn + r.randint(1, 3), 'continue')
                elif kind == 'other':
                    others = sorted(self.live - {tn})
                    if others:
                        put(r.choice(others), pn, 'zz_ = 778')
                elif kind == 'unknown':
                    put(1000 + r.randint(0, 5), pn, 'continue')
                else:
                    put(tn, 0, 'quit')
            put(tn, pn, r.choice(self.cmds))
            if r.random() < 0.3:
                self.ndecoys += 1
                put(tn, pn, 'zz_ = 779')     # duplicate of an answered prompt

    def summary(self):
        return {'decoys': self.ndecoys}


def make_policy(args):
    return DecoyPolicy(args)


def gen_job(rng, jid, tier):
    g = ProgGen(rng, allow_threads=True, allow_async=True)
    src = g.program(rng.randint(1, 4))
    pol = gen_policy(rng, jid)
    tm = rng.random() < 0.12
    if tm and (pol.get('cmd') == 'step' or pol['kind'] != 'all') and tier == 'quick':
        tm = False           # step into library code: thousands of events per stream (thorough tier only)
    form = rng.choice(['str', 'str', 'str', 'path', 'code', 'callable'])
    if form == 'callable' and ('import' in src):
        form = 'str'
    if form == 'callable':
        tm = True            # the callable lives in its own module: nothing is traced otherwise
    return {'id': jid, 'src': src, 'form': form, 'trace_threads': rng.random() < 0.85, 'trace_modules': tm,
            'run_no': rng.choice([1, 1, 2, 7]), 'policy': pol, 'timeout': 25, 'tags': sorted(g.tags)}


FIXED = [
    ('x = 1\n', {'kind': 'all', 'cmd': 'next'}),
    ('import threading\ndef f():\n    print("a")\nt = threading.Thread(target=f)\nt.start()\nt.join()\nprint(1)\n', {'kind': 'all', 'cmd': 'step'}),
    ('import asyncio\nasync def co(n):\n    await asyncio.sleep(0)\n    print(n)\nasync def main():\n    t = asyncio.create_task(co(1))\n'
     '    await asyncio.gather(co(2), co(3))\n    await t\nasyncio.run(main())\n', {'kind': 'all', 'cmd': 'step'}),
    ('def g(x):\n    raise ValueError(x)\ng(2)\n', {'kind': 'all', 'cmd': 'step'}),
    ('x = 1\ny = 2\n', {'kind': 'seq', 'cmds': ['p x', 'x = 5', 'where', 'next', 'quit'], 'then': 'continue'}),
]

# ---------------------------------------------------------------- oracle (direct statement of the property)

TRACE_RE = re.compile(r'^T(C(L(Pp)+l)?c)*t$')


def oracle_stream(run_no: int, events: list[dict]) -> list[tuple[str, str]]:
    """The property text, on a complete stream.  Returns (signature, what) per failed clause."""
    bad = []
    # every event carries the run's number
    for i, e in enumerate(events):
        if e.get('run_no') != run_no:
            bad.append(('run-number', f'event {i} {e["type"]} carries run_no {e.get("run_no")}, the run is {run_no}'))
            break
    per: dict = {}
    for i, e in enumerate(events):
        per.setdefault(e.get('trace_no'), []).append((i, e))
    for tn, evs in per.items():
        # nothing of a trace before its start or after its end; stdout only in between
        if evs[0][1]['type'] != 'OnStartTrace':
            bad.append(('before-start', f'trace {tn}: first event is {evs[0][1]["type"]} (index {evs[0][0]}), not its start'))
            continue
        if evs[-1][1]['type'] != 'OnEndTrace':
            bad.append(('after-end-or-unended', f'trace {tn}: last event is {evs[-1][1]["type"]} (index {evs[-1][0]}), not its end'))
            continue
        core = [e for _, e in evs if e['type'] != 'OnWriteStdout']
        word = ''.join(LETTER[e['type']] for e in core)
        if not TRACE_RE.match(word):
            bad.append(('nesting', f'trace {tn}: kinds {word!r} are not start, calls (each with at most one command loop of one or more prompts), end'))
            continue
        # every start has its matching end with the same numbers
        cur_call = None
        cur_prompt = None
        for e in core:
            ty = e['type']
            if ty == 'OnStartTraceCall':
                cur_call = e['trace_call_no']
            elif ty in ('OnEndTraceCall', 'OnStartCmdloop', 'OnEndCmdloop', 'OnStartPrompt', 'OnEndPrompt'):
                if e['trace_call_no'] != cur_call:
                    bad.append(('numbers-mismatch', f'trace {tn}: {ty} carries trace_call_no {e["trace_call_no"]} inside trace call {cur_call}'))
                    break
                if ty == 'OnStartPrompt':
                    cur_prompt = e['prompt_no']
                elif ty == 'OnEndPrompt' and e['prompt_no'] != cur_prompt:
                    bad.append(('numbers-mismatch', f'trace {tn}: OnEndPrompt {e["prompt_no"]} closes prompt {cur_prompt}'))
                    break
        # numbers increase within the trace
        cs = [e['trace_call_no'] for e in core if e['type'] == 'OnStartTraceCall']
        ps = [e['prompt_no'] for e in core if e['type'] == 'OnStartPrompt']
        if any(a >= b for a, b in zip(cs, cs[1:])):
            bad.append(('not-increasing', f'trace {tn}: trace-call numbers {cs} do not increase'))
        if any(a >= b for a, b in zip(ps, ps[1:])):
            bad.append(('not-increasing', f'trace {tn}: prompt numbers {ps} do not increase'))
    # numbers are unique within the run
    for ty, field, label in (('OnStartTrace', 'trace_no', 'trace'), ('OnStartTraceCall', 'trace_call_no', 'trace-call'),
                             ('OnStartPrompt', 'prompt_no', 'prompt')):
        nos = [e[field] for e in events if e['type'] == ty]
        if len(set(nos)) != len(nos):
            dup = sorted({n for n in nos if nos.count(n) > 1})
            bad.append(('not-unique', f'{label} numbers {dup} are handed out more than once in the run'))
    return bad


def nontrivial(events) -> bool:
    return any(e['type'] == 'OnStartCmdloop' for e in events)


# ---------------------------------------------------------------- Coq terms

class Intern:
    def __init__(self):
        self.m = {}

    def __call__(self, x) -> int:
        k = json.dumps(x, sort_keys=True, default=str)
        if k not in self.m:
            self.m[k] = len(self.m) + 1
        return self.m[k]


def ev_term(e: dict, it: Intern) -> str:
    ty = e['type']
    r, t = cz(e['run_no']), cz(e['trace_no'] if e.get('trace_no') is not None else -1)
    if ty == 'OnStartTrace':
        return f'A {r} {t} {cz(it(["pl", e.get("thread_no"), e.get("task_no")]))}'
    if ty == 'OnEndTrace':
        return f'B {r} {t}'
    if ty == 'OnStartTraceCall':
        return (f'D {r} {t} {cz(e["trace_call_no"])} {cz(it(["fid", e.get("frame_object_id")]))} '
                f'{cz(it(["info", e.get("file_name"), e.get("line_no"), e.get("event")]))}')
    if ty == 'OnEndTraceCall':
        return f'E {r} {t} {cz(e["trace_call_no"])}'
    if ty == 'OnStartCmdloop':
        return f'F {r} {t} {cz(e["trace_call_no"])}'
    if ty == 'OnEndCmdloop':
        return f'G {r} {t} {cz(e["trace_call_no"])}'
    if ty == 'OnStartPrompt':
        return f'H {r} {t} {cz(e["trace_call_no"])} {cz(e["prompt_no"])} {cz(it(["txt", e.get("prompt_text")]))}'
    if ty == 'OnEndPrompt':
        return f'I {r} {t} {cz(e["trace_call_no"])} {cz(e["prompt_no"])} {cz(it(["cmd", e.get("command")]))}'
    if ty == 'OnWriteStdout':
        return f'J {r} {t} {cz(it(["txt", e.get("text")]))}'
    raise ValueError(ty)


ALIASES = ('Notation A := StartTrace. Notation B := EndTrace. Notation D := StartTraceCall. Notation E := EndTraceCall.\n'
           'Notation F := StartCmdloop. Notation G := EndCmdloop. Notation H := StartPrompt. Notation I := EndPrompt.\n'
           'Notation J := WriteStdout.\n')


def events_term(events, it=None) -> str:
    it = it or Intern()
    return clist(ev_term(e, it) for e in events)


def wf_cases_file(cases) -> str:
    """cases: list of (which, run_no, events, expected_bool); which in {'wf', 'wfp'}"""
    rows = []
    for which, r, evs, exp in cases:
        rows.append(f'(({"true" if which == "wf" else "false"}, {cz(r)}, {events_term(evs)}), {"true" if exp else "false"})')
    return ('From NL Require Import Events.Grammar.\nOpen Scope Z_scope.\n' + ALIASES +
            'Definition cases : list ((bool * Z * list event) * bool) :=\n ' + clist(rows).replace('); ((', ');\n ((') + '.\n'
            'Eval vm_compute in bad_from (fun c : bool * Z * list event => let \'(w, r, es) := c in if w then wf r es else wf_prefix r es) 0%nat cases.\n')


# ---- emitter replay: structured programs + schedule extracted from a real stream

def extract_programs(events):
    """Parse a stream accepted by the oracle into per-trace structured programs (in order of the
    start events) and a schedule for the emitter model.  Returns None when a number was taken
    in one order and emitted in another (the schedule then needs the finer micro-steps)."""
    order = []
    progs: dict = {}
    it = Intern()
    for e in events:
        tn = e['trace_no']
        ty = e['type']
        if ty == 'OnStartTrace':
            order.append(tn)
            progs[tn] = {'pl': it(['pl', e.get('thread_no'), e.get('task_no')]), 'items': []}
        elif ty == 'OnStartTraceCall':
            progs[tn]['items'].append(['call', it(['fid', e.get('frame_object_id')]),
                                       it(['info', e.get('file_name'), e.get('line_no'), e.get('event')]), None])
        elif ty == 'OnStartCmdloop':
            progs[tn]['items'][-1][3] = []
        elif ty == 'OnStartPrompt':
            progs[tn]['items'][-1][3].append([it(['txt', e.get('prompt_text')]), None])
        elif ty == 'OnEndPrompt':
            progs[tn]['items'][-1][3][-1][1] = it(['cmd', e.get('command')])
        elif ty == 'OnWriteStdout':
            progs[tn]['items'].append(['out', it(['txt', e.get('text')])])
    return order, progs, it


def build_schedule(events, order):
    """Schedule (list of actor indices) for Events/Emitter.v under which the model emits exactly
    `events`.  An actor step either takes a number from a shared counter or puts one event.
    Constraints: puts in stream order; the takes of each counter in the order of the numbers;
    a take after the actor's previous put and before the put that carries the number.  Takes
    are performed as late as possible (lazy), which is complete for these constraints.
    Actors are indexed by trace number (the order in which trace numbers were taken).
    Returns None if no such schedule exists."""
    kind_of = {'OnStartTrace': ('t', 'trace_no'), 'OnStartTraceCall': ('c', 'trace_call_no'), 'OnStartPrompt': ('p', 'prompt_no')}
    takes = {'t': [], 'c': [], 'p': []}
    prev_put = {}
    lastseen: dict = {}
    for i, e in enumerate(events):
        prev_put[i] = lastseen.get(e['trace_no'], -1)
        lastseen[e['trace_no']] = i
        if e['type'] in kind_of:
            k, f = kind_of[e['type']]
            takes[k].append((e[f], i))
    for k in takes:
        takes[k].sort()
        if [n for n, _ in takes[k]] != list(range(1, len(takes[k]) + 1)):
            return None             # counters start at 1 and every number taken is eventually put
    ptr = {'t': 0, 'c': 0, 'p': 0}
    taken = set()
    sched = []
    for i, e in enumerate(events):
        if e['type'] in kind_of:
            k, _ = kind_of[e['type']]
            while i not in taken:
                if ptr[k] >= len(takes[k]):
                    return None
                _, j = takes[k][ptr[k]]
                if prev_put[j] >= i:
                    return None
                sched.append(events[j]['trace_no'] - 1)
                taken.add(j)
                ptr[k] += 1
        sched.append(e['trace_no'] - 1)
    return sched


def prog_term(p) -> str:
    items = []
    for it_ in p['items']:
        if it_[0] == 'out':
            items.append(f'IOut {cz(it_[1])}')
        else:
            _, fid, info, loop = it_
            if loop is None:
                items.append(f'ICall {cz(fid)} {cz(info)} None')
            else:
                ps = [f'({cz(a)}, {cz(b if b is not None else 0)})' for a, b in loop]
                items.append(f'ICall {cz(fid)} {cz(info)} (Some ({ps[0]}, {clist(ps[1:])}))')
    return f'(mkProg {cz(p["pl"])} {clist(items)})'


def emitter_cases_file(cases) -> str:
    """cases: (run_no, [programs in actor order], schedule, events-with-the-same-interning)"""
    rows = []
    for r, progs, sched, evs_term in cases:
        rows.append(f'({cz(r)}, {clist(prog_term(p) for p in progs)}, {clist(f"{s}%nat" for s in sched)}, {evs_term})')
    return ('From NL Require Import Events.Grammar Events.Emitter.\nOpen Scope Z_scope.\n' + ALIASES +
            'Definition cases : list (Z * list prog * list nat * list event) :=\n ' + clist(rows).replace('); ((', ');\n ((') + '.\n'
            'Eval vm_compute in emit_bad_from 0%nat cases.\n')


# ---------------------------------------------------------------- corruption of real streams

def corrupt(rng, events):
    """One local corruption of a real stream (the result may or may not still be well formed;
    recogniser and oracle must agree on it)."""
    evs = [dict(e) for e in events]
    if len(evs) < 3:
        return evs[:-1]
    k = rng.choice(['drop', 'dup', 'swap', 'renumber', 'run', 'retrace', 'move'])
    i = rng.randrange(len(evs))
    if k == 'drop':
        del evs[i]
    elif k == 'dup':
        evs.insert(i, dict(evs[i]))
    elif k == 'swap':
        j = min(i + 1, len(evs) - 1)
        evs[i], evs[j] = evs[j], evs[i]
    elif k == 'renumber':
        for f in ('prompt_no', 'trace_call_no'):
            if f in evs[i]:
                evs[i][f] = evs[i][f] + rng.choice([-1, 1, 50])
                break
    elif k == 'run':
        evs[i]['run_no'] = evs[i]['run_no'] + 1
    elif k == 'retrace':
        evs[i]['trace_no'] = (evs[i]['trace_no'] or 0) + rng.choice([1, -1, 40])
    else:
        e = evs.pop(i)
        evs.insert(rng.randrange(len(evs) + 1), e)
    return evs


# ---------------------------------------------------------------- main entry points

MAX_EVENTS_COQ = 2500


def _check_streams(ctx, jobs, results, corr: Corr, with_emitter=True):
    rng = ctx.rng
    wf_cases = []          # (which, r, events, expected) + bookkeeping
    meta = []
    em_cases = []
    em_meta = []
    hist_kinds: dict = {}
    hist_traces: dict = {}
    hist_pol: dict = {}
    hist_tags: dict = {}
    seen = set()
    n_streams = 0
    n_em_skipped = 0
    for job, res in zip(jobs, results):
        evs = res.get('events') or []
        r = job.get('run_no', 1)
        pol = job['policy']
        pk = pol['kind'] + (':' + pol.get('cmd', '') if pol['kind'] == 'all' else '') + (':decoy' if pol['kind'] == 'custom' else '') + \
            (':stmts' if pol['kind'] == 'random' and len(pol.get('cmds', [])) > 5 else '')
        hist_pol[pk] = hist_pol.get(pk, 0) + 1
        if res.get('error'):
            corr.extra.setdefault('job_errors', []).append({'id': job['id'], 'error': str(res['error'])[:200]})
            if res.get('error') == 'timeout' and evs:
                # a hung run is a truncated stream: the prefix recogniser must accept it
                wf_cases.append(('wfp', r, evs[:MAX_EVENTS_COQ], True)); meta.append(('timeout-prefix', job, None))
            continue
        n_streams += 1
        for e in evs:
            hist_kinds[e['type']] = hist_kinds.get(e['type'], 0) + 1
        nt = sum(1 for e in evs if e['type'] == 'OnStartTrace')
        hist_traces[str(nt)] = hist_traces.get(str(nt), 0) + 1
        for tg in job.get('tags', []):
            hist_tags[tg] = hist_tags.get(tg, 0) + 1
        key = json.dumps([job['src'], pol, job.get('trace_threads'), job.get('trace_modules'), job.get('form')], sort_keys=True)
        if key not in seen:
            seen.add(key)
            if nontrivial(evs):
                corr.distinct_nontrivial += 1
        # (a) the oracle
        bad = oracle_stream(r, evs)
        for sig, what in bad:
            corr.violations.append(Violation(f'stream:{sig}', what, {
                'job': {k: v for k, v in job.items() if k != 'tags'}, 'events': _brief(evs), 'n_events': len(evs)}))
        # (b) the proved recogniser
        if len(evs) <= MAX_EVENTS_COQ:
            wf_cases.append(('wf', r, evs, not bad)); meta.append(('real', job, None))
            if evs:
                n = rng.randrange(len(evs))
                wf_cases.append(('wfp', r, evs[:n], True)); meta.append(('prefix-accepted', job, n))
                if not bad:
                    wf_cases.append(('wf', r, evs[:n], n == 0)); meta.append(('prefix-incomplete', job, n))
                cor = corrupt(rng, evs)
                wf_cases.append(('wf', r, cor, not oracle_stream(r, cor))); meta.append(('corrupted', job, _brief(cor)))
        else:
            corr.extra['streams_too_long_for_coq'] = corr.extra.get('streams_too_long_for_coq', 0) + 1
        # (c) the emitter model
        if with_emitter and not bad and evs and len(evs) <= MAX_EVENTS_COQ:
            order, progs, it = extract_programs(evs)
            sched = build_schedule(evs, order)
            if sched is None:
                n_em_skipped += 1
            else:
                em_cases.append((r, [progs[t] for t in sorted(order)], sched, events_term(evs, _SameIntern(it))))
                em_meta.append(job)
    corr.evaluations += n_streams
    files = {}
    CH = 60
    for i in range(0, len(wf_cases), CH):
        files[f'wf_{i // CH}'] = wf_cases_file(wf_cases[i:i + CH])
    ECH = 40
    if with_emitter and (C.THEORIES / 'Events' / 'Emitter.v').exists():
        for i in range(0, len(em_cases), ECH):
            files[f'em_{i // ECH}'] = emitter_cases_file(em_cases[i:i + ECH])
    res = ctx.coq_eval_many(files, timeout=900)
    for name, (ok, out) in res.items():
        kind, n = name.split('_')
        bad = C.parse_nat_list(out) if ok else None
        if bad is None:
            corr.mismatches.append({'kind': 'coq-eval-failed', 'file': name, 'log': out[-800:]})
            continue
        for b in bad:
            if kind == 'wf':
                which, r, evs, exp = wf_cases[int(n) * CH + b]
                m = meta[int(n) * CH + b]
                corr.mismatches.append({'kind': f'recogniser-vs-expected:{m[0]}', 'which': which, 'expected': exp, 'run_no': r,
                                        'job': {k: v for k, v in m[1].items() if k != 'tags'}, 'detail': m[2], 'events': _brief(evs)[:80]})
            else:
                job = em_meta[int(n) * ECH + b]
                corr.mismatches.append({'kind': 'emitter-model-vs-real-stream', 'job': {k: v for k, v in job.items() if k != 'tags'}})
    corr.extra.update({
        'streams': n_streams, 'recogniser_cases': len(wf_cases), 'emitter_replays': len(em_cases),
        'emitter_replays_skipped_no_schedule': n_em_skipped,
        'event_kind_histogram': hist_kinds, 'traces_per_stream': hist_traces, 'policy_histogram': hist_pol,
        'program_feature_histogram': hist_tags,
    })
    return corr


class _SameIntern:
    """use the interning table of extract_programs so that payload numbers coincide"""

    def __init__(self, it):
        self.it = it

    def __call__(self, x):
        return self.it(x)


def _brief(evs):
    out = []
    for e in evs:
        s = LETTER[e['type']] + str(e.get('trace_no'))
        if 'trace_call_no' in e:
            s += '.' + str(e['trace_call_no'])
        if 'prompt_no' in e:
            s += '.' + str(e['prompt_no'])
        if e.get('run_no') != 1:
            s += '@' + str(e.get('run_no'))
        out.append(s)
    return out


def make_jobs(ctx, n):
    rng = ctx.rng
    jobs = []
    for src, pol in FIXED:
        jobs.append({'id': len(jobs), 'src': src, 'form': 'str', 'trace_threads': True, 'trace_modules': False, 'run_no': 1,
                     'policy': pol, 'timeout': 25, 'tags': ['fixed']})
    for p in load_corpus():
        p = dict(p); p['id'] = len(jobs); p.setdefault('tags', ['corpus']); jobs.append(p)
    while len(jobs) < n:
        jobs.append(gen_job(rng, len(jobs), ctx.tier))
    return jobs


def correspond(ctx) -> Corr:
    corr = Corr()
    corr.rule = ('each case = one generated program (blocks: assignments, loops, if, def/calls/recursion, try/except/finally, '
                 'generators, classes, lambdas, threads, asyncio tasks, uncaught exceptions) x one command policy x '
                 'trace_threads/trace_modules/statement form/run number, run by the real nextline.spawned.main; '
                 'distinct = distinct (program, policy, options); non-trivial = the stream contains at least one command loop')
    n = 160 if ctx.tier == 'quick' else 2500
    jobs = make_jobs(ctx, n)
    results = child.run_jobs(jobs, par=12, chunk=10)
    ctx.log(f'{len(jobs)} programs run; {sum(len(r.get("events") or []) for r in results)} events')
    _check_streams(ctx, jobs, results, corr)
    good = [(j, r) for j, r in zip(jobs, results) if not r.get('error')]
    if good:
        j, r = good[len(good) // 2]
        corr.samples.append({'program': j['src'], 'policy': j['policy'], 'stream': _brief(r['events'])[:60]})
    errs = corr.extra.get('job_errors', [])
    if len(errs) > max(3, len(jobs) // 20):
        corr.mismatches.append({'kind': 'too-many-job-errors', 'errors': errs[:5]})
    return corr


def search(ctx, broken) -> list:
    """Wider hunt: more programs, and Pdb commands outside the documented policies."""
    rng = ctx.rng
    jobs = [gen_job(rng, i, 'thorough') for i in range(600)]
    special = ['commands 1', 'debug 1', 'interact', 'quit', '', 'jump 1', 'break 1', 'tbreak 2', 'restart', 'run']
    for i in range(80):
        g = ProgGen(rng)
        src = g.program(rng.randint(1, 3))
        jobs.append({'id': len(jobs), 'src': src, 'form': rng.choice(['str', 'path']), 'trace_threads': True, 'trace_modules': False, 'run_no': 1,
                     'policy': {'kind': 'random', 'seed': i, 'cmds': RESUMING + STATEMENTS + special}, 'timeout': 15, 'tags': ['special']})
    results = child.run_jobs(jobs, par=12, chunk=10)
    out = []
    for j, r in zip(jobs, results):
        if r.get('error'):
            continue
        for sig, what in oracle_stream(j.get('run_no', 1), r['events']):
            out.append(Violation(f'stream:{sig}', what, {'job': {k: v for k, v in j.items() if k != 'tags'}, 'events': _brief(r['events'])[:200]}))
        if len(out) > 5:
            break
    return out


def load_corpus():
    d = C.CORPUS / 'C09'
    out = []
    if d.exists():
        for p in sorted(d.glob('*.json')):
            j = json.loads(p.read_text())
            if j.get('out_of_scope'):
                continue            # recorded observations outside the property's quantifier: never run by default
            j.pop('note', None)
            out.append(j)
    return out


def replay(ctx, path: Path) -> int:
    j = json.loads(path.read_text())
    job = j['job']
    res = child.run_jobs([dict(job)])[0]
    evs = res.get('events') or []
    print('stream:', ' '.join(_brief(evs)))
    bad = oracle_stream(job.get('run_no', 1), evs) if not res.get('error') else [('job-error', str(res.get('error')))]
    for sig, what in bad:
        print('FAILS:', sig, what)
    print('replay verdict:', 'property violated' if bad else 'property holds on this input')
    return 1 if bad else 0
