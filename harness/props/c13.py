"""C13 -- standard output is captured in whole lines and attributed to the right trace.

Model: coq/theories/Stdout/Model.v over the GENERATED coq/theories/Gen/PeekFuns.v
(translate/purefuns_peek.py: ReadLinesByKey, AssignKey, peek_textio.write); theorems: Props/C13.v.

Tie (every run):
  pure level   -- the real closures ReadLinesByKey / AssignKey / peek_stdout_by_key (around a
                  recording sys.stdout, driven by sys.stdout.write / print / writelines) are called
                  with generated write sequences; the callback sequence and the writes that reach
                  the real stdout are compared with the model evaluated inside Coq (vm_compute);
  system level -- generated programs are run by the REAL nextline.spawned.main (harness/child.py)
                  under several command policies; the OnWriteStdout events of each trace are
                  compared with the model run on the writes of the thread/task behind that trace
                  (legitimate by C13_interleaving_independent), and for sequential programs the
                  whole event sequence and the real stdout are compared with the model.
Oracle: the property text, directly on the observed events / callbacks (independent of the model).
"""
from __future__ import annotations

import io
import json
import sys
from pathlib import Path

from .. import common as C
from ..common import Corr, Violation, clist

TRANSLATORS = ['purefuns_peek', 'debugger_stream']

TRUSTED_BASE = [
    'translator translate/purefuns_peek.py (ast -> Gallina for ReadLinesByKey, AssignKey, peek_textio.write) and the '
    'vocabulary coq/theories/Stdout/Prim.v giving the meaning of str +, endswith, in, rindex, slicing, defaultdict get/set/pop, truthiness',
    'translator translate/debugger_stream.py (ast -> statement trees of StdInOut.__init__/write/flush/readline, Factory._factory, '
    'CustomizedPdb.__init__, peek_textio and its wrapper, peek_stdout, peek_stdout_by_key, Repeater.on_write_stdout; Gen/DebuggerStream.v) '
    'and the interpreter of those trees in coq/theories/Stdout/DebugTie.v (semantics of the small statement language, of the factory terms '
    'and of the two-sink labels).  pdb.Pdb / cmd.Cmd are NOT translated: that they write only to the stdout they were constructed with '
    'and never rebind sys.stdout are HYPOTHESES of the theorems (no_sys_write, no_swap on the label list); both are false of CPython 3.12 '
    '(help pdb / interact; Pdb.default): C13_*_refuted_* witnesses, reproduced on every run by FIXED_TWOSINK_FINDINGS (real Pdb objects) and '
    'run_findings (real nextline.spawned.main) and compared with the model labels LDbgSysWrite / LSwapOn / LSwapOff; CustomizedPdb may define '
    'only __init__/_cmdloop/cmdloop/set_continue (translator fails closed), their calls are whitelisted in Coq; one Pdb per trace number, '
    'running in that trace (C06); peek_textio try/finally is body-then-finally (no exception inside the with block is modelled); '
    'other_stdout_uses is a syntactic scan (print, sys.stdout/__stdout__, .stdout/.displayhook attributes, import sys as, pprint/pydoc/code, '
    'input/breakpoint/os.write) of nextline/spawned and nextline/utils',
    'hand-written wiring in Stdout/Model.v (peek_stdout_by_key, PeekStdout, Repeater.on_write_stdout); its ast shape is pinned '
    'by the translator and its behaviour is compared with the real code on every run',
    'correspondence harness harness/props/c13.py (program generator, derivation of the write() calls made by print(), '
    'tag-based identification of the trace of a thread/task) and harness/child.py',
    'modelled, not verified: CPython print() writes each argument, separator and terminator with a separate write() call '
    '(checked at the pure level on every run); dict operations on distinct keys from different threads do not interfere (GIL); '
    'current_trace_no() is constant during one write() call',
]
ASSUMPTIONS = [
    'a write is attributed to the thread or asyncio task that executes sys.stdout.write (current_task_or_thread())',
    'a trace number is an int >= 1; code that has no trace number (threads whose target is not script code, threads when '
    'trace_threads is off) is "untraced" and the property does not require its output to be reported',
    'system level: the text of each thread/task is tagged at every line start so that attribution can be checked without a reference run',
    'the pieces reported for a trace are compared per trace (their order relative to other traces is not part of the property)',
]

SIG_LOST_TRAILING = 'lost-line-before-trailing-partial-write'

# ---------------------------------------------------------------- text generation

ASCII = 'abcdefghijklmnopqrstuvwxyzABCDEFGHIJKLMNOPQRSTUVWXYZ0123456789'
PUNCT = ' .,;:!?-_+*/=#@$%&[]{}<\'"\\~^'
EXOTIC = ['\t', '\r', '\x0b', '\x0c', '\x1c', '\x85', ' ', ' ', 'é', 'ü', 'ß', 'Ω', 'ж',
          '中', '文', 'あ', '\U0001F600', '́', '​', '\x00', '\x7f', '﻿', '\U00010348']


def rand_body(rng, maxlen=12, exotic=0.25) -> str:
    """text without '\\n', '|', '(' and '>'"""
    n = rng.choice([0, 1, 1, 2, 3, 5, 8, maxlen])
    out = []
    for _ in range(n):
        r = rng.random()
        if r < exotic:
            out.append(rng.choice(EXOTIC))
        elif r < exotic + 0.15:
            out.append(rng.choice(PUNCT))
        else:
            out.append(rng.choice(ASCII))
    return ''.join(out)


def rand_text(rng) -> str:
    """a single write at the pure level: every newline shape"""
    r = rng.random()
    if r < 0.08:
        return ''
    if r < 0.16:
        return '\n'
    if r < 0.40:
        return rand_body(rng)
    if r < 0.66:
        return rand_body(rng) + '\n'
    if r < 0.76:
        return rand_body(rng) + '\n' + rand_body(rng)
    if r < 0.84:
        return rand_body(rng) + '\n' + rand_body(rng) + '\n'
    if r < 0.90:
        return '\n' * rng.randint(2, 4)
    if r < 0.95:
        return '\n' + rand_body(rng)
    return rand_body(rng) + '\n\n' + rand_body(rng, 4)


KEYS = [None, 0, 1, 1, 1, 2, 2, 3, 7]


def print_writes(args, sep, end):
    """The write() calls CPython's print(*args, sep=sep, end=end) makes (validated on every run)."""
    out = []
    for i, a in enumerate(args):
        if i:
            out.append(' ' if sep is None else sep)
        out.append(a)
    out.append('\n' if end is None else end)
    return out


def op_writes(op) -> list[str]:
    k = op[0]
    if k == 'write':
        return [op[1]]
    if k == 'print':
        return print_writes(op[1], op[2], op[3])
    if k == 'writelines':
        return list(op[1])
    if k == 'yield':
        return []
    raise ValueError(op)


def rand_op(rng):
    r = rng.random()
    if r < 0.6:
        return ['write', rand_text(rng)]
    if r < 0.92:
        n = rng.choice([0, 1, 1, 2, 3])
        args = [rand_body(rng, 6) if rng.random() < 0.85 else rand_text(rng) for _ in range(n)]
        sep = rng.choice([None, None, '', ', ', '\n'])
        end = rng.choice([None, None, None, '', ' ', '\n\n', 'x'])
        return ['print', args, sep, end]
    return ['writelines', [rand_text(rng) for _ in range(rng.randint(0, 3))]]


# ---------------------------------------------------------------- pure level: drivers of the real closures

class Raised(Exception):
    pass


def impl_rlbk(calls):
    from nextline.spawned.plugin.plugins.peek import ReadLinesByKey
    got = []
    f = ReadLinesByKey(lambda k, line: got.append([k, line]))
    for k, s in calls:
        f(k, s)
    return got


def impl_ak(labels):
    from nextline.spawned.plugin.plugins.peek import AssignKey
    got = []
    cur = [None]
    f = AssignKey(key_factory=lambda: cur[0], callback=lambda k, s: got.append([k, s]))
    for a, s in labels:
        cur[0] = a
        f(s)
    return got


class RecStdout:
    def __init__(self):
        self.writes = []

    def write(self, s):
        self.writes.append(s)
        return len(s)

    def flush(self):
        pass

    def writelines(self, lines):
        for l in lines:
            self.write(l)       # what _io._IOBase.writelines does: self.write(line)


def impl_plain(ops):
    """ops: [actor, op]; runs them through the real peek_stdout_by_key around a recording sys.stdout."""
    from nextline.spawned.plugin.plugins.peek import peek_stdout_by_key
    got = []
    cur = [None]
    rec = RecStdout()
    old = sys.stdout
    sys.stdout = rec
    try:
        with peek_stdout_by_key(key_factory=lambda: cur[0], callback=lambda k, line: got.append([k, line])):
            for a, op in ops:
                cur[0] = a
                if op[0] == 'write':
                    sys.stdout.write(op[1])
                elif op[0] == 'print':
                    print(*op[1], sep=op[2], end=op[3])
                elif op[0] == 'writelines':
                    sys.stdout.writelines(op[1])
        restored = sys.stdout.write == rec.write
    finally:
        sys.stdout = old
    return got, rec.writes, restored


def gen_pure_cases(rng, n_each: int, maxlen: int):
    rl, ak, pl = [], [], []
    for _ in range(n_each):
        rl.append([[rng.choice(KEYS), rand_text(rng)] for _ in range(rng.randint(0, maxlen))])
    for _ in range(n_each // 2):
        ak.append([[rng.choice(KEYS), rand_text(rng)] for _ in range(rng.randint(0, maxlen))])
    for _ in range(n_each):
        pl.append([[rng.choice(KEYS), rand_op(rng)] for _ in range(rng.randint(0, maxlen))])
    # long lines and many partial writes
    for n in (2000, 60000):
        body = rand_body(rng, 8) + rng.choice(ASCII) * n + rand_body(rng, 8)
        n = len(body)
        cuts = sorted(rng.randrange(n) for _ in range(12))
        parts = [body[i:j] for i, j in zip([0] + cuts, cuts + [n])]
        pl.append([[1 + (i % 2), ['write', p]] for i, p in enumerate(parts)] + [[1, ['write', '\n']], [2, ['print', [], None, None]]])
    return rl, ak, pl


FIXED_PLAIN = [
    # regression: the line completed in the middle of a write (defect repaired in /repo 7420fde)
    [[1, ['write', 'd\ne']]],
    [[1, ['write', 'a']], [2, ['write', 'x']], [1, ['write', 'b\n']], [2, ['write', 'y\n']]],
    [[1, ['print', ['a', 'b'], None, None]], [None, ['print', ['u'], None, None]], [0, ['write', 'z\n']]],
    [[1, ['write', 'd\ne']], [1, ['write', 'f\n']]],
]


def exhaustive_plain(maxlen: int):
    """all write sequences up to maxlen over 2 actors x 5 texts (every newline shape)"""
    import itertools
    alpha = [(a, t) for a in (1, 2) for t in ('', 'a', '\n', 'a\n', 'a\nb')] + [(None, 'u\n')]
    for n in range(0, maxlen + 1):
        for seq in itertools.product(alpha, repeat=n):
            yield [[a, ['write', t]] for a, t in seq]


# ---------------------------------------------------------------- Coq terms

def ckey(k) -> str:
    return 'None' if k is None else f'(Some ({int(k)}))'


def ctext(s: str) -> str:
    """list of code points; long runs of one character as `rp count char`, long literals in chunks
    (a single very long list literal overflows the stack of coqc)"""
    import re
    segs = []
    pos = 0
    for m in re.finditer(r'(.)\1{39,}', s, re.S):
        if m.start() > pos:
            segs.append(('lit', s[pos:m.start()]))
        segs.append(('rp', len(m.group(0)), m.group(1)))
        pos = m.end()
    if pos < len(s) or not segs:
        segs.append(('lit', s[pos:]))
    parts = []
    for sg in segs:
        if sg[0] == 'rp':
            parts.append(f'rp {sg[1]} {ord(sg[2])}')
        else:
            t = sg[1]
            for i in range(0, max(len(t), 1), 1000):
                parts.append('[' + ';'.join(str(ord(c)) for c in t[i:i + 1000]) + ']')
    if len(parts) == 1 and parts[0].startswith('['):
        return parts[0]
    return '(' + ' ++ '.join(f'({x})' if not x.startswith('[') else x for x in parts) + ')'


def ccalls(cs) -> str:
    return clist(f'({ckey(k)},{ctext(s)})' for k, s in cs)


HEADER = 'From NL Require Import Stdout.Model.\nOpen Scope Z_scope.\n'
T_KT = 'list (option Z * list Z)'


def file_rlbk(cases) -> str:
    rows = [f'({ccalls(i)},\n  {ccalls(o)})' for i, o in cases]
    return (HEADER + f'Definition cases : list ({T_KT} * {T_KT}) :=\n ' + clist(rows) + '.\n'
            'Eval vm_compute in bad_from calls_eqb (fun i => rlbk_run (cs_of i)) 0%nat (map (fun c => (fst c, cs_of (snd c))) cases).\n')


def file_ak(cases) -> str:
    rows = [f'({ccalls(i)},\n  {ccalls(o)})' for i, o in cases]
    return (HEADER + f'Definition cases : list ({T_KT} * {T_KT}) :=\n ' + clist(rows) + '.\n'
            'Eval vm_compute in bad_from calls_eqb (fun i => ak_run (ls_of i)) 0%nat (map (fun c => (fst c, cs_of (snd c))) cases).\n')


def file_plain(cases, fn='plain_run') -> str:
    rows = [f'({ccalls(i)},\n  ({ccalls(o)}, {clist(map(ctext, r))}))' for i, o, r in cases]
    f = 'fun i => plain_run (ls_of i)' if fn == 'plain_run' else 'full_run'
    return (HEADER + f'Definition cases : list ({T_KT} * ({T_KT} * list (list Z))) :=\n ' + clist(rows) + '.\n'
            f'Eval vm_compute in bad_from obs_eqb ({f}) 0%nat '
            '(map (fun c => (fst c, (cs_of (fst (snd c)), ts_of (snd (snd c))))) cases).\n')


def file_pieces(cases) -> str:
    rows = [f'(({ckey(a)}, {clist(map(ctext, ws))}),\n  {clist(map(ctext, ps))})' for a, ws, ps in cases]
    return (HEADER + 'Definition cases : list ((option Z * list (list Z)) * list (list Z)) :=\n ' + clist(rows) + '.\n'
            'Eval vm_compute in bad_from texts_eqb pieces_run 0%nat (map (fun c => (fst c, ts_of (snd c))) cases).\n')


# ---------------------------------------------------------------- the property oracle (independent of the model)

def upto_last_nl(t: str) -> str:
    return t[:t.rfind('\n') + 1]


def oracle_writer(name, traced: bool, writes: list[str], pieces: list[str]):
    """The property for one thread/task: `writes` = what it wrote (in order), `pieces` = what was
    reported for it (in order).  Returns [(signature, what)]."""
    bad = []
    W = ''.join(writes)
    R = ''.join(pieces)
    if not traced:
        if pieces:
            bad.append(('untraced-output-reported', f'{name} has no trace number but {pieces[:3]!r} was reported as script output'))
        return bad
    for p in pieces:
        if not p.endswith('\n'):
            bad.append(('piece-not-ending-at-newline', f'{name}: reported piece {p[:60]!r} does not end at a line end'))
            break
    want = upto_last_nl(W)
    if R == want:
        return bad
    if want.startswith(R):
        flushed = ''
        acc = ''
        for w in writes:
            acc += w
            if w.endswith('\n'):
                flushed = acc
        lost = want[len(R):]
        if R == flushed:
            bad.append((SIG_LOST_TRAILING,
                        f'{name} wrote {W[-80:]!r}; the complete line(s) {lost[:80]!r} were never reported: the last write that '
                        f'contains a newline does not end with it, reported text stops at {R[-40:]!r}'))
        else:
            bad.append(('lost-output', f'{name}: {lost[:80]!r} was written (up to the last newline) but never reported'))
    elif W.startswith(R):
        bad.append(('reported-beyond-last-newline', f'{name}: reported {R[-60:]!r} goes beyond the last newline written'))
    else:
        bad.append(('not-exactly-once-in-order', f'{name}: reported text {R[:80]!r} is not a prefix of what it wrote {W[:80]!r}'))
    return bad


def oracle_plain(ops, got, real):
    """pure level: keys >= 1 are traces, None is untraced, key 0 is not a trace number (no claim)."""
    bad = []
    writes: dict = {}
    allw = []
    for a, op in ops:
        ws = op_writes(op)
        writes.setdefault(a, []).extend(ws)
        allw += ws
    pieces: dict = {}
    for k, line in got:
        pieces.setdefault(k, []).append(line)
    for k in set(writes) | set(pieces):
        if k == 0:
            continue
        bad += oracle_writer(f'key {k}', k is not None, writes.get(k, []), pieces.get(k, []))
    if ''.join(real) != ''.join(allw):
        bad.append(('real-stdout-incomplete', f'real stdout received {"".join(real)[:80]!r}, written {"".join(allw)[:80]!r}'))
    return bad


# ---------------------------------------------------------------- two-sink level: script writes and debugger writes interleaved

PDB_PROMPT = '(Pdb) '


class _FakeGen:
    def send(self, value):
        return None


class _FakeCtx:
    gen = _FakeGen()

    def __enter__(self):
        return self

    def __exit__(self, *a):
        return False


class FakeHook:
    """what pdb_/factory.py:PromptFunc / CmdloopHook use of the plugin manager: hook.hook.prompt(..) answers, with_.on_prompt(..)"""

    def __init__(self):
        from types import SimpleNamespace
        self.asked = []          # [trace of the Pdb that asked, text]
        self.cur = None
        self.answer = ''
        self.hook = SimpleNamespace(prompt=self._prompt, is_on_trace_call=lambda: True)
        self.with_ = SimpleNamespace(on_prompt=lambda **kw: _FakeCtx(), on_cmdloop=lambda **kw: _FakeCtx())

    def _prompt(self, prompt_no, text):
        self.asked.append([self.cur, text])
        return self.answer


_TWOSINK_INNER: list = []


def _twosink_inner():
    """executed by the real Pdb.default as a `!statement`: the writes other code makes in that window"""
    for f in _TWOSINK_INNER:
        f()


def impl_twosink(ops):
    """ops: ['S', key, text] the script writes to sys.stdout while current_trace_no() = key;
            ['W', n, text] / ['M', n, text] / ['F', n] / ['R', n, cmd]: the REAL Pdb object the REAL factory built for trace n
            writes text to its stdout / prints a message / flushes / reads a command (answered with cmd);
            ['H', n, topic]: that Pdb executes the command `help <topic>` (pdb.onecmd);
            ['X', n, [[key, text], ...]]: that Pdb executes a Python statement as a command (the real Pdb.default) during
            which the given script writes happen (in the real system: other threads printing in that window).
    Real code: pdb_/factory.py:Factory (-> CustomizedPdb, StdInOut), peek_stdout_by_key around a recording sys.stdout.
    -> callbacks, real writes, prompt-function calls, commands, labels of the two-sink model"""
    import logging
    from nextline.spawned.plugin.plugins.pdb_.factory import Factory
    from nextline.spawned.plugin.plugins.peek import peek_stdout_by_key
    got, cmds, labels = [], [], []
    cur = [None]
    rec = RecStdout()
    hook = FakeHook()
    pdbs: dict = {}
    old = sys.stdout
    sys.stdout = rec
    logging.disable(logging.CRITICAL)
    try:
        with peek_stdout_by_key(key_factory=lambda: cur[0], callback=lambda k, line: got.append([k, line])):
            factory = Factory(hook=hook)

            def pdb_of(n):
                if n not in pdbs:
                    cur[0] = n
                    pdbs[n] = factory().__self__
                return pdbs[n]

            for op in ops:
                if op[0] == 'S':
                    cur[0] = op[1]
                    sys.stdout.write(op[2])
                    labels.append(op)
                    continue
                n = op[1]
                pdb = pdb_of(n)
                cur[0] = n
                hook.cur = n
                labels.extend(twosink_labels([op]) if op[0] in 'WMFR' else [])
                if op[0] == 'W':
                    pdb.stdout.write(op[2])
                elif op[0] == 'M':
                    pdb.message(op[2])
                elif op[0] == 'F':
                    pdb.stdout.flush()
                elif op[0] == 'H':
                    before = len(rec.writes)
                    own = getattr(pdb.stdout, '_prompt_text', '')
                    pdb.onecmd('help ' + op[2])
                    # what reached the real stdout during the command was written to sys.stdout by the debugger,
                    # what its own stream gained was written to the stdout it was constructed with
                    labels.extend(['Y', n, w] for w in rec.writes[before:])
                    now = getattr(pdb.stdout, '_prompt_text', '')
                    if now.startswith(own) and now != own:
                        labels.append(['W', n, now[len(own):]])
                elif op[0] == 'X':
                    def mk(a, t):
                        def f():
                            cur[0] = a
                            sys.stdout.write(t)
                        return f
                    _TWOSINK_INNER[:] = [mk(a, t) for a, t in op[2]]
                    pdb.curframe = sys._getframe()
                    pdb.curframe_locals = {}
                    labels.append(['ON', n])
                    labels.extend(['S', a, t] for a, t in op[2])
                    labels.append(['OFF', n])
                    pdb.default('_twosink_inner()')
                    cur[0] = n
                elif op[0] == 'R':
                    hook.answer = op[2]
                    try:
                        cmds.append([n, pdb.stdin.readline()])
                    except AssertionError:
                        pass
    finally:
        logging.disable(logging.NOTSET)
        sys.stdout = old
    return got, rec.writes, hook.asked, cmds, labels


def twosink_labels(ops):
    out = []
    for op in ops:
        if op[0] == 'M':
            out += [['W', op[1], op[2]], ['W', op[1], '\n']]       # print(msg, file=self.stdout)
        else:
            out.append(op)
    return out


def gen_twosink_cases(rng, n: int, maxlen: int):
    cases = []
    for _ in range(n):
        ops = []
        for _ in range(rng.randint(1, maxlen)):
            r = rng.random()
            if r < 0.45:
                ops.append(['S', rng.choice(KEYS), rand_text(rng)])
                continue
            t = rng.choice([1, 1, 2, 3])
            if r < 0.62:
                ops.append(['W', t, rand_text(rng)])
            elif r < 0.72:
                ops.append(['M', t, rand_body(rng)])
            elif r < 0.77:
                ops.append(['F', t])
            else:
                # mostly what cmd.Cmd.cmdloop does: write the prompt, flush, read
                if rng.random() < 0.8:
                    ops += [['W', t, PDB_PROMPT], ['F', t]]
                ops.append(['R', t, rng.choice(['next', 'step', 'continue', '', rand_body(rng, 5)])])
        cases.append(ops)
    return cases


FIXED_TWOSINK = [
    [['S', 1, 'a'], ['M', 1, '> <string>(1)<module>()'], ['W', 1, PDB_PROMPT], ['F', 1], ['S', 2, 'x\n'], ['M', 2, '> f()'],
     ['R', 1, 'next'], ['S', 1, 'b\n'], ['M', 1, '42'], ['W', 1, PDB_PROMPT], ['R', 1, 'continue'], ['W', 2, PDB_PROMPT], ['R', 2, 'step']],
    [['W', 1, 'no prompt at the end'], ['R', 1, 'x'], ['W', 1, PDB_PROMPT], ['R', 1, 'y']],
    [['S', 1, 'partial'], ['W', 1, 'dbg\n'], ['S', 1, ' line\n']],
]


def file_twosink(cases) -> str:
    def lab(op):
        if op[0] == 'S':
            return f'DS {ckey(op[1])} {ctext(op[2])}'
        if op[0] == 'W':
            return f'DW {int(op[1])} {ctext(op[2])}'
        if op[0] == 'F':
            return f'DF {int(op[1])}'
        if op[0] == 'Y':
            return f'DSW {int(op[1])} {ctext(op[2])}'
        if op[0] == 'ON':
            return f'DON {int(op[1])}'
        if op[0] == 'OFF':
            return f'DOFF {int(op[1])}'
        return f'DR {int(op[1])} {ctext(op[2])}'
    rows = []
    for labels, got, real, asked, cmds in cases:
        rows.append(f'({clist(lab(o) for o in labels)},\n  (({ccalls(got)}, [{ctext("".join(real))}]), ({ccalls(asked)}, {ccalls(cmds)})))')
    t_obs = f'(({T_KT} * list (list Z)) * ({T_KT} * {T_KT}))'
    return ('From NL Require Import Stdout.Model Stdout.DebugTie.\nOpen Scope Z_scope.\n'
            f'Definition cases : list (list dlabel * {t_obs}) :=\n ' + clist(rows) + '.\n'
            'Eval vm_compute in bad_from two_eqb two_run 0%nat '
            '(map (fun c => (fst c, ((cs_of (fst (fst (snd c))), ts_of (snd (fst (snd c)))), '
            '(cs_of (fst (snd (snd c))), cs_of (snd (snd (snd c))))))) cases).\n')


SIG_HELP_PDB = 'debugger-text-reported:help-pdb'
SIG_INTERACT = 'debugger-text-reported:interact-prompt'
SIG_BANG = 'script-output-lost:statement-command-swaps-sys.stdout'


def twosink_script_ops(ops):
    """the SCRIPT's writes of a two-sink case, as ops of oracle_plain: the 'S' ops and, for a statement command of
    trace n, the writes OTHER traces make in its window (what the statement itself prints is command output)"""
    out = []
    for op in ops:
        if op[0] == 'S':
            out.append([op[1], ['write', op[2]]])
        elif op[0] == 'X':
            out += [[a, ['write', t]] for a, t in op[2] if a != op[1]]
    return out


def oracle_twosink(ops, got, real):
    """the property, on the observed behaviour: what is reported and what reaches the real stdout is what the SCRIPT wrote"""
    script = twosink_script_ops(ops)
    bad = oracle_plain(script, got, real)
    if not bad:
        return bad
    what = '; '.join(w for _, w in bad)[:300]
    if any(op[0] == 'H' for op in ops):
        return [(SIG_HELP_PDB, 'the debugger command `help pdb` (pydoc.pager writes to sys.stdout): ' + what)]
    if any(op[0] == 'X' and any(a != op[1] for a, _ in op[2]) for op in ops):
        return [(SIG_BANG, 'a Python statement as a debugger command (Pdb.default binds sys.stdout to its own stream '
                           'process-wide) while another trace writes: ' + what)]
    if len(script) < len(ops):
        g2, r2 = impl_twosink([op for op in ops if op[0] == 'S'])[:2]
        if not oracle_plain(script, g2, r2):
            dbg = ''.join(op[2] for op in twosink_labels(ops) if op[0] == 'W')
            return [('debugger-text-reported', f'with the debugger\'s writes ({dbg[:60]!r}) interleaved: ' + what)]
    return bad


# the two behaviours of CPython's pdb that break the last sentence of C13, against the real Pdb objects
FIXED_TWOSINK_FINDINGS = [
    [['S', 1, 'a\n'], ['W', 1, PDB_PROMPT], ['R', 1, 'help pdb'], ['H', 1, 'pdb'], ['S', 1, 'b\n']],
    [['W', 1, PDB_PROMPT], ['R', 1, '!import time; time.sleep(0.6)'], ['X', 1, [[2, 'T|tick\n']]], ['W', 1, PDB_PROMPT], ['R', 1, 'c'],
     ['S', 2, 'T|tock\n']],
    # not a violation: what the statement itself prints is command output (it goes to the prompt text)
    [['W', 1, PDB_PROMPT], ['R', 1, '!print(1)'], ['X', 1, [[1, '1\n']]], ['W', 1, PDB_PROMPT], ['R', 1, 'c'], ['S', 1, 'x\n']],
    # not a violation: `help` / `help next` go through self.stdout
    [['S', 1, 'a'], ['H', 1, ''], ['H', 1, 'next'], ['S', 1, 'b\n']],
]


def gen_twosink_finding_cases(rng, n: int):
    cases = []
    for i in range(n):
        base = gen_twosink_cases(rng, 1, 8)[0]
        t = rng.choice([1, 2, 3])
        if i % 2 == 0:
            extra = ['H', t, rng.choice(['pdb', 'pdb', 'next', ''])]
        else:
            extra = ['X', t, [[rng.choice([1, 2, 3]), rand_text(rng)] for _ in range(rng.randint(1, 3))]]
        k = rng.randint(0, len(base))
        cases.append(base[:k] + [extra] + base[k:])
    return cases


def run_twosink(ctx, corr: Corr, cases, seen: set):
    obs = []
    hist = corr.extra.setdefault('twosink_shapes', {'cases': 0, 'script_writes': 0, 'debugger_writes': 0, 'readlines': 0,
                                                    'readlines_refused': 0, 'script_line_around_debugger_text': 0})
    for ops in cases:
        try:
            got, real, asked, cmds, labels = impl_twosink(ops)
        except Exception as e:
            corr.mismatches.append({'kind': 'twosink-raised', 'ops': ops, 'exc': repr(e)})
            continue
        obs.append((labels, got, real, asked, cmds))
        key = 'ts' + json.dumps(ops)
        if key not in seen:
            seen.add(key)
            if got and any(o[0] != 'S' for o in ops):
                corr.distinct_nontrivial += 1
        hist['cases'] += 1
        hist['script_writes'] += sum(1 for o in labels if o[0] == 'S')
        hist['debugger_writes'] += sum(1 for o in labels if o[0] == 'W')
        nr = sum(1 for o in labels if o[0] == 'R')
        hist['readlines'] += nr
        hist['readlines_refused'] += nr - len(cmds)
        pend: dict = {}
        for o in labels:
            if o[0] == 'S' and o[1]:
                pend[o[1]] = (pend.get(o[1], False) or bool(o[2])) and not o[2].endswith('\n')
            elif o[0] == 'W' and pend.get(o[1]) and o[2]:
                hist['script_line_around_debugger_text'] += 1
                pend[o[1]] = False
        for sig, what in oracle_twosink(ops, got, real):
            corr.violations.append(Violation(sig, 'two-sink level (real Factory/Pdb/StdInOut + peek_stdout_by_key): ' + what,
                                             {'level': 'twosink', 'ops': ops, 'observed_callbacks': got, 'real': real}))
    files = {}
    CH = 300
    for i in range(0, len(obs), CH):
        files[f'ts_{i // CH}'] = file_twosink(obs[i:i + CH])
    for name, (ok, out) in ctx.coq_eval_many(files).items():
        base = int(name.split('_')[1]) * CH
        badl = C.parse_nat_list(out) if ok else None
        if badl is None:
            corr.mismatches.append({'kind': 'coq-eval-failed', 'file': name, 'log': out[-600:]})
            continue
        for b in badl:
            labels, got, real, asked, cmds = obs[base + b]
            corr.mismatches.append({'kind': 'twosink', 'labels': labels, 'callbacks': got, 'real': real, 'prompts': asked, 'cmds': cmds})
    corr.evaluations += len(obs)
    corr.extra['twosink_cases'] = corr.extra.get('twosink_cases', 0) + len(obs)
    if obs:
        labels, got, real, asked, cmds = obs[0]
        corr.samples.append({'level': 'twosink', 'labels': labels[:14], 'callbacks': got[:6], 'prompts': asked[:4]})


# ---------------------------------------------------------------- system level: program generator

DEBUGGER_MARKS = ['(Pdb)', '> <string>', '-> ']


def make_writer_text(rng, tag: str, cat: str, long_line: int = 0) -> tuple[str, list]:
    """-> (full text, ops).  Every non-empty line starts with the tag; the first line is non-empty.
    cat: 'print'     only print(); every newline written is the end of a write
         'linewise'  print / write / writelines; every newline written is the end of a write
         'embedded'  writes may contain newlines in the middle, but the last newline written ends a write
         'trailing'  the last newline is in the middle of the last newline-containing write"""
    nlines = rng.choice([1, 1, 2, 3, 4, 6])
    lines = []
    for i in range(nlines):
        if i and rng.random() < 0.15:
            lines.append('')
        else:
            lines.append(tag + rand_body(rng, 14))
    if long_line:
        lines[rng.randrange(len(lines))] = tag + rand_body(rng, 6) + rng.choice(ASCII) * long_line + rand_body(rng, 6)
    text = ''.join(l + '\n' for l in lines)
    partial = ''
    if cat == 'trailing' or rng.random() < 0.3:
        partial = tag + rand_body(rng, 5)
        if cat == 'trailing' and partial == tag and rng.random() < 0.5:
            partial = tag + 'e'
    text += partial
    n = len(text)
    last_nl = text.rfind('\n')
    # cut positions (a cut at position p separates text[:p] | text[p:]); duplicates give empty writes
    cuts = set()
    ncuts = rng.choice([0, 1, 2, 3, 5, 8]) if not long_line else rng.choice([2, 5, 9])
    for _ in range(ncuts):
        cuts.add(rng.randint(0, n))
    if cat in ('print', 'linewise'):
        cuts |= {i + 1 for i, c in enumerate(text) if c == '\n'}
    elif cat == 'embedded':
        cuts.add(last_nl + 1)
        if nlines > 1 and rng.random() < 0.7:      # make sure some newline is embedded
            first = text.find('\n')
            cuts.discard(first + 1)
    elif cat == 'trailing':
        cuts.discard(last_nl + 1)
        cuts = {c for c in cuts if not (last_nl < c)} if rng.random() < 0.5 else cuts
        cuts.discard(last_nl + 1)
    cl = sorted(cuts | {0, n})
    chunks = [text[i:j] for i, j in zip(cl, cl[1:])]
    if rng.random() < 0.2:
        chunks.insert(rng.randrange(len(chunks) + 1), '')
    ops = []
    for ch in chunks:
        r = rng.random()
        if cat == 'print':
            r = r * 0.6
        if ch.endswith('\n') and ch.count('\n') == 1 and r < 0.6:
            body = ch[:-1]
            if r < 0.25 and ' ' in body:
                ops.append(['print', body.split(' '), None, None])
            elif r < 0.45 and len(body) > 1:
                k = rng.randrange(1, len(body))
                ops.append(['print', [body[:k], body[k:]], '', None])
            else:
                ops.append(['print', [body], None, None])
        elif '\n' not in ch and r < 0.6:
            ops.append(['print', [ch], None, ''] if (ch or rng.random() < 0.5) else ['print', [], None, ''])
        elif ch.endswith('\n') and r < 0.6 and cat in ('embedded', 'trailing'):
            ops.append(['print', [ch[:-1]], None, None])       # argument with an embedded newline
        elif r > 0.93 and cat not in ('print', 'trailing'):
            k = rng.randrange(0, len(ch) + 1)
            parts = [ch[:k], ch[k:]]
            if cat == 'linewise' and '\n' in parts[0] and not parts[0].endswith('\n'):
                parts = [ch]
            ops.append(['writelines', parts])
        else:
            ops.append(['write', ch])
        if rng.random() < 0.5:
            ops.append(['yield'])
    assert ''.join(w for op in ops for w in op_writes(op)) == text
    return text, ops


def op_src(op, kind: str) -> str:
    k = op[0]
    if k == 'write':
        return f'sys.stdout.write({op[1]!r})'
    if k == 'print':
        a = [repr(x) for x in op[1]]
        if op[2] is not None:
            a.append(f'sep={op[2]!r}')
        if op[3] is not None:
            a.append(f'end={op[3]!r}')
        return f'print({", ".join(a)})'
    if k == 'writelines':
        return f'sys.stdout.writelines({op[1]!r})'
    if k == 'yield':
        return {'task': 'await asyncio.sleep(0)', 'thread': 'time.sleep(0.0003)', 'main': 'time.sleep(0)'}[kind]
    raise ValueError(op)


def gen_program(rng, cat: str, concurrent: bool, long_line: int = 0, trace_threads: bool = True) -> dict:
    """A program with a main-thread writer M, thread writers T*, an asyncio main coroutine A0 with task
    writers A*, and (optionally) an untraced thread U whose target is the builtin print."""
    nthreads = rng.choice([0, 1, 2, 2, 3])
    ntasks = rng.choice([0, 1, 2, 2, 3])
    use_async = ntasks > 0 or rng.random() < 0.3
    untraced = rng.random() < 0.4
    writers = []

    def writer(name, kind, traced=True, c=None):
        text, ops = make_writer_text(rng, name + '|', c or cat, long_line if (long_line and rng.random() < 0.5) else 0)
        w = {'name': name, 'kind': kind, 'traced': traced, 'ops': ops, 'writes': [x for op in ops for x in op_writes(op)]}
        writers.append(w)
        return w

    # in a 'trailing' program at least one writer gets the trailing shape, the others are random
    def pick():
        return cat if cat != 'trailing' else rng.choice(['trailing', 'linewise', 'print', 'embedded'])

    M = writer('M', 'main', True, pick())
    Ts = [writer(f'T{i + 1}', 'thread', trace_threads, pick()) for i in range(nthreads)]
    A0 = writer('A0', 'task', True, pick()) if use_async else None
    As = [writer(f'A{i + 1}', 'task', True, pick()) for i in range(ntasks)] if use_async else []
    U = None
    if untraced:
        utext = 'U|' + rand_body(rng, 8)
        U = {'name': 'U', 'kind': 'thread', 'traced': False, 'ops': [['print', [utext], None, None]], 'writes': [utext, '\n']}
        writers.append(U)
    if cat == 'trailing' and not any(_has_trailing(w['writes']) for w in writers if w['traced']):
        tgt = rng.choice([w for w in writers if w['traced']])
        text, ops = make_writer_text(rng, tgt['name'] + '|', 'trailing')
        tgt['ops'], tgt['writes'] = ops, [x for op in ops for x in op_writes(op)]

    L = ['import sys, threading, asyncio, time']
    order: list = []          # program order of (writer name, op index) for sequential programs

    def body(w, ind, kind, lo=0, hi=None):
        out = []
        ops = w['ops'][lo:hi]
        for j, op in enumerate(ops):
            if op[0] == 'yield' and not concurrent and kind != 'task':
                continue
            out.append(ind + op_src(op, kind))
            order.append((w['name'], lo + j))
        return out or [ind + 'pass']

    for w in Ts:
        L.append(f'def f_{w["name"]}():')
        L += ['PLACEHOLDER_' + w['name']]
    for w in As:
        L.append(f'async def c_{w["name"]}():')
        L += ['PLACEHOLDER_' + w['name']]
    # main coroutine
    def thirds(w, k):
        n = len(w['ops'])
        a, b = sorted([rng.randint(0, n), rng.randint(0, n)])
        cuts = [0, a, b, n] if k == 3 else [0, a, n]
        return list(zip(cuts, cuts[1:]))

    src_parts: dict = {}
    main_lines: list = []
    if A0:
        L.append('async def c_A0():')
        L.append('PLACEHOLDER_A0')
    L.append('PLACEHOLDER_MAIN')

    # --- emit in execution order so that `order` is the program order for sequential programs
    mseg = thirds(M, 3)
    main_lines += body(M, '', 'main', *mseg[0])
    if Ts:
        main_lines.append('threads = [' + ', '.join(f'threading.Thread(target=f_{w["name"]})' for w in Ts) + ']')
    if U:
        main_lines.append(f'ut = threading.Thread(target=print, args=({U["writes"][0]!r},))')
    if concurrent:
        if Ts:
            main_lines.append('for t in threads: t.start()')
        if U:
            main_lines.append('ut.start()')
        for w in Ts:
            src_parts[w['name']] = body(w, '    ', 'thread')
    else:
        for i, w in enumerate(Ts):
            main_lines.append(f'threads[{i}].start(); threads[{i}].join()')
            src_parts[w['name']] = body(w, '    ', 'thread')
        if U:
            main_lines.append('ut.start(); ut.join()')
            order.append(('U', 0))
    main_lines += body(M, '', 'main', *mseg[1])
    if A0:
        aseg = thirds(A0, 3)
        a0 = body(A0, '    ', 'task', *aseg[0])
        if concurrent:
            if As:
                a0.append('    tasks = [' + ', '.join(f'asyncio.create_task(c_{w["name"]}())' for w in As) + ']')
            a0 += body(A0, '    ', 'task', *aseg[1])
            for w in As:
                src_parts[w['name']] = body(w, '    ', 'task')
            if As:
                a0.append('    await asyncio.gather(*tasks)')
        else:
            for w in As:
                a0.append(f'    await asyncio.create_task(c_{w["name"]}())')
                src_parts[w['name']] = body(w, '    ', 'task')
            a0 += body(A0, '    ', 'task', *aseg[1])
        a0 += body(A0, '    ', 'task', *aseg[2])
        src_parts['A0'] = a0
        main_lines.append('asyncio.run(c_A0())')
    if concurrent:
        if Ts:
            main_lines.append('for t in threads: t.join()')
        if U:
            main_lines.append('ut.join()')
    main_lines += body(M, '', 'main', *mseg[2])
    src_parts['MAIN'] = main_lines
    out = []
    for l in L:
        if l.startswith('PLACEHOLDER_'):
            out += src_parts[l[len('PLACEHOLDER_'):]]
        else:
            out.append(l)
    src = '\n'.join(out) + '\n'
    prog = {
        'src': src, 'cat': cat, 'concurrent': concurrent,
        'writers': [{k: w[k] for k in ('name', 'kind', 'traced', 'writes')} for w in writers],
        'trace_threads': trace_threads,
    }
    if not concurrent:
        ops_by = {w['name']: w['ops'] for w in writers}
        seq = []
        for name, j in order:
            for x in op_writes(ops_by[name][j]):
                seq.append([name, x])
        prog['sequence'] = seq
    return prog


def _has_trailing(writes) -> bool:
    nlw = [w for w in writes if '\n' in w]
    return bool(nlw) and not nlw[-1].endswith('\n')


def fixed_programs() -> list[dict]:
    """Hand-written programs run first (the first one is the minimal program of the defect repaired in /repo 7420fde)."""
    def P(src, writers, seq=None, cat='fixed'):
        d = {'src': src, 'cat': cat, 'concurrent': seq is None, 'writers': writers, 'trace_threads': True}
        if seq is not None:
            d['sequence'] = seq
        return d
    progs = [
        P("import sys\nsys.stdout.write('M|d\\nM|e')\n",
          [{'name': 'M', 'kind': 'main', 'traced': True, 'writes': ['M|d\nM|e']}], [['M', 'M|d\nM|e']], 'trailing'),
        P("print('M|a', 'b')\nprint('M|c', end='')\nprint()\n",
          [{'name': 'M', 'kind': 'main', 'traced': True, 'writes': ['M|a', ' ', 'b', '\n', 'M|c', '', '\n']}],
          [['M', x] for x in ['M|a', ' ', 'b', '\n', 'M|c', '', '\n']], 'print'),
        P("import sys\nsys.stdout.write('M|d\\nM|e')\nsys.stdout.write('f\\n')\n",
          [{'name': 'M', 'kind': 'main', 'traced': True, 'writes': ['M|d\nM|e', 'f\n']}],
          [['M', 'M|d\nM|e'], ['M', 'f\n']], 'embedded'),
    ]
    # a worker thread of the default executor REUSED by a second asyncio.to_thread() call: it runs under a context copied from
    # the calling task, but it is its own trace (started at its first use); what it writes belongs to it (seed C13-7)
    src = ("import asyncio, sys\nfrom concurrent.futures import ThreadPoolExecutor\n"
           "def work(i):\n    sys.stdout.write('W|%d a\\n' % i)\n    sys.stdout.write('W|%d b\\n' % i)\n"
           "async def main():\n    asyncio.get_running_loop().set_default_executor(ThreadPoolExecutor(max_workers=1))\n"
           "    sys.stdout.write('A|before\\n')\n    await asyncio.to_thread(work, 0)\n    sys.stdout.write('A|between\\n')\n"
           "    await asyncio.to_thread(work, 1)\n    sys.stdout.write('A|after\\n')\n"
           "sys.stdout.write('M|start\\n')\nasyncio.run(main())\nsys.stdout.write('M|end\\n')\n")
    seq = [['M', 'M|start\n'], ['A', 'A|before\n'], ['W', 'W|0 a\n'], ['W', 'W|0 b\n'], ['A', 'A|between\n'],
           ['W', 'W|1 a\n'], ['W', 'W|1 b\n'], ['A', 'A|after\n'], ['M', 'M|end\n']]
    progs.append(P(src, [{'name': n, 'kind': k, 'traced': True, 'writes': [x for m, x in seq if m == n]}
                         for n, k in (('M', 'main'), ('A', 'task'), ('W', 'thread'))], seq, 'worker-reused'))
    return progs


POLICIES = [
    {'kind': 'all', 'cmd': 'step'},
    {'kind': 'all', 'cmd': 'next'},
    {'kind': 'all', 'cmd': 'continue'},
    {'kind': 'all', 'cmd': 'return'},
]


INFO_CMDS = ['list', 'where', 'p 6*7', 'args', 'help next', 'help', 'pp __name__', 'whatis sys', 'p "M|T1|A1|fake"', 'll', 'bt']
# `help pdb`, `interact` and `!statement` under threads break the property on the unchanged tree (known findings): they are
# issued by the dedicated scenarios of run_findings / FIXED_TWOSINK_FINDINGS, with signatures of their own


class InfoPolicy:
    """Runs in the child worker ('custom' policy kind): at some prompts first sends a debugger command
    that makes Pdb print something (at most one per trace call), then a moving command."""

    def __init__(self, args):
        import random
        self.rng = random.Random(args.get('seed', 0))
        self.moves = args.get('moves', ['next', 'step', 'return', 'continue'])
        self.asked = set()
        self.n_info = 0

    def on_event(self, ev, put):
        if ev['type'] != 'OnStartPrompt':
            return
        key = (ev['trace_no'], ev['trace_call_no'])
        if key not in self.asked and self.rng.random() < 0.4:
            self.asked.add(key)
            self.n_info += 1
            put(ev['trace_no'], ev['prompt_no'], self.rng.choice(INFO_CMDS))
        else:
            put(ev['trace_no'], ev['prompt_no'], self.rng.choice(self.moves))

    def summary(self):
        return {'info_commands': self.n_info}


def make_policy(args):
    return InfoPolicy(args)


class FindingPolicy:
    """Runs in the child worker: the command policies of the two known behaviours of CPython's pdb that break the last
    sentence of C13.  args: {'first': cmd} -- answer the very first prompt with cmd; {'at_line': n, 'cmd': c} -- answer the
    first prompt of trace 1 at line n with c.  Every other prompt of trace 1: 'next'; other traces: 'continue'."""

    def __init__(self, args):
        self.args = args
        self.done = False

    def on_event(self, ev, put):
        if ev['type'] != 'OnStartPrompt':
            return
        t = ev['trace_no']
        if not self.done and t == 1:
            if 'first' in self.args:
                self.done = True
                put(t, ev['prompt_no'], self.args['first'])
                return
            if ev.get('line_no') == self.args.get('at_line'):
                self.done = True
                put(t, ev['prompt_no'], self.args['cmd'])
                return
        put(t, ev['prompt_no'], 'next' if t == 1 else 'continue')

    def summary(self):
        return {'info_commands': int(self.done)}


def make_finding_policy(args):
    return FindingPolicy(args)


def make_job(rng, prog: dict, i: int) -> dict:
    r = rng.random()
    if r < 0.55:
        pol = dict(POLICIES[i % len(POLICIES)])
    elif r < 0.75:
        pol = {'kind': 'custom', 'module': 'harness.props.c13', 'func': 'make_policy', 'args': {'seed': rng.randrange(10 ** 6)}}
    else:
        pol = {'kind': 'random', 'seed': rng.randrange(10 ** 6), 'cmds': ['next', 'step', 'return', 'until', 'continue']}
    form = 'str' if rng.random() < 0.8 else rng.choice(['code', 'path'])
    tm = False
    if pol.get('cmd') in ('next', 'continue') and not any(not w['traced'] for w in prog['writers']) and rng.random() < 0.2:
        tm = True           # trace_modules on: only with policies that never step into library code
    return {'src': prog['src'], 'form': form, 'trace_threads': prog.get('trace_threads', True), 'trace_modules': tm,
            'policy': pol, 'timeout': 40}


# ---------------------------------------------------------------- system level: observation and oracle

def observe(prog: dict, res: dict) -> dict:
    """Group OnWriteStdout by trace and find, by the tags, which thread/task is behind each trace."""
    by_trace: dict = {}
    evseq = []
    for e in res.get('events', []):
        if e.get('type') == 'OnWriteStdout':
            by_trace.setdefault(e['trace_no'], []).append(e['text'])
            evseq.append([e['trace_no'], e['text']])
    start = {e['trace_no']: e for e in res.get('events', []) if e.get('type') == 'OnStartTrace'}
    tags = {w['name'] + '|': w['name'] for w in prog['writers']}
    trace_of: dict = {}
    writer_of: dict = {}
    problems = []
    for t, pieces in by_trace.items():
        R = ''.join(pieces)
        owner = next((n for tg, n in tags.items() if R.startswith(tg)), None)
        if owner is None:
            problems.append(('unattributable-report', f'trace {t}: reported text {R[:60]!r} does not start with text of any thread/task'))
            continue
        if owner in trace_of:
            problems.append(('output-split-across-traces', f'{owner}: reported under traces {trace_of[owner]} and {t}'))
            continue
        trace_of[owner] = t
        writer_of[t] = owner
    return {'by_trace': by_trace, 'trace_of': trace_of, 'writer_of': writer_of, 'problems': problems, 'start': start, 'evseq': evseq}


def subseq(small: str, big: str) -> bool:
    it = iter(big)
    return all(c in it for c in small)


def oracle_program(prog: dict, res: dict, obs: dict):
    bad = list(obs['problems'])
    tags = [w['name'] + '|' for w in prog['writers']]
    for w in prog['writers']:
        t = obs['trace_of'].get(w['name'])
        pieces = obs['by_trace'].get(t, []) if t is not None else []
        bad += oracle_writer(f'{w["kind"]} {w["name"]}' + (f' (trace {t})' if t is not None else ''), w['traced'], w['writes'], pieces)
        # attribution: no line of the trace's report starts with another writer's tag
        own = w['name'] + '|'
        for line in ''.join(pieces).split('\n'):
            other = next((tg for tg in tags if tg != own and line.startswith(tg)), None)
            if other:
                bad.append(('attributed-to-wrong-trace', f'text of {other[:-1]} ({line[:40]!r}) was reported for the trace of {w["name"]}'))
                break
        if t is not None and t in obs['start']:
            st = obs['start'][t]
            is_task = st.get('task_no') is not None
            if is_task != (w['kind'] == 'task'):
                bad.append(('attributed-to-wrong-trace', f'{w["name"]} is a {w["kind"]} but its output is reported for trace {t} '
                            f'(thread_no={st.get("thread_no")}, task_no={st.get("task_no")})'))
    for t, pieces in obs['by_trace'].items():
        for p in pieces:
            if any(m in p for m in DEBUGGER_MARKS[:2]):
                bad.append(('debugger-text-reported', f'trace {t}: debugger text reported as script output: {p[:80]!r}'))
    out = res.get('stdout') or ''
    for w in prog['writers']:
        if not subseq(''.join(w['writes']), out):
            bad.append(('real-stdout-incomplete', f'the real stdout does not contain everything {w["name"]} wrote, in order'))
            break
    if 'sequence' in prog and not subseq(''.join(x for _, x in prog['sequence']), out):
        bad.append(('real-stdout-incomplete', 'the real stdout does not contain everything the script wrote, in order'))
    return bad


# ---------------------------------------------------------------- running both levels

def run_pure(ctx, corr: Corr, rl, ak, pl, seen: set):
    obs_rl, obs_ak, obs_pl = [], [], []
    hist = corr.extra.setdefault('pure_shapes', {'flushes': 0, 'writes': 0, 'embedded_nl_writes': 0, 'empty_writes': 0,
                                                 'untraced_writes': 0, 'print_ops': 0})

    def count(key, nontrivial):
        if key not in seen:
            seen.add(key)
            if nontrivial:
                corr.distinct_nontrivial += 1

    for cs in rl:
        try:
            got = impl_rlbk(cs)
        except Exception as e:
            corr.mismatches.append({'kind': 'rlbk-raised', 'calls': cs, 'exc': repr(e)})
            continue
        obs_rl.append((cs, got))
        count('rl' + json.dumps(cs), bool(got))
    for ls in ak:
        try:
            got = impl_ak(ls)
        except Exception as e:
            corr.mismatches.append({'kind': 'assign-key-raised', 'labels': ls, 'exc': repr(e)})
            continue
        obs_ak.append((ls, got))
        count('ak' + json.dumps(ls), bool(got))
    for ops in pl:
        try:
            got, real, restored = impl_plain(ops)
        except Exception as e:
            corr.mismatches.append({'kind': 'peek-stdout-raised', 'ops': ops, 'exc': repr(e)})
            continue
        if not restored:
            corr.mismatches.append({'kind': 'stdout-write-not-restored', 'ops': ops})
        labels = [[a, w] for a, op in ops for w in op_writes(op)]
        obs_pl.append((labels, got, real))
        count('pl' + json.dumps(ops), bool(got))
        hist['flushes'] += len(got)
        hist['writes'] += len(labels)
        hist['embedded_nl_writes'] += sum(1 for _, w in labels if '\n' in w[:-1])
        hist['empty_writes'] += sum(1 for _, w in labels if w == '')
        hist['untraced_writes'] += sum(1 for a, _ in labels if a is None)
        hist['print_ops'] += sum(1 for _, op in ops if op[0] == 'print')
        for sig, what in oracle_plain(ops, got, real):
            corr.violations.append(Violation(sig, 'pure level (peek_stdout_by_key): ' + what,
                                             {'level': 'pure', 'ops': ops, 'observed_callbacks': got}))
    files = {}
    CH = 400
    for name, obs, mk in (('rl', obs_rl, file_rlbk), ('ak', obs_ak, file_ak), ('pl', obs_pl, file_plain)):
        for i in range(0, len(obs), CH):
            files[f'{name}_{i // CH}'] = mk(obs[i:i + CH])
    res = ctx.coq_eval_many(files)
    table = {'rl': obs_rl, 'ak': obs_ak, 'pl': obs_pl}
    for name, (ok, out) in res.items():
        kind, n = name.split('_')
        base = int(n) * CH
        badl = C.parse_nat_list(out) if ok else None
        if badl is None:
            corr.mismatches.append({'kind': 'coq-eval-failed', 'file': name, 'log': out[-600:]})
            continue
        for b in badl:
            corr.mismatches.append({'kind': f'pure-{kind}', 'case': table[kind][base + b]})
    corr.evaluations += len(obs_rl) + len(obs_ak) + len(obs_pl)
    corr.extra['pure_cases'] = corr.extra.get('pure_cases', 0) + len(obs_rl) + len(obs_ak) + len(obs_pl)
    if obs_pl:
        labels, got, real = obs_pl[len(obs_pl) // 2]
        corr.samples.append({'level': 'pure', 'writes': labels[:12], 'callbacks': got[:8]})


def run_system(ctx, corr: Corr, progs: list[dict], seen: set, fixed_first: int = 0):
    from .. import child
    rng = ctx.rng
    jobs = []
    for i, p in enumerate(progs):
        j = make_job(rng, p, i)
        if i < fixed_first:
            j.update({'form': 'str', 'trace_modules': False, 'policy': {'kind': 'all', 'cmd': 'step'}})
        jobs.append(j)
    results = child.run_jobs(jobs, par=14, chunk=6)
    # one retry for infrastructure failures (time-outs under load)
    redo = [i for i, r in enumerate(results) if r.get('error')]
    if redo:
        again = child.run_jobs([dict(jobs[i], id=f'r{i}') for i in redo], par=6, chunk=2)
        for i, r in zip(redo, again):
            results[i] = r
    piece_cases, seq_cases = [], []
    piece_src, seq_src = [], []
    hist = corr.extra.setdefault('system_shapes', {'programs': 0, 'by_category': {}, 'by_policy': {}, 'traces_with_output': 0,
                                                   'writers': 0, 'thread_writers': 0, 'task_writers': 0, 'untraced_writers': 0,
                                                   'events_OnWriteStdout': 0, 'sequential': 0, 'failed_runs': 0})
    for p, j, r in zip(progs, jobs, results):
        payload = {'level': 'system', 'program': p, 'job': {k: j[k] for k in ('form', 'trace_threads', 'trace_modules', 'policy')}}
        if r.get('error') or r.get('fmt_exc'):
            hist['failed_runs'] += 1
            corr.mismatches.append({'kind': 'program-run-failed', 'error': r.get('error'), 'exc': (r.get('fmt_exc') or '')[-300:],
                                    'src': p['src'][:600], 'policy': j['policy']})
            continue
        obs = observe(p, r)
        corr.evaluations += 1
        hist['programs'] += 1
        hist['by_category'][p['cat']] = hist['by_category'].get(p['cat'], 0) + 1
        pk = j['policy'].get('cmd', j['policy']['kind'])
        pk = 'with-debugger-output-commands' if pk == 'custom' else pk
        hist['by_policy'][pk] = hist['by_policy'].get(pk, 0) + 1
        hist['debugger_output_commands'] = hist.get('debugger_output_commands', 0) + (r.get('policy_summary') or {}).get('info_commands', 0)
        hist['prompts_answered'] = hist.get('prompts_answered', 0) + len(r.get('sent', []))
        hist['traces_with_output'] += len(obs['by_trace'])
        hist['events_OnWriteStdout'] += len(obs['evseq'])
        hist['writers'] += len(p['writers'])
        hist['thread_writers'] += sum(1 for w in p['writers'] if w['kind'] == 'thread')
        hist['task_writers'] += sum(1 for w in p['writers'] if w['kind'] == 'task')
        hist['untraced_writers'] += sum(1 for w in p['writers'] if not w['traced'])
        key = 'sy' + p['src'] + json.dumps(j['policy'])
        if key not in seen:
            seen.add(key)
            if obs['evseq']:
                corr.distinct_nontrivial += 1
        for sig, what in oracle_program(p, r, obs):
            corr.violations.append(Violation(sig, f'system level ({p["cat"]} program, policy {pk}): ' + what,
                                             dict(payload, observed_events=obs['evseq'][:40], real_stdout=(r.get('stdout') or '')[:400])))
        # model side: per writer
        for w in p['writers']:
            t = obs['trace_of'].get(w['name'])
            if t is None:
                t = 999             # no piece could be identified as this writer's: the model must report none either
            actor = t if w['traced'] else None
            piece_cases.append((actor, w['writes'], obs['by_trace'].get(t, []) if w['traced'] else []))
            piece_src.append((p, j, w['name']))
        # model side: whole run of a sequential program (event order, trace numbers, real stdout)
        if 'sequence' in p and not obs['problems']:
            hist['sequential'] += 1
            tr = {w['name']: (obs['trace_of'].get(w['name'], 900 + n) if w['traced'] else None) for n, w in enumerate(p['writers'])}
            labels = [[tr[name], x] for name, x in p['sequence']]
            seq_cases.append((labels, obs['evseq'], [r.get('stdout') or '']))
            seq_src.append((p, j))
    files = {}
    CH = 300
    for i in range(0, len(piece_cases), CH):
        files[f'pc_{i // CH}'] = file_pieces(piece_cases[i:i + CH])
    for i in range(0, len(seq_cases), CH):
        files[f'sq_{i // CH}'] = file_plain(seq_cases[i:i + CH], fn='full_run')
    res = ctx.coq_eval_many(files)
    for name, (ok, out) in res.items():
        kind, n = name.split('_')
        base = int(n) * CH
        badl = C.parse_nat_list(out) if ok else None
        if badl is None:
            corr.mismatches.append({'kind': 'coq-eval-failed', 'file': name, 'log': out[-600:]})
            continue
        for b in badl:
            if kind == 'pc':
                p, j, wn = piece_src[base + b]
                a, ws, ps = piece_cases[base + b]
                corr.mismatches.append({'kind': 'system-pieces', 'writer': wn, 'trace': a, 'writes': ws[:30], 'impl_pieces': ps[:30],
                                        'src': p['src'][:800], 'policy': j['policy']})
            else:
                p, j = seq_src[base + b]
                labels, ev, out_ = seq_cases[base + b]
                corr.mismatches.append({'kind': 'system-sequence', 'labels': labels[:40], 'impl_events': ev[:30], 'impl_stdout': out_[0][:300],
                                        'src': p['src'][:800], 'policy': j['policy']})
    corr.extra['system_model_cases'] = corr.extra.get('system_model_cases', 0) + len(piece_cases) + len(seq_cases)
    corr.traces_validated += len(piece_cases)
    for p, j, r in list(zip(progs, jobs, results))[fixed_first:fixed_first + 1]:
        corr.samples.append({'level': 'system', 'src': p['src'][:700], 'policy': j['policy'],
                             'events': [[e['trace_no'], e['text'][:40]] for e in r.get('events', []) if e.get('type') == 'OnWriteStdout'][:10]})


LINE_BOUNDARY_CHARS = ['\r', '\x0b', '\x0c', '\x1c', '\x1d', '\x1e', '\x85', '\u2028', '\u2029']   # str.splitlines() splits at these too


def registrar_events(rng, n: int) -> list:
    """whole-line pieces as PeekStdout emits them (always ending with a newline), some containing characters that are line
    boundaries for str.splitlines() but not line ends: a progress bar rewriting its line with \\r, a form feed, NEL, LS/PS"""
    out = []
    for i in range(n):
        t = rand_text(rng)
        if i % 4 == 0:
            body = ''.join(rng.choice(['ab', 'x', '  ', '10%', rng.choice(LINE_BOUNDARY_CHARS)]) for _ in range(rng.randint(1, 6)))
            t = body + rng.choice(LINE_BOUNDARY_CHARS) + 'tail\n' + (rng.choice(['', 'second line\n']))
        elif not t.endswith('\n'):
            t = t + '\n'
        out.append([rng.randint(1, 3), rng.randint(1, 4), t])
    return out


def publish_through_registrar(events: list) -> list:
    """drive the REAL StdoutRegistrar with the events; -> [[run_no, trace_no, text]] published on 'stdout', in order"""
    import asyncio
    import datetime
    import types
    from nextline.events import OnWriteStdout
    from nextline.plugin.plugins.registrars.stdout import StdoutRegistrar
    published = []

    class PS:
        async def publish(self, key, item):
            published.append([key, item.run_no, item.trace_no, item.text])

    async def drive():
        reg = StdoutRegistrar()
        for k, (run_no, trace_no, text) in enumerate(events):
            cx = types.SimpleNamespace(run_arg=types.SimpleNamespace(run_no=run_no), pubsub=PS())
            await reg.on_write_stdout(context=cx, event=OnWriteStdout(written_at=datetime.datetime(2020, 1, 1, 0, 0, k % 60), run_no=run_no, trace_no=trace_no, text=text))
    asyncio.new_event_loop().run_until_complete(drive())
    return published


def oracle_registrar(events: list, published: list) -> list:
    """the property text on what subscribers of 'stdout' receive: per (run, trace) exactly the reported text, once, in order,
    in pieces that end at a line end -- however the registrar groups whole lines into pieces"""
    bad = []
    for key, *_ in published:
        if key != 'stdout':
            bad.append(('registrar:published-on-other-topic', f'published on {key!r}'))
            break
    want, got = {}, {}
    for r, t, x in events:
        want[(r, t)] = want.get((r, t), '') + x
    for _, r, t, x in published:
        got[(r, t)] = got.get((r, t), '') + x
        if not x.endswith('\n') and not any(s0 == 'registrar:piece-does-not-end-at-line-end' for s0, _ in bad):
            bad.append(('registrar:piece-does-not-end-at-line-end', f'subscribers of stdout received the piece {x!r} (run {r}, trace {t}), which does not end with a newline'))
    for k in sorted(set(want) | set(got)):
        if want.get(k, '') != got.get(k, ''):
            bad.append(('registrar:published-text-differs', f'run/trace {k}: reported {want.get(k, "")[:80]!r}, published {got.get(k, "")[:80]!r}'))
            break
    order_w = [(r, t) for r, t, _ in events]
    order_g = []
    for _, r, t, _x in published:
        if not order_g or order_g[-1] != (r, t):
            order_g.append((r, t))
    dedup_w = [k for i, k in enumerate(order_w) if i == 0 or order_w[i - 1] != k]
    if not bad and order_g != dedup_w:
        bad.append(('registrar:published-out-of-order', 'the pieces of different traces were published in another order than reported'))
    return bad


def run_registrar_lines(ctx, corr: Corr, events: list):
    """registrars/stdout.py on whole-line pieces: what subscribers receive is judged by the property text"""
    try:
        pub = publish_through_registrar(events)
        for sig, what in oracle_registrar(events, pub):
            # shrink to the first event that shows it
            for k in range(len(events)):
                one = [events[k]]
                if any(s2 == sig for s2, _ in oracle_registrar(one, publish_through_registrar(one))):
                    events_min = one
                    break
            else:
                events_min = events
            corr.violations.append(Violation(sig, what, {'level': 'registrar', 'events': events_min}))
    except Exception as e:
        corr.mismatches.append({'kind': 'registrar-raised', 'exc': repr(e)})
    corr.extra['registrar_line_events_checked'] = len(events)


def run_registrar(ctx, corr: Corr, events: list):
    """registrars/stdout.py: every OnWriteStdout event is published once on 'stdout' as a StdoutInfo
    with the same run_no / trace_no / text / written_at."""
    import asyncio
    import datetime
    import types
    from nextline.events import OnWriteStdout
    from nextline.plugin.plugins.registrars.stdout import StdoutRegistrar
    from nextline.types import StdoutInfo
    published = []

    class PS:
        async def publish(self, key, item):
            published.append((key, item))

    async def drive():
        reg = StdoutRegistrar()
        for run_no, trace_no, text in events:
            cx = types.SimpleNamespace(run_arg=types.SimpleNamespace(run_no=run_no), pubsub=PS())
            ev = OnWriteStdout(written_at=datetime.datetime(2020, 1, 1, 0, 0, len(published) % 60), run_no=run_no, trace_no=trace_no, text=text)
            await reg.on_write_stdout(context=cx, event=ev)
            want = ('stdout', StdoutInfo(run_no=run_no, trace_no=trace_no, text=text, written_at=ev.written_at))
            if len(published) == 0 or published[-1] != want:
                return {'kind': 'registrar', 'event': [run_no, trace_no, text], 'published': repr(published[-1:])}
        if len(published) != len(events):
            return {'kind': 'registrar', 'published': len(published), 'events': len(events)}
        return None

    try:
        bad = asyncio.new_event_loop().run_until_complete(drive())
    except Exception as e:
        bad = {'kind': 'registrar-raised', 'exc': repr(e)}
    if bad:
        corr.mismatches.append(bad)
    corr.extra['registrar_events_checked'] = len(events)


def gen_programs(rng, n: int, long_every: int = 25) -> list[dict]:
    cats = ['print', 'print', 'linewise', 'linewise', 'embedded', 'trailing']
    progs = []
    for i in range(n):
        cat = cats[i % len(cats)]
        concurrent = rng.random() < 0.6
        long_line = rng.choice([3000, 20000]) if (i % long_every == long_every - 1) else 0
        tt = rng.random() >= 0.1
        progs.append(gen_program(rng, cat, concurrent, long_line, tt))
    return progs


def load_corpus():
    d = C.CORPUS / 'C13'
    plain, progs = [], []
    if d.exists():
        for p in sorted(d.glob('*.json')):
            j = json.loads(p.read_text())
            if j.get('level') == 'system':
                progs.append(j['program'])
            elif j.get('level') == 'pure':
                plain.append(j['ops'])
    return plain, progs


BANG_SRC = ("import threading, time\n"
            "def f():\n"
            "    for i in range(24):\n"
            "        print('T|tick', i)\n"
            "        time.sleep(0.05)\n"
            "t = threading.Thread(target=f)\n"
            "t.start()\n"
            "x = 1\n"
            "t.join()\n"
            "print('M|done')\n")
HI_SRC = "x = 1\nprint('M|script says hi')\n"


def finding_jobs():
    pol = lambda args: {'kind': 'custom', 'module': 'harness.props.c13', 'func': 'make_finding_policy', 'args': args}
    return [
        ('help-pdb', {'src': HI_SRC, 'policy': pol({'first': 'help pdb'}), 'timeout': 40}),
        ('help', {'src': HI_SRC, 'policy': pol({'first': 'help'}), 'timeout': 40}),
        ('interact', {'src': HI_SRC, 'policy': pol({'first': 'interact'}), 'timeout': 40}),
        ('bang', {'src': BANG_SRC, 'policy': pol({'at_line': 8, 'cmd': '!import time; time.sleep(0.6)'}), 'timeout': 60}),
    ]


def analyse_finding(name: str, job: dict, r: dict):
    """-> (oracle hits [(sig, what)], model case or None, statistics) for one finding scenario"""
    ev = [[e['trace_no'], e['text']] for e in r.get('events', []) if e.get('type') == 'OnWriteStdout']
    prompts = [[e['trace_no'], e.get('prompt_text', '')] for e in r.get('events', []) if e.get('type') == 'OnStartPrompt']
    out = r.get('stdout') or ''
    hits, case = [], None
    if name in ('help-pdb', 'help', 'interact'):
        want = "M|script says hi\n"
        rep_ = ''.join(x for t, x in ev if t == 1)
        stats = {'reported_chars': len(rep_), 'script_chars': len(want)}
        if rep_ != want or out != want:
            sig = {'help-pdb': SIG_HELP_PDB, 'interact': SIG_INTERACT}.get(name, 'debugger-text-reported')
            extra = rep_.replace(want, '')
            hits.append((sig, f'system level, debugger command `{job["policy"]["args"]["first"]}` at the first prompt: the script wrote '
                              f'{want!r}; reported for trace 1: {len(rep_)} characters, of which {len(extra)} are debugger text '
                              f'({extra[:70]!r}...); real stdout received {len(out)} characters'))
        # mechanism: the surplus on the real stdout is what the debugger wrote to sys.stdout before the script's line
        if out.endswith(want):
            labels = ([['Y', 1, out[:-len(want)]]] if out != want else []) + [['S', 1, want]]
            case = (labels, ev, [out], [], [])
    else:
        ticks = [f'T|tick {i}\n' for i in range(24)]
        rep2 = ''.join(x for t, x in ev if t == 2)
        in_prompt = [k for k in ticks if any(k in p for t, p in prompts if t == 1)]
        lost = [k for k in ticks if k not in rep2]
        stats = {'ticks_written': len(ticks), 'ticks_reported': len(ticks) - len(lost), 'ticks_in_prompt_text_of_trace_1': len(in_prompt)}
        if lost or not subseq(''.join(ticks), out):
            sig = SIG_BANG if lost and set(lost) == set(in_prompt) else 'lost-output'
            hits.append((sig, f'system level, `!import time; time.sleep(0.6)` at a prompt of the main thread (trace 1) while thread T '
                              f'(trace 2) prints: {len(lost)} of {len(ticks)} lines of T ({lost[0]!r} .. {lost[-1]!r}) are neither reported nor on the '
                              f'real stdout; {len(in_prompt)} of them are in the PROMPT TEXT of trace 1'))
        if lost and ticks[:len(lost)] == lost:
            labels = [['ON', 1]] + [['S', 2, k] for k in lost] + [['OFF', 1]] + [['S', 2, k] for k in ticks[len(lost):]] + [['S', 1, 'M|done\n']]
            case = (labels, [e for e in ev if e[0] in (1, 2)], [out], [], [])
    return hits, case, stats


def run_findings(ctx, corr: Corr):
    """The debugger commands under which CPython's pdb does NOT keep to the stdout it was constructed with, through the
    real nextline.spawned.main: `help pdb` (and `help`, which is harmless), `interact`, and a Python statement as a
    command while another thread prints.  Oracle: the property text on the observed events; the mechanism is compared
    with the two-sink model (labels LDbgSysWrite / LSwapOn / LSwapOff)."""
    from .. import child
    named = finding_jobs()
    results = child.run_jobs([dict(j, form='str', trace_threads=True, trace_modules=False) for _, j in named], par=4, chunk=1)
    hist = corr.extra.setdefault('finding_scenarios', {})
    model_cases = []
    for (name, job), r in zip(named, results):
        if r.get('error') or r.get('fmt_exc'):
            corr.mismatches.append({'kind': 'finding-scenario-run-failed', 'scenario': name, 'error': r.get('error'), 'exc': (r.get('fmt_exc') or '')[-300:]})
            continue
        corr.evaluations += 1
        hits, case, stats = analyse_finding(name, job, r)
        hist[name] = stats
        payload = {'level': 'system', 'scenario': name, 'job': job,
                   'observed_events': [[e['trace_no'], e['text'][:120]] for e in r.get('events', []) if e.get('type') == 'OnWriteStdout'][:12],
                   'real_stdout': (r.get('stdout') or '')[:300]}
        for sig, what in hits:
            corr.violations.append(Violation(sig, what, payload))
        if case:
            model_cases.append(case)
    if model_cases:
        src = file_twosink(model_cases).replace('bad_from two_eqb two_run', 'bad_from two_eqb (fun ls => (fst (two_run ls), ([], [])))')
        for name_, (ok, o) in ctx.coq_eval_many({'fs_0': src}).items():
            badl = C.parse_nat_list(o) if ok else None
            if badl is None:
                corr.mismatches.append({'kind': 'coq-eval-failed', 'file': name_, 'log': o[-600:]})
            else:
                for b in badl:
                    corr.mismatches.append({'kind': 'finding-scenario-model', 'labels': [[x if not isinstance(x, str) else x[:60] for x in l] for l in model_cases[b][0]][:30],
                                            'events': [[t, x[:60]] for t, x in model_cases[b][1]][:30]})
    corr.extra['finding_scenarios_run'] = len(named)


def order_violations(corr: Corr):
    """system-level hits first (the replay of a whole program is the more convincing one), smallest first"""
    corr.violations.sort(key=lambda v: (0 if v.data.get('level') == 'system' else 1,
                                        len(v.data.get('program', {}).get('src', '')) + len(json.dumps(v.data.get('ops', '')))))


def correspond(ctx) -> Corr:
    rng = ctx.rng
    corr = Corr()
    corr.rule = ('pure: generated sequences of (key, text) / (actor, write|print|writelines) on the real ReadLinesByKey, AssignKey and '
                 'peek_stdout_by_key (+ all write sequences up to a bound over 2 actors x 5 newline shapes); two-sink: generated interleavings of script '
                 'writes (real peek_stdout_by_key around a recording sys.stdout) with writes / messages / flushes / readlines of the real Pdb objects '
                 'built by the real pdb_/factory.py:Factory, against the interpreter of the regenerated trees (Stdout/DebugTie.v: events, real stdout, '
                 'prompt-function calls, commands); system: generated programs '
                 '(main thread, threads, asyncio tasks, untraced thread; print-only / line-wise / embedded-newline / trailing-partial-write) '
                 'through nextline.spawned.main under step/next/continue/return/random policies and a policy that also issues debugger commands producing output (list, where, p ...). distinct = distinct input '
                 '(program text + policy); non-trivial = at least one piece was reported (a buffer was flushed)')
    if ctx.tier == 'quick':
        n_pure, maxlen, exh, n_prog = 800, 14, 3, 330
    else:
        n_pure, maxlen, exh, n_prog = 6000, 30, 4, 1800
    seen: set = set()
    corpus_plain, corpus_progs = load_corpus()
    rl, ak, pl = gen_pure_cases(rng, n_pure, maxlen)
    ex = list(exhaustive_plain(exh))
    run_pure(ctx, corr, rl, ak, FIXED_PLAIN + corpus_plain + pl + ex, seen)
    corr.extra['exhaustive_plain_cases'] = len(ex)
    corr.extra['exhaustive_bound'] = f'all write sequences of length <= {exh} over 11 labels (2 actors x 5 newline shapes + 1 untraced write)'
    ctx.log(f'pure level done: {corr.evaluations} cases, mismatches={len(corr.mismatches)}, oracle hits={len(corr.violations)}')
    run_twosink(ctx, corr, FIXED_TWOSINK + gen_twosink_cases(rng, 300 if ctx.tier == 'quick' else 3000, 16 if ctx.tier == 'quick' else 40), seen)
    run_twosink(ctx, corr, FIXED_TWOSINK_FINDINGS + gen_twosink_finding_cases(rng, 40 if ctx.tier == 'quick' else 400), seen)
    ctx.log(f'two-sink level done: {corr.extra["twosink_cases"]} cases, mismatches={len(corr.mismatches)}, oracle hits={len(corr.violations)}')
    run_findings(ctx, corr)
    ctx.log(f'finding scenarios done: {corr.extra.get("finding_scenarios")}, mismatches={len(corr.mismatches)}, oracle hits={len(corr.violations)}')
    fixed = fixed_programs() + corpus_progs
    progs = fixed + gen_programs(rng, n_prog)
    run_system(ctx, corr, progs, seen, fixed_first=len(fixed))
    ctx.log(f'system level done: {corr.extra["system_shapes"]["programs"]} programs, mismatches={len(corr.mismatches)}, '
            f'oracle hits={len(corr.violations)}')
    run_registrar(ctx, corr, [[rng.randint(1, 5), rng.randint(1, 9), rand_text(rng)] for _ in range(200)])
    run_registrar_lines(ctx, corr, registrar_events(rng, 120))
    order_violations(corr)
    return corr


def search(ctx, broken) -> list:
    """Wider hunt for an input on which the property itself fails (used when a proof, the translator
    or the correspondence broke)."""
    rng = ctx.rng
    corr = Corr()
    seen: set = set()
    rl, ak, pl = gen_pure_cases(rng, 3000, 30)
    for ops in FIXED_PLAIN + pl + list(exhaustive_plain(4)):
        try:
            got, real, _ = impl_plain(ops)
        except Exception as e:
            corr.violations.append(Violation('capture-raised', f'pure level: the capture code raised {e!r}', {'level': 'pure', 'ops': ops}))
            break
        for sig, what in oracle_plain(ops, got, real):
            corr.violations.append(Violation(sig, 'pure level (peek_stdout_by_key): ' + what,
                                             {'level': 'pure', 'ops': shrink_plain(ops, sig), 'original_ops': ops}))
        if len({v.signature for v in corr.violations}) >= 4:
            break
    for ops in FIXED_TWOSINK + gen_twosink_cases(rng, 400, 20):
        try:
            got, real = impl_twosink(ops)[:2]
        except Exception as e:
            corr.violations.append(Violation('capture-raised', f'two-sink level: the real code raised {e!r}', {'level': 'twosink', 'ops': ops}))
            break
        hits = oracle_twosink(ops, got, real)
        for sig, what in hits:
            corr.violations.append(Violation(sig, 'two-sink level (real Factory/Pdb/StdInOut + peek_stdout_by_key): ' + what,
                                             {'level': 'twosink', 'ops': ops, 'observed_callbacks': got, 'real': real}))
        if hits:
            break
    progs = fixed_programs() + gen_programs(rng, 400)
    sub = Corr()
    run_system(ctx, sub, progs, seen, fixed_first=3)
    corr.violations += sub.violations
    order_violations(corr)
    return corr.violations


def shrink_plain(ops, sig):
    cur = list(ops)
    changed = True
    while changed:
        changed = False
        for i in range(len(cur)):
            cand = cur[:i] + cur[i + 1:]
            try:
                got, real, _ = impl_plain(cand)
            except Exception:
                continue
            if any(s == sig for s, _ in oracle_plain(cand, got, real)):
                cur = cand
                changed = True
                break
    return cur


def replay(ctx, path: Path) -> int:
    j = json.loads(Path(path).read_text())
    if j.get('scenario'):
        from .. import child
        job = j['job']
        r = child.run_jobs([dict(job, form='str', trace_threads=True, trace_modules=False)])[0]
        print('program:\n' + job['src'])
        print('policy :', job['policy'])
        if r.get('error') or r.get('fmt_exc'):
            print('run failed:', r.get('error'), r.get('fmt_exc'))
            return 2
        print('commands sent       :', r.get('sent'))
        print('OnWriteStdout events:', [[e['trace_no'], e['text'][:80], len(e['text'])] for e in r.get('events', []) if e.get('type') == 'OnWriteStdout'])
        print('prompt texts        :', [[e['trace_no'], e.get('prompt_text', '')[:160]] for e in r.get('events', []) if e.get('type') == 'OnStartPrompt'])
        print('real stdout         :', repr((r.get('stdout') or '')[:200]))
        bad, _, _ = analyse_finding(j['scenario'], job, r)
    elif j.get('level') == 'twosink':
        ops = j['ops']
        got, real, asked, cmds, labels = impl_twosink(ops)
        print('labels   :', [[x if not isinstance(x, str) else x[:80] for x in l] for l in labels])
        print('callbacks:', [[k, t[:80]] for k, t in got])
        print('real     :', [t[:80] for t in real])
        print('prompts  :', asked)
        bad = oracle_twosink(ops, got, real)
    elif j.get('level') == 'registrar':
        pub = publish_through_registrar(j['events'])
        print('reported (OnWriteStdout):', j['events'])
        print("published on 'stdout'   :", pub)
        bad = oracle_registrar(j['events'], pub)
    elif j.get('level') == 'pure':
        ops = j['ops']
        got, real, _ = impl_plain(ops)
        print('writes   :', [[a, w] for a, op in ops for w in op_writes(op)])
        print('callbacks:', got)
        bad = oracle_plain(ops, got, real)
    else:
        from .. import child
        p = j['program']
        job = dict(j.get('job', {}), src=p['src'], timeout=40)
        r = child.run_jobs([job])[0]
        print('program:\n' + p['src'])
        print('policy :', job.get('policy'))
        if r.get('error') or r.get('fmt_exc'):
            print('run failed:', r.get('error'), r.get('fmt_exc'))
            return 2
        obs = observe(p, r)
        print('OnWriteStdout events:', obs['evseq'])
        print('real stdout         :', repr(r.get('stdout')))
        for w in p['writers']:
            print(f'  {w["name"]} wrote {"".join(w["writes"])!r} -> required report {upto_last_nl("".join(w["writes"])) if w["traced"] else ""!r}')
        bad = oracle_program(p, r, obs)
    for sig, what in bad:
        print('FAILS:', sig, '--', what)
    print('replay verdict:', 'property violated' if bad else 'property holds on this input')
    return 1 if bad else 0
