"""C18 -- done-callbacks fire exactly once for every registered thread and task.

Model: coq/theories/DoneCb/Model.v (+ Task.v); theorems: Props/C18.v.
Tie: (i) translate/donecb_skeleton.py regenerates Gen/DoneCbSkeleton.v from the
bytecode of ThreadDoneCallback.{register,close,_monitor}; DoneCb/Model.v proves
that its hand-written programs are exactly the shared accesses of that skeleton;
(ii) an OPCODE SCHEDULER interleaves the REAL ThreadDoneCallback at bytecode
granularity under given schedules and the per-step observations are compared
with the model's (vm_compute); (iii) the real TaskDoneCallback is driven with
all completion orders of <= 5 tasks and compared with the sequential model.
Oracle: the property text on the observed event log of the real classes.
"""
from __future__ import annotations

import asyncio
import itertools
import json
import sys
import threading
import time
from pathlib import Path

from .. import common as C
from ..common import Corr, Violation, cbool, clist, cnat

TRANSLATORS = ['donecb_skeleton']

TRUSTED_BASE = [
    'opcode scheduler harness/props/c18.py (sys.settrace opcode events; parks every thread before each shared access of '
    'register/close/_monitor and releases one at a time) and its event log',
    'translate/donecb_skeleton.py classification of bytecodes into shared accesses vs frame-local instructions '
    '(frame-local instructions commute with other threads; spot-checked by the every-opcode mode)',
    'modelled, not verified: CPython executes one bytecode atomically under the GIL (set.add, set difference, '
    'set iterator next, Thread.is_alive are single C calls); threading.Thread.join; asyncio done-callback dispatch',
]
ASSUMPTIONS = [
    'threads register themselves (register() called in the thread, as nextline/spawned/plugin/plugins/concurrency.py does) '
    'once, and can end only after register() returned',
    'close() is invoked after every register() call has returned (its docstring: "to be called after all threads are '
    'registered") and not from a registered thread',
    'harness threads hash to their index so that CPython iterates the set in ascending index order like the model '
    '(iteration order does not influence whether a callback is lost)',
    'the `done` callback is given; it may raise',
]

PARK_TIMEOUT = 5.0


# ---------------------------------------------------------------- opcode scheduler (real code)

class Deadlock(Exception):
    pass


class _RegThread(threading.Thread):
    """A real thread that registers itself; hash = index (deterministic set order)."""

    def __init__(self, idx, target):
        self.idx = idx
        super().__init__(target=target, daemon=True, name=f'reg{idx}')

    def __hash__(self):
        return self.idx

    def __eq__(self, other):
        return self is other


def load_skeleton(repo=None):
    from translate import donecb_skeleton as T
    sk, cls = T.skeleton(Path(repo) if repo else C.REPO)
    return T, sk, cls


class Run:
    """One deterministic interleaving of the real ThreadDoneCallback.

    Labels: ['arrive', t] ['step', 'M'|'C'|t] ['die', t] ['close'].
    `do(label)` returns 'disabled' or {'acc': <access name>, 'ev': [...events of this step...]}.
    """

    def __init__(self, cls, sk, T, raises=(), fine=False, repo_cls=None):
        self.cls = cls
        self.fine = fine
        self.raises = set(raises)
        self.codes = {}
        self.park = {}
        for m in T.METHODS:
            code = vars(cls)[m].__code__
            self.codes[code] = m
            self.park[code] = {o: a for o, a, _ in sk[m] if a in T.SHARED}
        self.cv = threading.Condition()
        self.state = {}           # tid -> 'running' | ('parked', method, offset) | 'idle'
        self.grant = {}
        self.tid_of = {}          # thread ident -> tid
        self.events = []          # global event log (for the oracle)
        self.step_ev = []         # events produced during the current label
        self.threads = {}         # t -> _RegThread
        self.die_ev = {}
        self.registered = set()
        self.dead = set()
        self.closer = None
        self.close_result = None  # ('ret', None) | ('raised', exc)
        self.closer_joining = False
        self.close_reported = False
        self.mon_reported = False
        self.aborted = False
        self.obj = None

    # -- tracing
    def _global_trace(self, frame, event, arg):
        if event == 'call' and frame.f_code in self.codes:
            m = self.codes[frame.f_code]
            ident = threading.get_ident()
            if m == '_monitor':
                self.tid_of[ident] = 'M'
                with self.cv:
                    self.state['M'] = 'running'
                    self.grant['M'] = False
            if ident not in self.tid_of:
                return None
            frame.f_trace_opcodes = True
            frame.f_trace_lines = False
            sys.settrace(self._global_trace)      # 3.12: needed for opcode events to start
            return self._local_trace
        return None

    def _local_trace(self, frame, event, arg):
        if event == 'opcode':
            off = frame.f_lasti
            pk = self.park[frame.f_code]
            if self.fine or off in pk:
                self._park(self.tid_of[threading.get_ident()], self.codes[frame.f_code], off)
        elif event == 'return':
            tid = self.tid_of[threading.get_ident()]
            with self.cv:
                self.state[tid] = 'idle'
                self.cv.notify_all()
        return self._local_trace

    def _park(self, tid, method, off):
        with self.cv:
            self.state[tid] = ('parked', method, off)
            self.cv.notify_all()
            end = time.time() + 4 * PARK_TIMEOUT
            while not self.grant[tid]:
                if self.aborted:
                    raise SystemExit
                if time.time() > end:
                    raise SystemExit
                self.cv.wait(0.05)
            self.grant[tid] = False
            self.state[tid] = 'running'

    def _wait_settled(self, tid, allow_running=False):
        """until thread `tid` is parked or idle"""
        end = time.time() + PARK_TIMEOUT
        with self.cv:
            while self.state.get(tid) in (None, 'running'):
                if time.time() > end:
                    raise Deadlock(f'thread {tid} neither parked nor finished after {PARK_TIMEOUT}s (state {self.state.get(tid)})')
                self.cv.wait(0.05)
            return self.state[tid]

    def _ev(self, *e):
        e = list(e)
        self.events.append(e)
        self.step_ev.append(e)

    # -- the pieces of real code
    def start(self):
        def done(th):
            t = th.idx
            if t in self.raises:
                self._ev('cb', t, True)
                raise self.exc_of(t)
            self._ev('cb', t, False)
        self._excs = {}
        threading.settrace(self._global_trace)
        self.obj = self.cls(done=done, interval=0)
        self.mon_thread = self.obj._t
        self._wait_settled('M')

    def exc_of(self, t):
        if t not in self._excs:
            self._excs[t] = ValueError(f'callback-{t}')
        return self._excs[t]

    def stop(self):
        self.aborted = True
        with self.cv:
            for k in self.grant:
                self.grant[k] = True
            self.cv.notify_all()
        for e in self.die_ev.values():
            e.set()
        threading.settrace(None)

    def _reg_target(self, t):
        def target():
            self.tid_of[threading.get_ident()] = t
            self.obj.register()
            self.die_ev[t].wait(4 * PARK_TIMEOUT)
        return target

    def _close_target(self):
        self.tid_of[threading.get_ident()] = 'C'
        try:
            self.obj.close()
            self.close_result = ('ret', None)
        except BaseException as e:      # noqa
            self.close_result = ('raised', e)

    def enabled(self, lab) -> bool:
        k = lab[0]
        if k == 'arrive':
            return lab[1] not in self.threads and self.closer is None
        if k == 'die':
            t = lab[1]
            return t in self.threads and self.state.get(t) == 'idle' and t not in self.dead
        if k == 'close':
            return self.closer is None and all(self.state.get(t) == 'idle' for t in self.threads)
        if k == 'step':
            s = self.state.get(lab[1])
            return isinstance(s, tuple)
        raise ValueError(lab)

    def exc_name(self, e):
        if e is None:
            return None
        for t, x in self._excs.items():
            if x is e:
                return ['cb', t]
        if isinstance(e, RuntimeError) and 'changed size during iteration' in str(e):
            return ['set-changed']
        if isinstance(e, RuntimeError) and 'registered thread' in str(e):
            return ['registered']
        return ['other', repr(e)]

    def _after(self):
        """monitor exit / close return become visible as events of the step that caused them"""
        if not self.mon_reported and self.state.get('M') == 'idle':
            threading.Thread.join(self.mon_thread, PARK_TIMEOUT)   # ExcThread.join would re-raise
            if self.mon_thread.is_alive():
                raise Deadlock('monitor thread left _monitor but does not end')
            self.mon_reported = True
            self._ev('mon-exit', self.exc_name(getattr(self.mon_thread, 'exc', None)))
        if self.closer is not None and not self.close_reported:
            if self.closer_joining and self.mon_reported or self.state.get('C') == 'idle' and not self.closer_joining:
                self.closer.join(PARK_TIMEOUT)
                if self.closer.is_alive():
                    raise Deadlock('close() does not return although the monitor thread ended')
                self.close_reported = True
                k, e = self.close_result
                self._ev('close-ret', self.exc_name(e))

    def do(self, lab):
        if not self.enabled(lab):
            return 'disabled'
        self.step_ev = []
        k = lab[0]
        acc = None
        if k == 'arrive':
            t = lab[1]
            self.die_ev[t] = threading.Event()
            th = _RegThread(t, self._reg_target(t))
            self.threads[t] = th
            with self.cv:
                self.state[t] = 'running'
                self.grant[t] = False
            self._ev('arrive', t)
            th.start()
            self._wait_settled(t)
        elif k == 'die':
            t = lab[1]
            self.die_ev[t].set()
            self.threads[t].join(PARK_TIMEOUT)
            if self.threads[t].is_alive():
                raise Deadlock(f'thread {t} does not end')
            self.dead.add(t)
            self._ev('died', t)
        elif k == 'close':
            self._ev('close-called')
            self.closer = threading.Thread(target=self._close_target, daemon=True, name='closer')
            with self.cv:
                self.state['C'] = 'running'
                self.grant['C'] = False
            self.closer.start()
            self._wait_settled('C')
        elif k == 'step':
            tid = lab[1]
            _, method, off = self.state[tid]
            code = vars(self.cls)[method].__code__
            acc = self.park[code].get(off, 'Local')
            with self.cv:
                self.state[tid] = 'running'
                self.grant[tid] = True
                self.cv.notify_all()
            if tid == 'C' and acc == 'Join':
                # join() blocks for real until the monitor thread has ended
                self.closer_joining = True
                if self.mon_reported:
                    self._wait_settled('C')
            else:
                self._wait_settled(tid)
            if tid not in ('M', 'C') and self.state[tid] == 'idle' and tid not in self.registered:
                self.registered.add(tid)
                self._ev('registered', tid)
        self._after()
        return {'acc': acc, 'ev': self.step_ev}


def drain_labels(run: Run, max_mon=400):
    """Complete the run: everybody finishes registering and ends, close() is called, the monitor runs on.
    Yields labels (decided from the harness' own view of the real threads)."""
    for t in sorted(run.threads):
        while isinstance(run.state.get(t), tuple):
            yield ['step', t]
    for t in sorted(run.threads):
        if t not in run.dead:
            yield ['die', t]
    if run.closer is None:
        yield ['close']
    while isinstance(run.state.get('C'), tuple):
        yield ['step', 'C']
    n = 0
    while isinstance(run.state.get('M'), tuple):
        n += 1
        if n > max_mon:
            raise Deadlock(f'monitor still running after {max_mon} steps with every thread ended and close() called')
        yield ['step', 'M']


def execute(env, schedule, raises=(), fine=False, drain=True):
    """Run `schedule` (+ drain) on the real class.
    -> dict(labels=[...], outs=[...], events=[...], final_active=[...], error=None|str)"""
    T, sk, cls = env
    run = Run(cls, sk, T, raises=raises, fine=fine)
    labels, outs = [], []
    err = None
    old = sys.gettrace()
    try:
        run.start()
        for lab in schedule:
            labels.append(lab)
            outs.append(run.do(lab))
        if drain:
            for lab in drain_labels(run):
                labels.append(lab)
                outs.append(run.do(lab))
    except Deadlock as e:
        err = str(e)
    finally:
        run.stop()
        sys.settrace(old)
    final_active = sorted(getattr(th, 'idx', -1) for th in list(run.obj._active)) if run.obj is not None else []
    return dict(labels=labels, outs=outs, events=run.events, final_active=final_active, error=err,
                raises=sorted(raises))
