"""C18 -- done-callbacks fire exactly once for every registered thread and task.

Model: coq/theories/DoneCb/Model.v (+ Task.v); theorems: Props/C18.v.
Tie (task half, second tie): translate/taskdone_funs.py regenerates Gen/TaskDoneFuns.v (statement AST of task.py,
union.py, thread_exception.py, aio.current_task_or_thread); DoneCb/TaskInterp.v interprets it and
DoneCb/TaskTie.v proves that its step equals the step of DoneCb/Task.v for all well-formed states.
Tie: (i) translate/donecb_skeleton.py regenerates Gen/DoneCbSkeleton.v from the
bytecode of ThreadDoneCallback.{register,close,_monitor}; DoneCb/Model.v proves
that its hand-written programs are exactly the shared accesses of that skeleton;
(ii) an OPCODE SCHEDULER interleaves the REAL ThreadDoneCallback at bytecode
granularity under given schedules (a thread parked before `with self._lock` while
the lock is held is not schedulable) and the per-step observations are compared
with the model's (vm_compute); (iii) the real TaskDoneCallback is driven with
all completion orders of <= 5 tasks and compared with the sequential model.
Oracle: the property text on the observed event log of the real classes.
"""
from __future__ import annotations

import asyncio
import itertools
import json
import sys
import threading
import time
from pathlib import Path

from .. import common as C
from ..common import Corr, Violation, cbool, clist, cnat

TRANSLATORS = ['donecb_skeleton', 'taskdone_funs']

TRUSTED_BASE = [
    'opcode scheduler harness/props/c18.py (sys.settrace opcode events; parks every thread before each shared access of '
    'register/close/_monitor and releases one at a time) and its event log',
    'translate/donecb_skeleton.py classification of bytecodes into shared accesses vs frame-local instructions '
    '(frame-local instructions commute with other threads; spot-checked by the every-opcode mode)',
    'translate/donecb_skeleton.py + translate/donecb_ast.py, `ast` half (C18_skelfacts_*): every method of '
    'ThreadDoneCallback as a statement tree (DoneCb/SkelSyntax.v; fail-closed on unknown constructs, class bases, '
    'decorators, class-level and module-level statements, extra methods). DoneCb/SkelFacts.v PINS the control shape of '
    '__init__/register/close/_monitor with a matcher and interprets the leaf expressions over the model state; it proves '
    'for all states that the steps so computed are Model.step_mon/step_reg/step_closer and that __init__ denotes Model.init. '
    'TRUSTED there: (a) CPython compiles the ast to the bytecode of the `dis` half faithfully (polarity of POP_JUMP_IF_*, '
    'short-circuit `and`, inlined set comprehension; the two halves read the same file but are not cross-checked '
    'instruction by instruction); (b) the correspondence between the pinned shape and the program counters of the model '
    '(which access of the `dis` skeleton belongs to which leaf) is by construction of step_mon_gen, not derived; '
    '(c) the meaning given to the leaves: truth value of a set = non-empty, `-` on builtin sets = difference into a NEW '
    'object, set()/Lock() = new empty/unlocked objects, `except BaseException` catches everything the callback raises, '
    'Thread.is_alive() false = ended, join() without arguments returns only after the thread ended, daemon/target keywords '
    'of ExcThread as for threading.Thread; (d) time.sleep(self._interval) and the interval value are recorded, not '
    'interpreted (no timing in the model); `if self._done:` is interpreted with the callback given in C18_skelfacts_monitor_step '
    'and with done=None in C18_skelfacts_no_callback_* (step-level for all states + "no callback is ever invoked" for all runs; '
    'the run-level close-waits theorem is proved for the model with a callback only); (e) `dis` half: a statement '
    '`logger.<level>(<constants>)` on a module-level `logger = getLogger(__name__)` is skipped as frame-local (any other use '
    'of the logger fails closed)',
    'translate/taskdone_funs.py (ast -> Gen/TaskDoneFuns.v: every method of TaskDoneCallback, ThreadTaskDoneCallback, '
    'ExcThread and current_task_or_thread as a statement AST; fail-closed) and the semantics DoneCb/TaskInterp.v gives that '
    'AST (method lookup by name, frames, time.sleep as the suspension point of the close methods, asyncio '
    'add_done_callback / call_soon / current_task as primitives, the ThreadDoneCallback inside the union and '
    'threading.Thread as primitives); DoneCb/TaskTie.v proves interpreter step = DoneCb/Task.v step for all well-formed '
    'states and all operations (C18_tie_task_*)',
    'modelled, not verified: CPython executes one bytecode atomically under the GIL (set.add, set difference, '
    'set iterator next, Thread.is_alive are single C calls); threading.Thread.join; asyncio done-callback dispatch',
]
ASSUMPTIONS = [
    'structural, built into the model: a thread registers ITSELF (register() is called in the thread, as '
    'nextline/spawned/plugin/plugins/concurrency.py does), once, and can end only after its register() returned',
    'structural: close() is called at most once and not from a registered thread',
    'contract of close() ("to be called after all threads are registered"): NOT built into the labels; the theorems '
    'and the oracle speak about the threads whose register() had returned when close() was called '
    '(registered_before_close) AND, generally, about every thread whose register() returned before the monitor thread '
    'ended (registered_before_monitor_exit: C18_late_registration_general_*, oracle late_classes / covered_late; it '
    'includes registered_while_close_waits = one generation of late threads, chains of late threads and a close() '
    'called with nothing registered); only a thread whose register() returns after the monitor thread ended may miss '
    'its callback (C18_late_registration_general_example_boundary)',
    'harness threads hash to their index so that CPython iterates the set in ascending index order like the model '
    '(iteration order does not influence whether a callback is lost)',
    'the `done` callback is given; it may raise',
    'progress (C18_no_deadlock, C18_bounded_after_end, C18_close_can_return): proved on the model; the only fairness '
    'assumption for "close() eventually returns" is that the thread calling close() gets to execute its <= 3 lock-free '
    'accesses up to `self._closed = True` (before that the monitor loops by design); afterwards the number of effective '
    'steps is bounded by the measure mu under any scheduler. time.sleep(interval) and Thread.join are not modelled as '
    'delays. On the real class progress is exercised by the drained runs (signature thread:deadlock / thread:close-hangs)',
    'task half: no task is registered again after it ended (twf); a re-registration of an ended task fires the '
    'callback once more (modelled and checked by the correspondence, excluded from the theorem)',
]

PARK_TIMEOUT = 5.0
# A run that ends in a park timeout / Deadlock costs 5..40 s.  On a broken ThreadDoneCallback (e.g. the scan polarity
# flipped) nearly every run does; so a phase of the correspondence stops scheduling further runs once STALL_LIMIT of its
# runs have stalled (STALL_AFTER once an earlier phase has already hit the limit), keeps what it has collected (the oracle
# has judged every completed run) and goes on to the verdict.
STALL_LIMIT = 5
STALL_AFTER = 2
_STALLS = {'total': 0}


def _stall_budget() -> int:
    return STALL_LIMIT if _STALLS['total'] < STALL_LIMIT else STALL_AFTER


# ---------------------------------------------------------------- opcode scheduler (real code)

class Deadlock(Exception):
    pass


class _RegThread(threading.Thread):
    """A real thread that registers itself; hash = index (deterministic set order)."""

    def __init__(self, idx, target):
        self.idx = idx
        super().__init__(target=target, daemon=True, name=f'reg{idx}')

    def __hash__(self):
        return self.idx

    def __eq__(self, other):
        return self is other


def load_skeleton(repo=None):
    from translate import donecb_skeleton as T
    sk, cls = T.skeleton(Path(repo) if repo else C.REPO)
    return T, sk, cls


class Run:
    """One deterministic interleaving of the real ThreadDoneCallback.

    Labels: ['arrive', t] ['step', 'M'|'C'|t] ['die', t] ['close'].
    `do(label)` returns 'disabled' or {'acc': <access name>, 'ev': [...events of this step...]}.
    """

    def __init__(self, cls, sk, T, raises=(), fine=False, repo_cls=None):
        self.cls = cls
        self.fine = fine
        self.raises = set(raises)
        self.codes = {}
        self.park = {}
        for m in T.METHODS:
            code = vars(cls)[m].__code__
            self.codes[code] = m
            self.park[code] = {o: a for o, a, _ in sk[m] if a in T.SHARED}
        self.cv = threading.Condition()
        self.state = {}           # tid -> 'running' | ('parked', method, offset) | 'idle'
        self.grant = {}
        self.tid_of = {}          # thread ident -> tid
        self.events = []          # global event log (for the oracle)
        self.step_ev = []         # events produced during the current label
        self.threads = {}         # t -> _RegThread
        self.die_ev = {}
        self.registered = set()
        self.dead = set()
        self.closer = None
        self.close_result = None  # ('ret', None) | ('raised', exc)
        self.closer_joining = False
        self.close_reported = False
        self.mon_reported = False
        self.aborted = False
        self.obj = None

    # -- tracing
    def _global_trace(self, frame, event, arg):
        if event == 'call' and frame.f_code in self.codes:
            m = self.codes[frame.f_code]
            ident = threading.get_ident()
            if m == '_monitor':
                self.tid_of[ident] = 'M'
                with self.cv:
                    self.state['M'] = 'running'
                    self.grant['M'] = False
            if ident not in self.tid_of:
                return None
            frame.f_trace_opcodes = True
            frame.f_trace_lines = False
            sys.settrace(self._global_trace)      # 3.12: needed for opcode events to start
            return self._local_trace
        return None

    def _local_trace(self, frame, event, arg):
        if event == 'opcode':
            off = frame.f_lasti
            pk = self.park[frame.f_code]
            if self.fine or off in pk:
                self._park(self.tid_of[threading.get_ident()], self.codes[frame.f_code], off)
        elif event == 'return':
            tid = self.tid_of[threading.get_ident()]
            with self.cv:
                self.state[tid] = 'idle'
                self.cv.notify_all()
        return self._local_trace

    def _park(self, tid, method, off):
        with self.cv:
            self.state[tid] = ('parked', method, off)
            self.cv.notify_all()
            end = time.time() + 4 * PARK_TIMEOUT
            while not self.grant[tid]:
                # never raise from a trace function (it crashes CPython 3.12.1 now and then):
                # after an abort / timeout the thread simply runs on unscheduled
                if self.aborted or time.time() > end:
                    self.aborted = True
                    break
                self.cv.wait(0.05)
            self.grant[tid] = False
            self.state[tid] = 'running'

    def _wait_settled(self, tid, allow_running=False):
        """until thread `tid` is parked or idle"""
        end = time.time() + PARK_TIMEOUT
        with self.cv:
            while self.state.get(tid) in (None, 'running'):
                if time.time() > end:
                    raise Deadlock(f'thread {tid} neither parked nor finished after {PARK_TIMEOUT}s (state {self.state.get(tid)})')
                self.cv.wait(0.05)
            return self.state[tid]

    def _ev(self, *e):
        e = list(e)
        self.events.append(e)
        self.step_ev.append(e)

    # -- the pieces of real code
    def start(self):
        def done(th):
            t = th.idx
            if t in self.raises:
                self._ev('cb', t, True)
                raise self.exc_of(t)
            self._ev('cb', t, False)
        self._excs = {}
        threading.settrace(self._global_trace)
        self.obj = self.cls(done=done, interval=0)
        self.mon_thread = self.obj._t
        self._wait_settled('M')

    def exc_of(self, t):
        if t not in self._excs:
            self._excs[t] = ValueError(f'callback-{t}')
        return self._excs[t]

    def stop(self):
        self.aborted = True
        with self.cv:
            for k in self.grant:
                self.grant[k] = True
            self.cv.notify_all()
        for e in self.die_ev.values():
            e.set()
        threading.settrace(None)
        # cleanup only (the verdict of the run is already recorded): make a monitor that is still
        # looping leave, so that no busy thread survives the run
        mon = getattr(self, 'mon_thread', None)
        if mon is not None:
            threading.Thread.join(mon, 0.2)
            if mon.is_alive():
                try:
                    self.obj._closed = True
                    self.obj._active = set()
                except Exception:
                    pass
                threading.Thread.join(mon, 2.0)
        if self.closer is not None:
            self.closer.join(1.0)

    def _reg_target(self, t):
        def target():
            self.tid_of[threading.get_ident()] = t
            self.obj.register()
            self.die_ev[t].wait(8 * PARK_TIMEOUT)
        return target

    def _close_target(self):
        self.tid_of[threading.get_ident()] = 'C'
        try:
            self.obj.close()
            self.close_result = ('ret', None)
        except BaseException as e:      # noqa
            self.close_result = ('raised', e)

    def enabled(self, lab) -> bool:
        k = lab[0]
        if k == 'arrive':
            return lab[1] not in self.threads
        if k == 'die':
            t = lab[1]
            return t in self.threads and self.state.get(t) == 'idle' and t not in self.dead
        if k == 'close':
            return self.closer is None
        if k == 'step':
            s = self.state.get(lab[1])
            if not isinstance(s, tuple):
                return False
            # a thread parked before a lock acquisition can only move when the lock is free
            # (relevant once thread.py is repaired with a lock; a blocked thread is not a deadlock)
            code = vars(self.cls)[s[1]].__code__
            if self.park[code].get(s[2]) == 'LockAcquire':
                lock = getattr(self.obj, '_lock', None)
                if lock is not None and hasattr(lock, 'locked') and lock.locked():
                    return False
            return True
        raise ValueError(lab)

    def exc_name(self, e):
        if e is None:
            return None
        for t, x in self._excs.items():
            if x is e:
                return ['cb', t]
        if isinstance(e, RuntimeError) and 'changed size during iteration' in str(e):
            return ['set-changed']
        if isinstance(e, RuntimeError) and 'registered thread' in str(e):
            return ['registered']
        return ['other', repr(e)]

    def _after(self):
        """monitor exit / close return become visible as events of the step that caused them"""
        if not self.mon_reported and self.state.get('M') == 'idle':
            threading.Thread.join(self.mon_thread, PARK_TIMEOUT)   # ExcThread.join would re-raise
            if self.mon_thread.is_alive():
                raise Deadlock('monitor thread left _monitor but does not end')
            self.mon_reported = True
            self._ev('mon-exit', self.exc_name(getattr(self.mon_thread, 'exc', None)))
        if self.closer is not None and not self.close_reported:
            if self.closer_joining and self.mon_reported or self.state.get('C') == 'idle' and not self.closer_joining:
                if self.fine:
                    # every-opcode mode: join() has returned, run the remaining frame-local opcodes of close()
                    for _ in range(20):
                        if self._wait_settled('C') == 'idle':
                            break
                        with self.cv:
                            self.state['C'] = 'running'
                            self.grant['C'] = True
                            self.cv.notify_all()
                self.closer.join(PARK_TIMEOUT)
                if self.closer.is_alive():
                    raise Deadlock('close() does not return although the monitor thread ended')
                self.close_reported = True
                k, e = self.close_result
                self._ev('close-ret', self.exc_name(e))

    def do(self, lab):
        if not self.enabled(lab):
            return 'disabled'
        self.step_ev = []
        k = lab[0]
        acc = None
        if k == 'arrive':
            t = lab[1]
            self.die_ev[t] = threading.Event()
            th = _RegThread(t, self._reg_target(t))
            self.threads[t] = th
            with self.cv:
                self.state[t] = 'running'
                self.grant[t] = False
            self._ev('arrive', t)
            th.start()
            self._wait_settled(t)
        elif k == 'die':
            t = lab[1]
            self.die_ev[t].set()
            self.threads[t].join(PARK_TIMEOUT)
            if self.threads[t].is_alive():
                raise Deadlock(f'thread {t} does not end')
            self.dead.add(t)
            self._ev('died', t)
        elif k == 'close':
            self._ev('close-called')
            self.closer = threading.Thread(target=self._close_target, daemon=True, name='closer')
            with self.cv:
                self.state['C'] = 'running'
                self.grant['C'] = False
            self.closer.start()
            self._wait_settled('C')
        elif k == 'step':
            tid = lab[1]
            _, method, off = self.state[tid]
            code = vars(self.cls)[method].__code__
            acc = self.park[code].get(off, 'Local')
            with self.cv:
                self.state[tid] = 'running'
                self.grant[tid] = True
                self.cv.notify_all()
            if tid == 'C' and acc == 'Join':
                # join() blocks for real until the monitor thread has ended
                self.closer_joining = True
                if self.mon_reported:
                    self._wait_settled('C')
            else:
                self._wait_settled(tid)
            if tid not in ('M', 'C') and self.state[tid] == 'idle' and tid not in self.registered:
                self.registered.add(tid)
                self._ev('registered', tid)
        self._after()
        return {'acc': acc, 'ev': self.step_ev}


def drain_labels(run: Run, max_mon=400):
    """Complete the run: everybody finishes registering and ends, close() is called, the monitor runs on.
    Yields labels (decided from the harness' own view of the real threads).  A thread waiting for a
    lock (only possible once thread.py uses one) lets the lock holder move first."""
    def parked(w):
        return isinstance(run.state.get(w), tuple)

    def push(w, budget=[4000]):
        # step w until it is no longer parked; if it waits for a lock, step whoever can move
        while parked(w):
            budget[0] -= 1
            if budget[0] < 0:
                raise Deadlock('drain: no progress')
            if run.enabled(['step', w]):
                yield ['step', w]
            else:
                others = [x for x in ['M', 'C'] + sorted(run.threads) if x != w and run.enabled(['step', x])]
                if not others:
                    raise Deadlock(f'thread {w} waits for a lock that nobody can release')
                yield ['step', others[0]]

    for t in sorted(run.threads):
        yield from push(t)
    for t in sorted(run.threads):
        if t not in run.dead:
            yield ['die', t]
    if run.closer is None:
        yield ['close']
    yield from push('C')
    n = 0
    while parked('M'):
        n += 1
        if n > max_mon:
            raise Deadlock(f'monitor still running after {max_mon} steps with every thread ended and close() called')
        yield ['step', 'M']


def execute(env, schedule, raises=(), fine=False, drain=True):
    """Run `schedule` (+ drain) on the real class.
    -> dict(labels=[...], outs=[...], events=[...], final_active=[...], error=None|str)"""
    T, sk, cls = env
    run = Run(cls, sk, T, raises=raises, fine=fine)
    labels, outs = [], []
    err = None
    old = sys.gettrace()
    try:
        run.start()
        for lab in schedule:
            labels.append(lab)
            outs.append(run.do(lab))
        if drain:
            for lab in drain_labels(run):
                labels.append(lab)
                outs.append(run.do(lab))
    except Deadlock as e:
        err = str(e)
    finally:
        final_active = sorted(getattr(th, 'idx', -1) for th in list(run.obj._active)) if run.obj is not None else []
        run.stop()
        sys.settrace(old)
    return dict(labels=labels, outs=outs, events=run.events, final_active=final_active, error=err,
                raises=sorted(raises), fine=bool(fine))


# ---------------------------------------------------------------- oracle (thread half; independent of the model)

def late_classes(r) -> dict:
    """thread -> 'before' (register() returned before close() was called) | 'late' (after the call, while close() was
    still waiting for a 'before' thread that had not been called back: Coq registered_while_close_waits) | 'chain'
    (after the call, before the monitor thread ended, not 'late': e.g. while close() waited only for another late
    thread, or close() was called with nothing registered) | 'outside' (register() returned after the monitor thread
    ended: outside the contract of close(), never called back by the correct code).

    'Before the monitor thread ended' (Coq: registered_before_monitor_exit = EvRegistered while no EvMonExit) is decided
      * access-granularity runs (the steps ARE the model's labels; 'registered' / 'mon-exit' are reported in the step of
        the releasing access, like EvRegistered / EvMonExit): position of 'registered' < position of 'mon-exit' -- exactly
        the definition;
      * every-opcode runs, or no 'mon-exit' observed: a criterion IMPLIED by the definition (never more): some thread u
        registered earlier, itself covered, had not been called back when t's register() returned (u is owed its
        callback, so the monitor has not passed its final check; t's add precedes the return of its register())."""
    ev = r['events']
    reg_at, first_cb = {}, {}
    close_called = mon_exit = None
    for p, e in enumerate(ev):
        k = e[0]
        if k == 'registered':
            reg_at[e[1]] = p
        elif k == 'cb':
            first_cb.setdefault(e[1], p)
        elif k == 'close-called':
            close_called = p
        elif k == 'mon-exit':
            mon_exit = p
    res = {}
    order = sorted(reg_at, key=reg_at.get)
    for t in order:
        if close_called is None or reg_at[t] < close_called:
            res[t] = 'before'
            continue
        owed = [u for u in order if reg_at[u] < reg_at[t] and res[u] != 'outside'
                and (u not in first_cb or first_cb[u] > reg_at[t])]
        if any(res[u] == 'before' for u in owed):
            res[t] = 'late'
        elif not r.get('fine') and mon_exit is not None:
            res[t] = 'chain' if reg_at[t] < mon_exit else 'outside'
        else:
            res[t] = 'chain' if owed else 'outside'
    return res


def oracle_thread(r) -> list:
    """The property text on the observed event log of one COMPLETE run of the real class
    (every thread registered and ended, close() called).  -> [(signature, what)]"""
    bad = []
    if r['error']:
        return [('thread:deadlock', r['error'])]
    ev = r['events']
    reg_at, died_at, cbs = {}, {}, []
    close_called = close_ret = mon_exit = None
    for p, e in enumerate(ev):
        k = e[0]
        if k == 'registered':
            reg_at[e[1]] = p
        elif k == 'died':
            died_at[e[1]] = p
        elif k == 'cb':
            cbs.append((p, e[1], e[2]))
        elif k == 'close-called':
            close_called = p
        elif k == 'close-ret':
            close_ret = (p, e[1])
        elif k == 'mon-exit':
            mon_exit = (p, e[1])
    set_changed = (mon_exit is not None and mon_exit[1] == ['set-changed'])

    cls_of = late_classes(r)

    def covered_late(t):
        """t's register() returned after close() was called but BEFORE THE MONITOR THREAD ENDED (Coq:
        registered_before_monitor_exit, C18_late_registration_general_*): the monitor cannot have made its final
        check without seeing t, so t is monitored like any other ("no matter when other threads register") -- any
        number of generations of late threads, and a close() called with nothing registered yet"""
        return cls_of.get(t) in ('late', 'chain')

    fin = set(r['final_active'])
    if close_ret is None:
        bad.append(('thread:close-hangs', 'close() never returned although every registered thread ended'))
    for t in sorted(reg_at):
        n = sum(1 for (_, u, _) in cbs if u == t)
        if n == 0 and close_called is not None and reg_at[t] > close_called and not covered_late(t):
            continue        # register() returned after the monitor thread ended: outside the contract of close()
        if n == 0:
            if close_called is not None and reg_at[t] > close_called and not set_changed:
                bad.append(('thread:registration-during-close-dropped',
                            f'thread {t} registered after close() was called but before the monitor thread ended '
                            f'({"while close() was still waiting for a thread registered before the call" if cls_of.get(t) == "late" else "chain-late: close() was waiting only for other late threads, or for nothing yet"}); '
                            f'it ended but its callback was never invoked'
                            + (' and close() returned without waiting for it' if close_ret and died_at.get(t, 1 << 30) > close_ret[0] else '')))
            elif set_changed:
                bad.append(('thread:set-changed-size',
                            f'thread {t} registered and ended but its callback was never invoked: the monitor thread '
                            f'died with "RuntimeError: Set changed size during iteration"'))
            elif t in fin:
                bad.append(('thread:exit-race',
                            f'thread {t} registered (before close() was called) and ended but its callback was never '
                            f'invoked: the monitor saw an empty set, then _closed, and left; close() returned '
                            f'{"before the thread ended" if close_ret and died_at.get(t, 1 << 30) > close_ret[0] else "without the callback"}'))
            else:
                bad.append(('thread:lost-update',
                            f'thread {t} registered and ended but its callback was never invoked and it is no longer in '
                            f'_active: its add() went to a set object that `self._active = self._active - done` replaced'))
        elif n > 1:
            bad.append(('thread:callback-duplicate', f'callback invoked {n} times for thread {t}'))
    for (p, t, _) in cbs:
        if t not in died_at or died_at[t] > p:
            bad.append(('thread:callback-before-end', f'callback for thread {t} invoked while the thread was alive'))
        if t not in reg_at:
            bad.append(('thread:callback-unregistered', f'callback for thread {t} which never registered'))
    if close_ret is not None and close_called is not None:
        for t in sorted(reg_at):
            if reg_at[t] < close_called or covered_late(t):
                if died_at.get(t, 1 << 30) > close_ret[0]:
                    bad.append(('thread:close-early' if not set_changed else 'thread:set-changed-size',
                                f'close() returned while registered thread {t} was still running'))
        raised = [t for (_, t, rz) in cbs if rz]
        want = ['cb', raised[0]] if raised else None
        got = close_ret[1]
        if got != want:
            if got == ['set-changed']:
                bad.append(('thread:set-changed-size',
                            'close() raised "RuntimeError: Set changed size during iteration" (the monitor thread died)'
                            + (f'; the exception of the callback for thread {raised[0]} is lost' if raised else '')))
            elif want is not None and got is None:
                bad.append(('thread:exception-lost', f'callback for thread {raised[0]} raised but close() returned normally'))
            else:
                bad.append(('thread:close-raised-other', f'close() raised {got}, expected {want}'))
    # one per signature
    seen, res = set(), []
    for s, w in bad:
        if s not in seen:
            seen.add(s)
            res.append((s, w))
    return res


# ---------------------------------------------------------------- Coq terms

def who_term(w) -> str:
    return 'Mon' if w == 'M' else 'Closer' if w == 'C' else f'(Reg {cnat(w)})'


def label_term(l) -> str:
    k = l[0]
    if k == 'arrive': return f'Arrive {cnat(l[1])}'
    if k == 'die': return f'Die {cnat(l[1])}'
    if k == 'close': return 'CloseCall'
    if k == 'step': return f'Step {who_term(l[1])}'
    raise ValueError(l)


def exn_term(e) -> str:
    if e is None: return 'None'
    if e[0] == 'cb': return f'(Some (ExCb {cnat(e[1])}))'
    if e[0] == 'set-changed': return '(Some ExSetChanged)'
    if e[0] == 'registered': return '(Some ExRegistered)'
    raise ValueError(e)


def event_terms(evs) -> list:
    res = []
    for e in evs:
        k = e[0]
        if k == 'registered': res.append(f'EvRegistered {cnat(e[1])}')
        elif k == 'cb': res.append(f'EvCb {cnat(e[1])} {cbool(e[2])}')
        elif k == 'mon-exit': res.append(f'EvMonExit {exn_term(e[1])}')
        elif k == 'close-ret': res.append(f'EvCloseRet {exn_term(e[1])}')
    return res


def out_term(o) -> str:
    if o == 'disabled': return 'ODisabled'
    if o['acc'] is None: return 'OOk'
    return f'(OAcc {o["acc"]} {clist(event_terms(o["ev"]))})'


HEADER = 'From NL Require Import DoneCb.Model.\n'


def thread_cases_file(rs, fn='bad_from') -> str:
    rows = []
    for r in rs:
        rows.append('(' + ', '.join([clist(map(cnat, r['raises'])), clist(map(label_term, r['labels'])),
                                     clist(map(out_term, r['outs'])), clist(map(cnat, r['final_active']))]) + ')')
    return (HEADER + 'Definition cases : list case :=\n ' + clist(rows).replace('); (', ');\n (') + '.\n'
            f'Eval vm_compute in {fn} 0%nat cases.\n')


# ---------------------------------------------------------------- schedules

S = lambda w: ['step', w]      # noqa: E731


def merges(seqs):
    """all interleavings of the given sequences (each keeps its own order)"""
    seqs = [s for s in seqs if s]
    if not seqs:
        yield []
        return
    for i, s in enumerate(seqs):
        rest = seqs[:i] + [s[1:]] + seqs[i + 1:]
        for m in merges(rest):
            yield [s[0]] + m


# the three schedules on which the unrepaired thread.py violated the property (also in corpus/C18);
# written for the old access sequence, they are still schedules of the repaired code
WITNESS = {
    'iteration': dict(raises=[], schedule=[S('M'), S('M'), ['arrive', 1], S(1), S(1), S('M')]),
    'lost_update': dict(raises=[], schedule=[['arrive', 1], S(1), S(1), ['die', 1]] + [S('M')] * 8
                        + [['arrive', 2], S(2), S(2), S('M')]),
    'exit_race': dict(raises=[], schedule=[S('M')] * 5 + [['arrive', 1], S(1), S(1), ['close'], S('C'), S('C'), S('C'), S('M')]),
    # the same races aimed at the repaired code: the registering thread tries while the monitor is
    # inside the scan / between `-` and the store / between the truth test and `_closed`
    'iteration_locked': dict(raises=[], schedule=[S('M')] * 3 + [['arrive', 1], S(1), S(1), S('M'), S(1)]),
    'lost_update_locked': dict(raises=[], schedule=[['arrive', 1], S(1), S(1), S(1), S(1), ['die', 1]] + [S('M')] * 8
                               + [['arrive', 2], S(2), S(2), S('M'), S(2), S('M'), S(2)]),
    'exit_race_locked': dict(raises=[], schedule=[S('M')] * 11 + [['arrive', 1], S(1), S('M'), S(1), S('M'), S(1), S(1), S(1),
                                                                  S(1), ['close'], S('C'), S('C'), S('C')]),
}


def exhaustive_schedules(k1, k2, d1s, kc, kf):
    """register() = arrive; LockAcquire; [LoadActive; SetAdd; LockRelease]  (the bracket is one block:
    while a thread holds the lock the monitor can only do lock-free accesses or wait).
       (a) one thread: every placement of arrive / LockAcquire / block among k1 monitor steps;
       (b) thread 1 registered first and ending after d1 monitor steps, thread 2: every placement among k2;
       (c) one thread + close(): every placement of arrive / LockAcquire / block and of the block
           close();LoadActive;Contains;StoreClosed among kc monitor steps;
       (f) one thread, all five events separately (+ die) among kf monitor steps;
       (e) see below."""
    BL = ('BLOCK',)

    def expand(m, t):
        i = m.index(BL)
        return m[:i] + [S(t), S(t), S(t)] + m[i + 1:]
    for m in merges([[S('M')] * k1, [['arrive', 1], S(1), BL]]):
        yield 'one', [], expand(m, 1)
    for d1 in d1s:
        pre = [['arrive', 1], S(1), S(1), S(1), S(1)] + [S('M')] * d1 + [['die', 1]]
        for m in merges([[S('M')] * (k2 - d1), [['arrive', 2], S(2), BL]]):
            yield 'two', [], pre + expand(m, 2)
    blk = ('CLOSE',)
    for m in merges([[S('M')] * kc, [['arrive', 1], S(1), BL, blk]]):
        m = expand(m, 1)
        i = m.index(blk)
        yield 'close', [], m[:i] + [['close'], S('C'), S('C'), S('C')] + m[i + 1:]
    for m in merges([[S('M')] * kf, [['arrive', 1], S(1), S(1), S(1), S(1), ['die', 1]]]):
        yield 'one-fine', [], m
    # (e) the exit check: the monitor first runs up to the end of its first rebuild (8 accesses on an empty
    #     set), then every placement of thread 1 and of the close() block among the next 6 monitor accesses
    for m in merges([[S('M')] * 6, [['arrive', 1], S(1), BL, blk]]):
        m = expand(m, 1)
        i = m.index(blk)
        yield 'close-late', [], [S('M')] * 8 + m[:i] + [['close'], S('C'), S('C'), S('C')] + m[i + 1:]


def late_chain_schedule(rng, nthreads):
    """close() is called early (with 0-2 threads registered, possibly none), then a CHAIN of late arrivals: thread k+1
    starts registering while thread k is still alive / its callback is pending, with random monitor progress in between
    (so some of them land after the monitor thread ended); labels that are not enabled are no-ops on both sides"""
    lab = []
    nbefore = rng.choice([0, 0, 1, 1, 2])
    nbefore = min(nbefore, nthreads - 1)
    for t in range(1, nbefore + 1):
        lab += [['arrive', t]] + [S(t)] * 4
    lab += [S('M')] * rng.randint(0, 20)
    for t in range(1, nbefore + 1):
        if rng.random() < 0.3:
            lab.append(['die', t])
    lab += [['close']] + [S('C')] * rng.choice([3, 4, 4, 4])
    alive = [t for t in range(1, nbefore + 1)]
    for t in range(nbefore + 1, nthreads + 1):
        lab += [S('M')] * rng.choice([0, 0, 2, 3, 5, 8, 10, 13, rng.randint(0, 24)])
        reg = [['arrive', t]] + [S(t)] * 4
        # the registering thread interleaved with the monitor
        mons = [S('M')] * rng.choice([0, 0, 2, 5, rng.randint(0, 12)])
        i = j = 0
        while i < len(reg) or j < len(mons):
            if j >= len(mons) or (i < len(reg) and rng.random() < 0.6):
                lab.append(reg[i]); i += 1
            else:
                lab.append(mons[j]); j += 1
        lab += [S(t)] * 2                      # in case it was blocked at the lock
        alive.append(t)
        # earlier threads end only now (or later): close() keeps waiting for somebody while t registers
        for u in list(alive[:-1]):
            if rng.random() < 0.7:
                lab.append(['die', u]); alive.remove(u)
        if rng.random() < 0.3:
            lab += [S('C')]
    raises = [t for t in range(1, nthreads + 1) if rng.random() < 0.25]
    return raises, lab


def random_schedule(rng, nthreads, length):
    """random labels; mostly enabled ones (the model treats the others as no-ops too)"""
    lab = []
    arrived, closed = set(), False
    for _ in range(length):
        x = rng.random()
        if x < 0.45:
            lab.append(S('M'))
        elif x < 0.60 and len(arrived) < nthreads and (not closed or rng.random() < 0.5):
            t = rng.choice([u for u in range(1, nthreads + 1) if u not in arrived])
            arrived.add(t); lab.append(['arrive', t])
        elif x < 0.85 and arrived:
            lab.append(S(rng.choice(sorted(arrived))))
        elif x < 0.93 and arrived:
            lab.append(['die', rng.choice(sorted(arrived))])
        elif x < 0.96:
            lab.append(['close']); closed = True
        else:
            lab.append(S('C'))
    raises = [t for t in range(1, nthreads + 1) if rng.random() < 0.25]
    return raises, lab


# ---------------------------------------------------------------- task half: real TaskDoneCallback

async def run_task_case(raises, ops):
    """ops: ['reg', t] | ['complete', t] | ['close'] -> per op the list of observed events
    ['cb', t, raised] / ['close-ret', t|None]; tasks are gated by futures, so the completion
    order is exactly the order of the 'complete' ops."""
    from nextline.utils.done_callback.task import TaskDoneCallback
    loop = asyncio.get_running_loop()
    log = []
    idx, futs, tasks, excs = {}, {}, {}, {}

    def done(task):
        t = idx[task]
        if t in raises:
            log.append(['cb', t, True])
            e = ValueError(f'task-callback-{t}')
            excs[id(e)] = (t, e)
            raise e
        log.append(['cb', t, False])

    obj = TaskDoneCallback(done=done)

    async def body(t):
        await futs[t]

    async def get(t):
        if t not in tasks:
            futs[t] = loop.create_future()
            tasks[t] = asyncio.ensure_future(body(t))
            idx[tasks[t]] = t
            await asyncio.sleep(0)
        return tasks[t]

    closer = None
    result = []

    def close_target():
        try:
            obj.close(interval=0.0005)
            result.append(None)
        except BaseException as e:   # noqa
            result.append(e)

    reported = False
    outs = []
    for op in list(ops) + [['end']]:
        del log[:]
        k = op[0]
        if k == 'reg':
            obj.register(await get(op[1]))
        elif k == 'complete':
            await get(op[1])
            if not futs[op[1]].done():
                futs[op[1]].set_result(None)
        elif k == 'close':
            if closer is None:
                closer = threading.Thread(target=close_target, daemon=True)
                closer.start()
        elif k == 'end':
            # not part of the case: let everything finish
            for t in list(tasks):
                if not futs[t].done():
                    futs[t].set_result(None)
        for _ in range(4):
            await asyncio.sleep(0)
        if closer is not None and not reported:
            # how long to wait is decided by peeking; WHETHER it returned is observed
            closer.join(2.0 if not obj._active else 0.004)
            if not closer.is_alive():
                reported = True
                e = result[0]
                log.append(['close-ret', None if e is None else excs.get(id(e), (9999, e))[0]])
        if k != 'end':
            outs.append([list(x) for x in log])
    if closer is not None and closer.is_alive():
        outs.append([['close-never-returned']])
    return outs


async def run_task_window_case(raises, n, hold=0.06):
    """close() is called from ANOTHER THREAD (as the subprocess' main thread does for the tasks of a traced event loop) and
    polls while the registered tasks end one after the other; for each task the window between `task.done()` becoming true
    and the loop running the task's done-callbacks is held open: a callback added to the task BEFORE it was registered (so it
    runs first) keeps the loop thread busy for `hold` seconds.  Observed with clocks: when each callback was invoked, when
    close() returned and what it raised.  -> dict"""
    import time
    from nextline.utils.done_callback.task import TaskDoneCallback
    loop = asyncio.get_running_loop()
    t_cb, excs = {}, {}
    idx, futs, tasks = {}, {}, {}

    def done(task):
        t = idx[task]
        t_cb.setdefault(t, []).append(time.monotonic())
        if t in raises:
            e = ValueError(f'task-callback-{t}')
            excs[id(e)] = t
            raise e

    obj = TaskDoneCallback(done=done)

    async def body(t):
        await futs[t]

    for t in range(1, n + 1):
        futs[t] = loop.create_future()
        tasks[t] = asyncio.ensure_future(body(t))
        idx[tasks[t]] = t
        tasks[t].add_done_callback(lambda _task, hold=hold: time.sleep(hold))     # runs before the helper's own callback
        await asyncio.sleep(0)
        obj.register(tasks[t])
    result = {}

    def close_target():
        try:
            obj.close(interval=0.0005)
            result['raised'] = None
        except BaseException as e:   # noqa
            result['raised'] = excs.get(id(e), repr(e))
        result['t'] = time.monotonic()

    closer = threading.Thread(target=close_target, daemon=True)
    closer.start()
    await asyncio.sleep(0.01)
    for t in range(1, n + 1):
        futs[t].set_result(None)
        await asyncio.sleep(0)
        await asyncio.sleep(0)
    for _ in range(400):
        if not closer.is_alive():
            break
        await asyncio.sleep(0.005)
    return {'n': n, 'raises': sorted(raises), 't_cb': {str(k): v for k, v in t_cb.items()}, 'close': dict(result), 'closer_alive': closer.is_alive()}


def oracle_task_window(o: dict) -> list:
    bad = []
    if o['closer_alive'] or 't' not in o['close']:
        return [('task:close-hangs', 'close() called from another thread never returned although every registered task ended')]
    for t in range(1, o['n'] + 1):
        cbs = o['t_cb'].get(str(t), [])
        if len(cbs) != 1:
            bad.append(('task:callback-count', f'callback invoked {len(cbs)} times for task {t}'))
        elif cbs[0] > o['close']['t']:
            bad.append(('task:close-early:before-callback', f'close() (from another thread) returned before the callback of registered task {t} had been invoked: '
                                                           f'the task was done but its done-callbacks had not run yet'))
    want = o['raises'][0] if o['raises'] else None
    got = o['close'].get('raised')
    if not bad and got != want:
        bad.append(('task:exception-lost' if want is not None and got is None else 'task:close-raised-other',
                    f'close() raised {got!r}, the first raising callback is that of task {want}'))
    seen, res = set(), []
    for s0, w in bad:
        if s0 not in seen:
            seen.add(s0); res.append((s0, w))
    return res


async def run_union_case(default_reg: bool, raise_who, close_first: bool, task_first: bool = False):
    """The real ThreadTaskDoneCallback with ONE task and ONE thread registered through it (explicitly, or -- default_reg --
    each registering itself with register()); close() is called from another thread before (close_first) or after both have
    ended.  raise_who: None | 'task' | 'thread' (whose callback raises).  -> dict of observations"""
    from nextline.utils.done_callback.union import ThreadTaskDoneCallback
    loop = asyncio.get_running_loop()
    cbs, excs, result = [], {}, {}

    def done(x):
        kind = 'task' if isinstance(x, asyncio.Task) else 'thread'
        cbs.append([kind, time.monotonic()])
        if kind == raise_who:
            e = ValueError(f'union-callback-{kind}')
            excs[id(e)] = kind
            raise e

    obj = ThreadTaskDoneCallback(done=done, interval=0.0005)
    fut = loop.create_future()
    ev, registered = threading.Event(), threading.Event()

    def reg(*a):
        try:
            obj.register(*a)
        except BaseException as e:   # noqa
            result.setdefault('register_raised', repr(e))

    async def body():
        if default_reg:
            reg()
        await fut

    def target():
        if default_reg:
            reg()
        registered.set()
        ev.wait(10)

    task = asyncio.ensure_future(body())
    th = threading.Thread(target=target, daemon=True)
    th.start()
    await asyncio.sleep(0)
    if not default_reg:
        reg(task)
        reg(th)
    for _ in range(200):
        if registered.is_set():
            break
        await asyncio.sleep(0.005)

    def close_target():
        try:
            obj.close(interval=0.0005)
            result['raised'] = None
        except BaseException as e:   # noqa
            result['raised'] = excs.get(id(e), repr(e))
        result['t'] = time.monotonic()

    closer = threading.Thread(target=close_target, daemon=True)
    early = False
    if close_first:
        closer.start()
        await asyncio.sleep(0.03)
        early = not closer.is_alive()
    if task_first:
        # the task ends (and is called back) while the registered thread is still running: close() must go on waiting
        fut.set_result(None)
        for _ in range(4):
            await asyncio.sleep(0)
        await asyncio.sleep(0.06)
        if close_first and not closer.is_alive() and th.is_alive():
            early = True
    ev.set()
    th.join(5)
    if not task_first:
        fut.set_result(None)
    for _ in range(4):
        await asyncio.sleep(0)
    t_ended = time.monotonic()
    if not close_first:
        closer.start()
    for _ in range(400):
        if not closer.is_alive():
            break
        await asyncio.sleep(0.005)
    for _ in range(100):                     # callbacks still owed after close() (only when it raised)
        if len(cbs) >= 2:
            break
        await asyncio.sleep(0.005)
    hung = closer.is_alive()
    try:                                     # cleanup: never leave a polling monitor thread behind
        obj._task_callback._active.clear()
        obj._thread_callback._closed = True
        threading.Thread.join(obj._thread_callback._t, 1.0)
    except Exception:
        pass
    return {'default_reg': default_reg, 'raise_who': raise_who, 'close_first': close_first, 'task_first': task_first, 'cbs': cbs, 't_ended': t_ended,
            'close': dict(result), 'close_returned_while_alive': early, 'closer_alive': hung}


def _bounded_close(obj, bad: list, case: str, timeout: float = 5.0) -> bool:
    """obj.close() in a helper thread: on a broken ThreadDoneCallback close() may never return (the check must not hang).
    -> True iff close() returned; an exception of close() is re-raised here, as a direct call would."""
    box = {}

    def run():
        try:
            obj.close()
        except BaseException as e:      # noqa
            box['exc'] = e

    th = threading.Thread(target=run, daemon=True, name='verif-close')
    th.start()
    th.join(timeout)
    if th.is_alive():
        bad.append(('thread:close-hangs', f'{case}: every registered thread has ended, close() did not return within {timeout}s'))
        return False
    if 'exc' in box:
        raise box['exc']
    return True


def run_thread_api_cases() -> list:
    """the real ThreadDoneCallback through its API, no scheduler: (a) a thread registered BY ANOTHER thread (register(t)) is the
    one that is called back, with that thread object as the argument; (b) a registered thread all of whose references the
    caller dropped is still called back after it ended (the helper itself must keep it); (c) register() returns the thread.
    -> [(signature, what)]"""
    import gc
    from nextline.utils.done_callback.thread import ThreadDoneCallback
    bad = []
    # (a), (c)
    got = []
    obj = ThreadDoneCallback(done=lambda t: got.append(t.name), interval=0.001)
    ev = threading.Event()
    other = threading.Thread(target=ev.wait, args=(5,), name='verif-other', daemon=True)
    other.start()
    r = obj.register(other)
    if r is not other:
        bad.append(('thread:register-returns-other-object', f'register(t) returned {r!r}'))
    ev.set()
    other.join(5)
    _bounded_close(obj, bad, 'register(other thread)')
    if got != ['verif-other']:
        bad.append(('thread:callback-for-wrong-thread', f'register(<thread verif-other>) from the main thread: callbacks invoked for {got}'))
    # (b)
    got2 = []
    obj = ThreadDoneCallback(done=lambda t: got2.append(t.name), interval=0.02)
    ev2 = threading.Event()
    th = threading.Thread(target=ev2.wait, args=(5,), name='verif-dropped', daemon=True)
    th.start()
    obj.register(th)
    ev2.set()
    th.join(5)
    del th
    gc.collect()
    time.sleep(0.08)
    _bounded_close(obj, bad, 'registered thread without other references')
    if got2 != ['verif-dropped']:
        bad.append(('thread:callback-lost-for-unreferenced-thread', f'a registered thread whose references were dropped by the caller ended; callbacks invoked for {got2}'))
    # (d) a close() that arrives while an earlier close() is still waiting (two closers; or the worker of a cancelled
    # `aclose()` left inside close()): EVERY close returns only after the registered thread has ended and was called back
    got3 = []
    obj = ThreadDoneCallback(done=lambda t: got3.append(t.name), interval=0.001)
    ev3 = threading.Event()
    th3 = threading.Thread(target=ev3.wait, args=(10,), name='verif-slow', daemon=True)
    th3.start()
    obj.register(th3)
    returned = {}

    def closer(k):
        try:
            obj.close()
            returned[k] = (th3.is_alive(), list(got3))
        except BaseException as e:      # noqa
            returned[k] = ('raised', repr(e))

    c1 = threading.Thread(target=closer, args=(1,), daemon=True)
    c1.start()
    time.sleep(0.05)
    c2 = threading.Thread(target=closer, args=(2,), daemon=True)
    c2.start()
    c2.join(0.3)
    early = dict(returned)
    ev3.set()
    c1.join(5); c2.join(5)
    for k in (1, 2):
        if k in early:
            bad.append(('thread:close-returned-before-registered-thread-ended',
                        f'close() number {k} (issued while {"no" if k == 1 else "an earlier"} close() was waiting) returned while the registered thread was alive: {early[k]}'))
        elif returned.get(k) != (False, ['verif-slow']):
            bad.append(('thread:overlapping-close', f'close() number {k}: (thread alive, callbacks so far) at its return = {returned.get(k)}'))
    return bad


def oracle_union(o: dict) -> list:
    bad = []
    if o['close'].get('register_raised'):
        return [('union:register-raised', f"ThreadTaskDoneCallback.register() raised {o['close']['register_raised']}")]
    if o['closer_alive'] or 't' not in o['close']:
        return [('union:close-hangs', 'ThreadTaskDoneCallback.close() never returned although the registered task and thread ended')]
    for kind in ('task', 'thread'):
        n = sum(1 for k, _ in o['cbs'] if k == kind)
        if n != 1:
            bad.append(('union:callback-count', f'callback invoked {n} times for the registered {kind}'))
    if o['close_returned_while_alive']:
        bad.append(('union:close-early' + (':thread-alive-after-task-callback-raised' if o.get('task_first') and o['raise_who'] == 'task' else ''),
                    'ThreadTaskDoneCallback.close() ended while ' + ('the registered thread was still running (the callback of the registered task had raised: '
                    'close() re-raised it at once and never closed the thread helper)' if o.get('task_first') else 'the registered task and thread were still running')))
    want, got = o['raise_who'], o['close'].get('raised')
    if got != want:
        bad.append(('union:exception-lost' if want is not None and got is None else 'union:close-raised-other',
                    f'ThreadTaskDoneCallback.close() raised {got!r}; the callback that raised: {want}'))
    if want is None:
        late = [k for k, t in o['cbs'] if t > o['close']['t']]
        if late:
            bad.append(('union:close-early:before-callback', f'close() returned before the callback of the registered {late[0]} had been invoked'))
    seen, res = set(), []
    for s0, w in bad:
        if s0 not in seen:
            seen.add(s0); res.append((s0, w))
    return res


UNION_CASES = [(d, r, c, False) for d in (False, True) for r in (None, 'task', 'thread') for c in (False, True)
               if not (c and r == 'task')] + \
              [(d, r, True, True) for d in (False, True) for r in (None, 'task')]     # the task ends first, the thread is still running


def oracle_task(raises, ops, outs) -> list:
    bad = []
    pending, finished = set(), set()      # registered-and-owed, ended
    owed = {}                             # t -> callbacks owed so far
    got = {}
    registered_all = set()
    close_started = False
    first_raised = None
    if len(outs) > len(ops):
        bad.append(('task:close-hangs', 'close() never returned although every task ended'))
        outs = outs[:len(ops)]
    for op, evs in zip(ops, outs):
        k = op[0]
        if k == 'reg':
            t = op[1]
            if t not in pending:
                owed[t] = owed.get(t, 0) + 1
                pending.add(t)
        elif k == 'complete':
            finished.add(op[1])
        elif k == 'close':
            close_started = True
        for e in evs:
            if e[0] == 'cb':
                t = e[1]
                got[t] = got.get(t, 0) + 1
                if t not in finished:
                    bad.append(('task:callback-before-end', f'callback for task {t} before the task ended'))
                if got[t] > owed.get(t, 0):
                    bad.append(('task:callback-duplicate', f'callback for task {t} invoked {got[t]} times for {owed.get(t, 0)} registration(s)'))
                pending.discard(t)
                if e[2] and first_raised is None:
                    first_raised = t
            elif e[0] == 'close-ret':
                if not close_started:
                    bad.append(('task:close-spurious', 'close returned before it was called'))
                late = [t for t in pending]
                if late:
                    bad.append(('task:close-early', f'close() returned while registered task(s) {sorted(late)} had not ended / been called back'))
                if e[1] != first_raised:
                    bad.append(('task:exception-lost', f'close() raised {e[1]}, first callback exception is {first_raised}'))
    for t in pending & finished:
        bad.append(('task:callback-missing', f'task {t} registered and ended, callback never invoked'))
    return bad


def top_term(o) -> str:
    if o[0] == 'reg': return f'TReg {cnat(o[1])}'
    if o[0] == 'complete': return f'TComplete {cnat(o[1])}'
    return 'TClose'


def tev_term(e) -> str:
    if e[0] == 'cb': return f'TCb {cnat(e[1])} {cbool(e[2])}'
    if e[0] == 'close-ret': return 'TCloseRet ' + ('None' if e[1] is None else f'(Some {cnat(min(e[1], 4999))})')
    if e[0] == 'close-never-returned': return 'TCloseRet (Some 4998%nat)'
    raise ValueError(e)


def task_cases_file(cases) -> str:
    rows = []
    for raises, ops, outs in cases:
        rows.append('(' + ', '.join([clist(map(cnat, sorted(raises))), clist(map(top_term, ops)),
                                     clist(clist(map(tev_term, evs)) for evs in outs)]) + ')')
    return ('From NL Require Import DoneCb.Task.\nDefinition cases : list tcase :=\n ' + clist(rows).replace('); (', ');\n (')
            + '.\nEval vm_compute in tbad_from 0%nat cases.\n')


def task_cases(rng, nmax, nrandom):
    """all completion orders of n <= nmax tasks (all registered first), close() at the end / at every position
    for n <= 3; plus random op sequences with re-registration and unregistered tasks"""
    for n in range(0, nmax + 1):
        for order in itertools.permutations(range(1, n + 1)):
            regs = [['reg', t] for t in range(1, n + 1)]
            comp = [['complete', t] for t in order]
            positions = range(len(comp) + 1) if n <= 3 else [0, len(comp)]
            for p in positions:
                ops = regs + comp[:p] + [['close']] + comp[p:]
                raises = {t for t in range(1, n + 1) if (t * 7 + p + len(order)) % 4 == 0}
                yield raises, ops
    for _ in range(nrandom):
        n = rng.randint(1, 5)
        ops = []
        for _ in range(rng.randint(1, 14)):
            x = rng.random()
            t = rng.randint(1, n)
            ops.append(['reg', t] if x < 0.45 else ['complete', t] if x < 0.92 else ['close'])
        yield {t for t in range(1, n + 1) if rng.random() < 0.3}, ops


# ---------------------------------------------------------------- main entry points

def shrink_thread(env, raises, labels, sig):
    """drop labels while the same oracle signature persists (the drain is re-appended by execute)"""
    cur = list(labels)
    changed = True
    budget = 400
    t_end = time.time() + 15
    stalls, stall_max = 0, min(2, _stall_budget())
    while changed and budget > 0 and time.time() < t_end and stalls < stall_max:
        changed = False
        for i in range(len(cur) - 1, -1, -1):
            cand = cur[:i] + cur[i + 1:]
            budget -= 1
            r = execute(env, cand, raises=raises)
            if r['error']:
                stalls += 1
                _STALLS['total'] += 1
            if any(s == sig for s, _ in oracle_thread(r)):
                cur = cand
                changed = True
                break
            if budget <= 0 or time.time() > t_end or stalls >= stall_max:
                break
    return cur


def nontrivial_thread(r) -> bool:
    """a registration step happened while the monitor was in the middle of its loop body, or a callback fired"""
    seen_mon = False
    for lab, o in zip(r['labels'], r['outs']):
        if o == 'disabled':
            continue
        if lab == ['step', 'M']:
            seen_mon = True
        if lab[0] == 'step' and lab[1] not in ('M', 'C') and seen_mon:
            return True
    return any(e[0] == 'cb' for e in r['events'])


def _thread_runs(ctx, corr, env, jobs, deadline):
    """jobs: iterable of (kind, raises, schedule).  Runs them on the real class, oracle on each."""
    runs = []
    hist, sigs, lcls = {}, {}, {}
    seen = set()
    best = {}
    stalls, stall_max = 0, _stall_budget()
    for kind, raises, sched in jobs:
        if time.time() > deadline:
            ctx.notes.append(f'thread schedules: time budget reached after {len(runs)} runs')
            break
        if stalls >= stall_max:
            ctx.notes.append(f'thread schedules: {stalls} runs ended in a park timeout / deadlock; no further runs of this '
                             f'phase scheduled after {len(runs)} runs (the oracle has judged the completed ones)')
            break
        r = execute(env, sched, raises=raises)
        if r['error']:
            stalls += 1
            _STALLS['total'] += 1
        r['kind'] = kind
        runs.append(r)
        hist[kind] = hist.get(kind, 0) + 1
        key = json.dumps([r['raises'], r['labels']])
        if key not in seen:
            seen.add(key)
            if nontrivial_thread(r):
                corr.distinct_nontrivial += 1
        for c in late_classes(r).values():
            lcls[c] = lcls.get(c, 0) + 1
        for sig, what in oracle_thread(r):
            sigs[sig] = sigs.get(sig, 0) + 1
            if sig not in best or len(r['labels']) < len(best[sig][0]['labels']):
                best[sig] = (r, what, sched)
    for sig, (r, what, sched) in best.items():
        small = shrink_thread(env, r['raises'], sched, sig)
        rr = execute(env, small, raises=r['raises']) if small != list(sched) else r
        corr.violations.append(Violation(sig, what, {
            'half': 'thread', 'raises': r['raises'], 'schedule': small,
            'schedule_with_drain': rr['labels'], 'observed_events': rr['events'],
            'final_active': rr['final_active'], 'occurrences_this_run': sigs[sig],
            'required': 'every registered thread called back exactly once after it ended; close() returns only after '
                        'that and re-raises the first callback exception (nothing else)'}))
    corr.extra['thread_schedule_kinds'] = hist
    corr.extra['thread_violation_counts'] = sigs
    # registrations judged, by class (late_classes): 'late'/'chain' are judged like 'before'; 'outside' are not
    corr.extra['thread_registration_classes'] = lcls
    return runs


def _compare_thread(ctx, corr, runs):
    ok_runs = []
    for r in runs:
        bad_exc = any(e[0] in ('mon-exit', 'close-ret') and e[1] is not None and e[1][0] == 'other' for e in r['events'])
        if r['error'] or bad_exc:
            corr.mismatches.append({'kind': 'thread-unmodelled', 'error': r['error'], 'schedule': r['labels'], 'events': r['events']})
        else:
            ok_runs.append(r)
    CH = 400
    exact = [r for r in ok_runs if r.get('kind') != 'fine']
    coarse = [r for r in ok_runs if r.get('kind') == 'fine']
    files, index = {}, {}
    for tag, lst, fn in (('thr', exact, 'bad_from'), ('fine', coarse, 'bad_from_coarse')):
        for i in range(0, len(lst), CH):
            name = f'{tag}_{i // CH}'
            files[name] = thread_cases_file(lst[i:i + CH], fn)
            index[name] = lst[i:i + CH]
    for name, (ok, out) in ctx.coq_eval_many(files).items():
        bad = C.parse_nat_list(out) if ok else None
        if bad is None:
            corr.mismatches.append({'kind': 'coq-eval-failed', 'file': name, 'log': out[-600:]})
            continue
        for b in bad:
            r = index[name][b]
            corr.mismatches.append({'kind': 'thread', 'raises': r['raises'], 'schedule': r['labels'],
                                    'impl_outs': r['outs'], 'impl_final_active': r['final_active']})
    return len(exact) + len(coarse)


def _fine_runs(ctx, corr, env, n):
    """every-opcode mode: park before EVERY bytecode of register/close/_monitor; the projection of the
    run onto shared accesses must behave like the access-granularity run (checked through the model)."""
    rng = ctx.rng
    runs = []
    stalls, stall_max = 0, _stall_budget()
    for _ in range(n):
        if stalls >= stall_max:
            ctx.notes.append(f'every-opcode mode: {stalls} runs ended in a park timeout / deadlock; stopped after {len(runs)} runs')
            break
        raises, _ = random_schedule(rng, 2, 0)
        T, sk, cls = env
        run = Run(cls, sk, T, raises=raises, fine=True)
        labels, outs = [], []
        err = None
        old = sys.gettrace()
        try:
            run.start()
            arrived = 0
            for _ in range(rng.randint(20, 160)):
                cands = [['step', 'M']] * 3
                if arrived < 2:
                    cands.append(['arrive', arrived + 1])
                cands += [['step', t] for t in run.threads] * 2 + [['die', t] for t in run.threads]
                cands += [['close'], ['step', 'C']]
                cands = [c for c in cands if run.enabled(c)]
                if not cands:
                    break
                lab = rng.choice(cands)
                if lab[0] == 'arrive':
                    arrived += 1
                labels.append(lab); outs.append(run.do(lab))
            for lab in drain_labels(run, max_mon=4000):
                labels.append(lab); outs.append(run.do(lab))
        except Deadlock as e:
            err = str(e)
        finally:
            fin_active = sorted(getattr(th, 'idx', -1) for th in list(run.obj._active))
            run.stop()
            sys.settrace(old)
        if err:
            stalls += 1
            _STALLS['total'] += 1
        # projection: keep shared accesses; events of frame-local steps move to the thread's previous access
        pl, po = [], []
        last = {}
        for lab, o in zip(labels, outs):
            if lab[0] == 'step' and o != 'disabled' and o['acc'] == 'Local':
                if o['ev']:
                    if lab[1] in last:
                        po[last[lab[1]]]['ev'] += o['ev']
                    else:
                        err = err or f'events {o["ev"]} before the first shared access of {lab[1]}'
                continue
            pl.append(lab); po.append(o if o == 'disabled' else {'acc': o['acc'], 'ev': list(o['ev'])})
            if lab[0] == 'step':
                last[lab[1]] = len(po) - 1
        runs.append(dict(labels=pl, outs=po, events=run.events, error=err, raises=sorted(raises), kind='fine',
                         final_active=fin_active))
    return runs


def correspond(ctx) -> Corr:
    corr = Corr()
    corr.rule = ('thread half: schedules (Arrive/Step who/Die/CloseCall, + deterministic drain) executed on the REAL '
                 'ThreadDoneCallback by the opcode scheduler, per-step observation (access executed, callbacks, monitor '
                 'exit, close result, lock waits) and final _active compared with DoneCb/Model.v; the former violation '
                 'schedules (corpus), exhaustive placements for 1-2 registering threads (+close), random beyond, and an '
                 'every-opcode mode. task half: real TaskDoneCallback under all completion orders vs DoneCb/Task.v. '
                 'distinct = distinct (raises, schedule); non-trivial = a register access executed after the monitor '
                 'started looping, or a callback fired')
    env = load_skeleton()
    rng = ctx.rng
    quick = ctx.tier == 'quick'
    k1, k2, d1s, kc, kf, nrand, nfine, tmax, trand = (14, 15, [0], 7, 3, 150, 30, 4, 150) if quick else \
        (30, 22, [0, 4, 6, 9], 12, 8, 4000, 400, 5, 3000)
    nchain = 40 if quick else 800
    deadline = time.time() + (45 if quick else 420)

    def jobs():
        for n, w in WITNESS.items():
            yield 'witness:' + n, w['raises'], w['schedule']
        for p in sorted((C.CORPUS / 'C18').glob('*.json')) if (C.CORPUS / 'C18').exists() else []:
            j = json.loads(p.read_text())
            if j.get('half') == 'thread':
                yield 'corpus', j.get('raises', []), j['schedule']
        yield from exhaustive_schedules(k1, k2, d1s, kc, kf)
        for _ in range(nchain):
            raises, s = late_chain_schedule(rng, rng.randint(2, 5))
            yield 'late-chain', raises, s
        for _ in range(nrand):
            raises, s = random_schedule(rng, rng.randint(1, 4), rng.randint(5, 60))
            yield 'random', raises, s

    runs = _thread_runs(ctx, corr, env, jobs(), deadline)
    fine = _fine_runs(ctx, corr, env, nfine)
    n_thr = _compare_thread(ctx, corr, runs + fine)
    corr.extra['thread_runs'] = len(runs)
    corr.extra['every_opcode_runs'] = len(fine)
    corr.extra['exhaustive_bound'] = (
        f'register() = arrive / LockAcquire / [LoadActive;SetAdd;LockRelease]; 1 thread: all placements of the 3 pieces '
        f'among {k1} monitor accesses (one loop iteration = 16); 2 threads: thread 1 registered, ending after d1 in {d1s}, '
        f'all placements of thread 2 among {k2}; 1 thread + close() block: all placements among {kc}; 1 thread, all 5 '
        f'accesses + die separately among {kf}')
    for r in runs:
        if r['kind'].startswith('witness:') or r['kind'] == 'corpus':
            d = corr.extra.setdefault('former_violation_schedules', {})
            d[f"{r['kind']}#{len(d)}"] = \
                [s for s, _ in oracle_thread(r)] or 'passes'
    # task half
    tcases = []
    loop = asyncio.new_event_loop()
    try:
        for raises, ops in task_cases(rng, tmax, trand):
            outs = loop.run_until_complete(run_task_case(raises, ops))
            tcases.append((raises, ops, outs))
            for sig, what in oracle_task(raises, ops, outs):
                corr.violations.append(Violation(sig, what, {'half': 'task', 'raises': sorted(raises), 'ops': ops, 'observed': outs}))
        # close() from another thread with the done()/callback window of every task held open
        nwin = 0
        for n, raises in ([(1, set()), (2, {2}), (3, {1, 3})] if ctx.tier == 'quick' else
                          [(n, set(r)) for n in (1, 2, 3, 5) for r in ([], [1], [n], list(range(1, n + 1)))]):
            o = loop.run_until_complete(run_task_window_case(raises, n))
            nwin += 1
            for sig, what in oracle_task_window(o):
                corr.violations.append(Violation(sig, what, {'half': 'task-window', 'n': n, 'raises': sorted(raises), 'observed': o}))
        corr.extra['task_window_cases'] = nwin
        # the union: one task and one thread registered through ThreadTaskDoneCallback
        for d, r, c, tf in UNION_CASES:
            o = loop.run_until_complete(run_union_case(d, r, c, tf))
            for sig, what in oracle_union(o):
                corr.violations.append(Violation(sig, what, {'half': 'union', 'default_reg': d, 'raise_who': r, 'close_first': c, 'task_first': tf, 'observed': o}))
        corr.extra['union_cases'] = len(UNION_CASES)
        for sig, what in run_thread_api_cases():
            corr.violations.append(Violation(sig, what, {'half': 'thread-api'}))
    finally:
        loop.close()
    CH = 400
    files = {f'task_{i // CH}': task_cases_file(tcases[i:i + CH]) for i in range(0, len(tcases), CH)}
    for name, (ok, out) in ctx.coq_eval_many(files).items():
        base = int(name.split('_')[1]) * CH
        bad = C.parse_nat_list(out) if ok else None
        if bad is None:
            corr.mismatches.append({'kind': 'coq-eval-failed', 'file': name, 'log': out[-600:]})
            continue
        for b in bad:
            rs, ops, outs = tcases[base + b]
            corr.mismatches.append({'kind': 'task', 'raises': sorted(rs), 'ops': ops, 'impl': outs})
    corr.distinct_nontrivial += sum(1 for _, ops, outs in tcases if any(e for e in outs))
    corr.evaluations = n_thr + len(tcases)
    corr.extra['task_cases'] = len(tcases)
    if runs:
        r = runs[min(len(runs) - 1, 700)]
        corr.samples.append({'thread_schedule': r['labels'], 'impl_outs': r['outs'], 'final_active': r['final_active']})
    if tcases:
        rs, ops, outs = tcases[len(tcases) // 2]
        corr.samples.append({'task_ops': ops, 'raises': sorted(rs), 'impl_events': outs})
    return corr


def search(ctx, broken) -> list:
    """Widened hunt (used when a proof / tie / the correspondence broke and the standard run found nothing)."""
    env = load_skeleton()
    corr = Corr()
    rng = ctx.rng

    def jobs():
        yield from exhaustive_schedules(24, 24, [0, 4, 6, 9], 12, 7)
        for _ in range(600):
            raises, s = late_chain_schedule(rng, rng.randint(2, 5))
            yield 'late-chain', raises, s
        for _ in range(4000):
            raises, s = random_schedule(rng, rng.randint(1, 4), rng.randint(5, 80))
            yield 'random', raises, s
    # (a phase of the correspondence that already stalled STALL_LIMIT times: at most STALL_AFTER more stalled runs here)
    _thread_runs(ctx, corr, env, jobs(), time.time() + (240 if _STALLS['total'] < STALL_LIMIT else 45))
    loop = asyncio.new_event_loop()
    try:
        for raises, ops in task_cases(rng, 5, 3000):
            outs = loop.run_until_complete(run_task_case(raises, ops))
            for sig, what in oracle_task(raises, ops, outs):
                corr.violations.append(Violation(sig, what, {'half': 'task', 'raises': sorted(raises), 'ops': ops, 'observed': outs}))
            if len(corr.violations) > 6:
                break
    finally:
        loop.close()
    return corr.violations


def replay(ctx, path: Path) -> int:
    j = json.loads(path.read_text())
    if j.get('half') == 'thread-api':
        bad = run_thread_api_cases()
    elif j.get('half') == 'task-window':
        loop = asyncio.new_event_loop()
        o = loop.run_until_complete(run_task_window_case(set(j.get('raises', [])), j['n']))
        print('observed:', o)
        bad = oracle_task_window(o)
    elif j.get('half') == 'union':
        loop = asyncio.new_event_loop()
        o = loop.run_until_complete(run_union_case(j['default_reg'], j['raise_who'], j['close_first'], j.get('task_first', False)))
        print('observed:', o)
        bad = oracle_union(o)
    elif j.get('half') == 'task':
        loop = asyncio.new_event_loop()
        outs = loop.run_until_complete(run_task_case(set(j.get('raises', [])), j['ops']))
        bad = oracle_task(set(j.get('raises', [])), j['ops'], outs)
        print('observed:', outs)
    else:
        env = load_skeleton()
        r = execute(env, j['schedule'], raises=j.get('raises', []))
        for lab, o in zip(r['labels'], r['outs']):
            print('  ', lab, o)
        print('final _active:', r['final_active'])
        bad = oracle_thread(r)
    for sig, what in bad:
        print('FAILS:', sig, what)
    print('replay verdict:', 'property violated' if bad else 'property holds on this input')
    return 1 if bad else 0
