"""System-level tie of C07: the real Nextline through its public API (harness/c07_system_runner.py, one subprocess
per run) against the composed model Prompt/System.v, and the property oracle on what closed each prompt."""
from __future__ import annotations

import json
import os
import re
import subprocess
from concurrent.futures import ThreadPoolExecutor

from .. import common as C
from ..common import Violation, cbool, clist, cz

SRC = ('import threading, time\n' 'def f():\n' '    a = 1\n' '    time.sleep(0.15)\n' '    b = 2\n'
       't = threading.Thread(target=f)\n' 't.start()\n' 'x = 1\n' 'time.sleep(0.15)\n' 'y = 2\n' 't.join()\n')
SLEEP_LINES = [4, 9]
SRC1 = 'x = 1\nimport time\ntime.sleep(0.15)\ny = 2\nz = 3\n'          # one trace: the old finding, deterministic
SLEEP1 = [3]


def gen_jobs(rng, n):
    jobs = [{'src': SRC1, 'sleep_lines': SLEEP1, 'seed': 1, 'max_decoys': 0}]
    # a previous run of the same object was killed with a prompt open: that prompt's numbers must not count as open in
    # the next run (there they belong to a prompt that has not been issued yet when the early command arrives)
    for k in (2, 3, 4, 5)[: max(2, n // 6)]:
        jobs.append({'src': SRC1, 'sleep_lines': SLEEP1, 'seed': 100 + k, 'max_decoys': 1, 'first_run_kill_at': k, 'timeout': 60})
    for _ in range(n - 1):
        one = rng.random() < 0.25
        jobs.append({'src': SRC1 if one else SRC, 'sleep_lines': SLEEP1 if one else SLEEP_LINES,
                     'seed': rng.randrange(1 << 30), 'max_decoys': rng.choice([1, 2, 3])})
    return jobs


def run_one(job):
    env = dict(os.environ, PYTHONPATH=f'{C.REPO}:{C.VERIF}', PYTHONHASHSEED='0')
    try:
        p = subprocess.run([C.PY, str(C.VERIF / 'harness' / 'c07_system_runner.py')], input=json.dumps(job), text=True,
                           stdout=subprocess.PIPE, stderr=subprocess.DEVNULL, env=env, timeout=90)
        for l in p.stdout.splitlines():
            if l.startswith('@@S '):
                return json.loads(l[4:])
        return {'error': 'no result', 'log': [], 'decoys': {}, 'genuine': {}}
    except subprocess.TimeoutExpired:
        return {'error': 'timeout', 'log': [], 'decoys': {}, 'genuine': {}}


def text_id(s) -> int:
    if s == 'next':
        return 1
    m = re.fullmatch(r"p 'D(\d+)'", s or '')
    return 1000 + int(m.group(1)) if m else -1


def oracle(job, res):
    """Property text on the real system run: every prompt is closed by the command addressed to it (the responder's
    one genuine answer); a decoy -- sent for a prompt that is not open -- is never executed; the run completes."""
    bad = []
    if res.get('error'):
        bad.append(('system:run-stuck', f'the run did not complete: {res["error"][:200]}'))
    decoys = {f"p 'D{k}'": v for k, v in res.get('decoys', {}).items()}
    started, ended = {}, {}
    for e in res.get('log', []):
        if e[0] == 'saw_start':
            started[e[2]] = e[1]
        elif e[0] == 'saw_end':
            t, n, cmd = e[1], e[2], e[3]
            if n in ended:
                bad.append(('system:prompt-closed-twice', f'prompt {n} of trace {t} ended twice'))
            ended[n] = cmd
            g = res['genuine'].get(str(n))
            if g is None or g[0] != t or g[1] != cmd:
                if cmd in decoys:
                    d = decoys[cmd]
                    bad.append((f'system:{d["kind"]}-command-executed',
                                f'prompt {n} of trace {t} was closed by the decoy {cmd!r} sent through send_pdb_command for '
                                f'(trace {d["t"]}, prompt {d["p"]}) [{d["kind"]}] while that prompt was not open; the answer was {g}'))
                else:
                    bad.append(('system:wrong-command-recorded', f'prompt {n} of trace {t} recorded {cmd!r}, the answer was {g}'))
    if not res.get('error'):
        for n, t in started.items():
            if n not in ended:
                bad.append(('system:prompt-not-closed', f'prompt {n} of trace {t} was never closed'))
    return bad


def build_case(res):
    """System label sequence (lazy child: the child's steps are placed where the main process sees their events, which
    is the order the child emitted them) and the observations.  None if the prompt numbers were seen out of order
    (counter call and event put of two threads interleaved: outside the model's atomic OpenPrompt)."""
    labels, opens, execs, fw = [], [], [], []
    started, nfw = set(), {}
    last = 0
    for e in res['log']:
        if e[0] == 'saw_start':
            t, n = e[1], e[2]
            if n < last:
                return None
            last = n
            if t not in started:
                started.add(t); labels.append(('SChild', 'StartTrace', t))
            labels += [('SChild', 'OpenPrompt', t), ('SMain',)]
            opens.append((t, n))
        elif e[0] == 'api':
            t, n, text, in_open = e[1], e[2], e[3], e[4]
            labels += [('SApi', t, n, text_id(text)), ('SChild', 'Relay')]
            fw.append(True if in_open is None else bool(in_open))
            nfw[t] = nfw.get(t, 0) + 1
        elif e[0] == 'saw_end':
            t, n, cmd = e[1], e[2], e[3]
            labels += [('SChild', 'Take', t)] * nfw.get(t, 0) + [('SMain',)]
            execs.append((t, n, text_id(cmd)))
    return labels, {'opens': opens, 'execs': execs, 'fw': fw}


def label_term(l) -> str:
    if l[0] == 'SMain':
        return 'SMain'
    if l[0] == 'SApi':
        return f'SApi (mkCmd {cz(l[1])} {cz(l[2])} {cz(l[3])})'
    if l[1] == 'Relay':
        return 'SChild Relay'
    return f'SChild ({l[1]} {cz(l[2])})'


def cases_file(cases) -> str:
    rows = []
    for ls, o in cases:
        opens = clist(f'({cz(t)}, {cz(p)})' for t, p in o['opens'])
        execs = clist(f'({cz(t)}, {cz(p)}, {cz(c)})' for t, p, c in o['execs'])
        rows.append(f'({clist(map(label_term, ls))},\n  (mkSObs {opens} {execs} {clist(map(cbool, o["fw"]))}))')
    return ('From NL Require Import Prompt.SysCorr.\nOpen Scope Z_scope.\n'
            'Definition cases : list (list slabel * sobserved) :=\n ' + ';\n '.join(rows).join(['[', ']']) + '.\n'
            'Eval vm_compute in sbad_from 0%nat cases.\n')


def run(ctx, corr, n):
    """Runs n system-level jobs; appends violations / mismatches to corr; returns extra stats."""
    jobs = gen_jobs(ctx.rng, n)
    with ThreadPoolExecutor(6) as ex:
        results = list(ex.map(run_one, jobs))
    cases, kept, skipped = [], [], 0
    kinds: dict = {}
    for job, res in zip(jobs, results):
        for sig, what in oracle(job, res):
            corr.violations.append(Violation(sig, what, {'level': 'system', 'job': job, 'log': res.get('log', [])[:80]}))
        if res.get('error'):
            corr.mismatches.append({'kind': 'system-run-failed', 'error': res['error'][:300], 'job': job})
            continue
        for d in res['decoys'].values():
            kinds[d['kind']] = kinds.get(d['kind'], 0) + 1
        c = build_case(res)
        if c is None:
            skipped += 1
            continue
        cases.append(c); kept.append((job, res))
    if cases:
        ok, out = ctx.coq_eval('c07_system', cases_file(cases))
        bad = C.parse_nat_list(out) if ok else None
        if bad is None:
            corr.mismatches.append({'kind': 'coq-eval-failed', 'file': 'c07_system', 'log': out[-600:]})
        else:
            for b in bad:
                corr.mismatches.append({'kind': 'system-model-vs-impl', 'job': kept[b][0], 'log': kept[b][1]['log'][:120], 'impl': cases[b][1]})
    n_api = sum(1 for _, r in kept for e in r['log'] if e[0] == 'api')
    n_drop = sum(1 for _, r in kept for e in r['log'] if e[0] == 'api' and e[4] is False)
    return {'system_runs': len(jobs), 'system_runs_compared_with_the_model': len(cases), 'system_runs_skipped_out_of_order': skipped,
            'system_api_calls': n_api, 'system_calls_dropped_by_the_main_filter': n_drop, 'system_decoy_kinds': kinds}
