"""C19 -- async-iterator helpers neither lose, duplicate nor reorder items.

Model: coq/theories/Aio/Model.v; theorems: Props/C19.v (proofs in Aio/*.v).

Tie: the REAL `merge_aiters`, `agen_with_wait`, `to_aiter` from /repo are driven in an
asyncio loop with scripted sources whose every `__anext__` is gated by a future the
harness controls (plus a scripted number of extra suspension points), under generated
schedules (which gates are released together, when the consumer resumes, how long the
loop spins in between).  Every environment event (source anext done, awaited task ended,
`asyncio.wait` returned with which done-set, consumer call) is logged synchronously; the
log is turned into the label sequence of the Coq model, the model is evaluated on it
inside Coq (vm_compute) and its outputs (done-sets + what the consumer saw) are compared
with the observed ones.  The arbitrary order of the *set* returned by `asyncio.wait` is
driven by the harness (a `set` subclass whose pop/iteration order is the generated one),
so orders that CPython's hashing would not produce are reached too; a share of the cases
runs unpatched (natural order) through the oracle only.

Second tie (translator): translate/aio_funs.py regenerates coq/theories/Gen/AioFuns.v from the source on
every run (a genuine translation of the three functions into the statement AST of Aio/Syntax.v); Aio/Interp.v
interprets it under the model's labels and Aio/Tie*.v prove (C19_tie_* in Props/C19.v) that for all label
sequences the interpreter on the regenerated bodies = the hand-written model.  A change of the code in a
tracked position changes the generated term and breaks a proof (or the translator) at once.

Oracle: the property text stated directly on (source items, observed outputs).
"""
from __future__ import annotations

import asyncio
import contextvars
import itertools
import json
import random
import threading
from pathlib import Path

from .. import common as C
from ..common import Corr, Violation, cbool, clist, cnat, cz

TRANSLATORS = ['aio_funs']    # Gen/AioFuns.v: merge_aiters / agen_with_wait / to_aiter as terms of Aio/Syntax.v

TRUSTED_BASE = [
    'translator translate/aio_funs.py (Python ast -> statement AST of coq/theories/Aio/Syntax.v; fail-closed) and the '
    'semantics coq/theories/Aio/Interp.v given to that AST (continuation machine; sets of tasks as sorted lists; '
    'asyncio.wait / ensure_future / Task.result / Task.exception / cancel as heap operations driven by the model\'s '
    'labels); the C19_tie_* theorems prove that this semantics of the REGENERATED bodies equals Aio/Model.v for all '
    'label sequences',
    'kind of the merge_aiters / agen_with_wait tie: PIN + SIMULATION OF THE PINNED TERM (Aio/TieMerge.v merge_body_shape, '
    'TieAgen.v agen_body_shape pin the regenerated bodies to hand-copied terms by reflexivity; the simulation is about the '
    'pinned term; any AST change, also behaviour-preserving, breaks it); the to_aiter tie executes the regenerated methods '
    'symbolically; `iclose` (aclose / cancellation of the consumer) is given the meaning "the generator ends at its '
    'suspension point, armed tasks are not cancelled" because the syntax has no try/finally (the translator refuses them)',
    'correspondence harness harness/props/c19.py (gated sources, event log -> model labels, schedule generators)',
    'harness stub around asyncio.wait: returns the same done/pending sets, the done set being a set subclass whose '
    'pop()/iteration order is the generated one (any order is a legal behaviour of a Python set)',
    'modelled, not verified: asyncio.wait(FIRST_COMPLETED) returns exactly the futures that are done when the waiter '
    'resumes; ensure_future/Task semantics; asyncio.to_thread runs the call once and returns its result; '
    'list iterators are atomic under the GIL',
]
ASSUMPTIONS = [
    'no label of Aio/Model.v for: a consumer that closes / is cancelled (covered on the machine only: '
    'C19_tie_merge_close_loss / C19_tie_agen_close_loss: at most one item per source consumed and never yielded), athrow(), '
    'awaited tasks that are cancelled',
    'sources are distinct async-iterator objects that produce items and then raise StopAsyncIteration '
    '(a source raising another exception, or the same object passed twice, is outside the statement)',
    'the consumer keeps at most one anext/asend outstanding on merge_aiters/agen_with_wait (async generators forbid more)',
    'agen_with_wait: "first exception" is read at the granularity the generator can observe: it raises at the first '
    'return of asyncio.wait whose done-set contains a failed awaited task, one of the failed tasks of that set; '
    'which one is the iteration order of a set (C19_agen_chronological_refuted / evidence key '
    'strict_first_exception_deviations)',
    'to_aiter(thread=True) is observed through a logging iterator (contextvars identify the call inside the worker thread)',
]


# ============================================================================ instrumentation

class TaskErr(Exception):
    def __init__(self, code):
        super().__init__(code)
        self.code = code


class OrdSet(set):
    """A set whose pop()/iteration order is given by `prio` (smaller first)."""

    def __init__(self, it=(), prio=None):
        super().__init__(it)
        self._prio = prio

    def _sorted(self):
        return sorted(set.__iter__(self), key=self._prio)

    def pop(self):
        if not len(self):
            raise KeyError('pop from an empty set')
        x = self._sorted()[0]
        set.remove(self, x)
        return x

    def __iter__(self):
        return iter(self._sorted())

    def __sub__(self, o):
        return OrdSet(set.__sub__(self, o), self._prio)

    def __and__(self, o):
        return OrdSet(set.__and__(self, o), self._prio)

    def __or__(self, o):
        return OrdSet(set.__or__(self, o), self._prio)

    def copy(self):
        return OrdSet(set.copy(self), self._prio)

    def difference(self, *o):
        return OrdSet(set.difference(self, *o), self._prio)


_ACTIVE = None          # the harness run currently observing asyncio.wait
_ORIG_WAIT = asyncio.wait


async def _wait_stub(fs, *, timeout=None, return_when=asyncio.ALL_COMPLETED):
    done, pending = await _ORIG_WAIT(fs, timeout=timeout, return_when=return_when)
    h = _ACTIVE
    if h is None:
        return done, pending
    return h.on_wake(done, pending)


class patched_wait:
    def __init__(self, h):
        self.h = h

    def __enter__(self):
        global _ACTIVE
        _ACTIVE = self.h
        asyncio.wait = _wait_stub

    def __exit__(self, *a):
        global _ACTIVE
        _ACTIVE = None
        asyncio.wait = _ORIG_WAIT


# Items are integers in the cases and in the Coq model.  Negative codes stand for payloads that a "falsy" / "is None"
# test in the code could mistake for "no item" or "end of iteration": the real objects below are what the sources
# produce, and what the helpers yield is mapped to the code again (by type and value).
PAYLOADS = {-1: None, -2: '', -3: False, -4: (), -5: 0.0, -7: [], -8: {}}     # (not 0: plain small integers are items too)


def to_payload(n):
    return PAYLOADS[n] if isinstance(n, int) and not isinstance(n, bool) and n in PAYLOADS else n


def of_payload(o):
    for n, p in PAYLOADS.items():
        if type(o) is type(p) and o == p:
            return n
    return o


def with_specials(rng, items):
    """replace some items by distinct special codes (each code at most once per case)"""
    free = list(PAYLOADS)
    out = list(items)
    for i in range(len(out)):
        if free and rng.random() < 0.2:
            out[i] = free.pop(rng.randrange(len(free)))
    return out


class Src:
    """A scripted source: every anext waits for a gate (or uses a banked release), then
    suspends `hops` more times, then produces its next item / StopAsyncIteration."""

    def __init__(self, idx, items, hops, log, reg, style):
        self.idx, self.items, self.hops, self.log, self.reg, self.style = idx, list(items), hops or [0], log, reg, style
        self.k = 0
        self.ncalls = 0
        self.credits = 0
        self.waiter = None
        self.exhausted = False

    def release(self, bank=True):
        if self.waiter is not None and not self.waiter.done():
            self.waiter.set_result(None)
            return True
        if bank:
            self.credits += 1
        return False

    def waiting(self):
        return self.waiter is not None and not self.waiter.done()

    async def _step(self):
        """returns (True, item) or (False, None); logs the completion synchronously"""
        self.reg[asyncio.current_task()] = self.idx
        n = self.ncalls
        self.ncalls += 1
        if self.credits > 0:
            self.credits -= 1
        else:
            self.waiter = asyncio.get_running_loop().create_future()
            try:
                await self.waiter
            finally:
                self.waiter = None
        for _ in range(self.hops[n % len(self.hops)]):
            await asyncio.sleep(0)
        self.log.append(('complete', self.idx))
        if self.k < len(self.items):
            v = to_payload(self.items[self.k])
            self.k += 1
            return True, v
        self.exhausted = True
        return False, None

    # class style
    def __aiter__(self):
        return self

    async def __anext__(self):
        ok, v = await self._step()
        if ok:
            return v
        raise StopAsyncIteration

    # async-generator style
    async def _agen(self):
        while True:
            ok, v = await self._step()
            if not ok:
                return
            yield v

    def as_aiter(self):
        return self._agen() if self.style == 'agen' else self


async def _cleanup(extra=()):
    cur = asyncio.current_task()
    ts = [t for t in asyncio.all_tasks() if t is not cur]
    for t in ts:
        t.cancel()
    for f in extra:
        if not f.done():
            f.cancel()
    if ts:
        await asyncio.gather(*ts, return_exceptions=True)


# ============================================================================ merge_aiters

class MergeRun:
    def __init__(self, case):
        self.case = case
        self.log = []
        self.reg = {}
        self.rng = random.Random(case.get('ordseed', 0))
        self.n = len(case['items'])

    def on_wake(self, done, pending):
        ids = sorted(self.reg.get(t, 4999) for t in done)   # 4999: a task the harness does not know
        ord_ = list(range(self.n))
        self.rng.shuffle(ord_)
        self.log.append(('wake', ids, ord_))
        pos = {i: k for k, i in enumerate(ord_)}
        return OrdSet(done, lambda t: pos.get(self.reg.get(t, -1), 10 ** 6)), pending

    async def run(self):
        from nextline.utils import aio
        case, log = self.case, self.log
        srcs = [Src(i, it, case['hops'][i], log, self.reg, case['style'][i]) for i, it in enumerate(case['items'])]
        merged = aio.merge_aiters(*[s.as_aiter() for s in srcs])
        state = {'cons': None, 'ended': False}

        async def consume():
            log.append(('next',))
            try:
                r = await merged.__anext__()
            except StopAsyncIteration:
                log.append(('stop',))
                state['ended'] = True
            except asyncio.CancelledError:
                raise
            except BaseException as e:  # noqa
                log.append(('error', repr(e)))
                state['ended'] = True
            else:
                if isinstance(r, tuple) and len(r) == 2 and isinstance(r[0], int) and isinstance(of_payload(r[1]), int):
                    log.append(('yield', r[0], of_payload(r[1])))
                else:
                    log.append(('error', f'malformed item {r!r}'))

        def do_next():
            c = state['cons']
            if c is None or c.done():
                state['cons'] = asyncio.ensure_future(consume())

        async def spin(k):
            for _ in range(k):
                await asyncio.sleep(0)

        for op in case['sched']:
            if op[0] == 'next':
                do_next()
            elif op[0] == 'rel':
                for i in op[1]:
                    if i < len(srcs):
                        srcs[i].release()
            elif op[0] == 'spin':
                await spin(op[1])
        # fair drain: release whatever waits, keep consuming
        maxhop = max([max(h) for h in case['hops']] + [0])
        bound = sum(len(x) for x in case['items']) * 2 + 2 * len(srcs) + 6
        extra_after_stop = 1
        for _ in range(bound):
            if state['ended']:
                if extra_after_stop == 0:
                    break
                extra_after_stop -= 1
            do_next()
            await spin(1)
            for s in srcs:
                s.release(bank=False)
            await spin(maxhop + 4)
        if not state['ended']:
            log.append(('hang', [s.exhausted for s in srcs]))
        log.append(('final', [s.exhausted for s in srcs], [s.k for s in srcs]))
        await _cleanup()
        try:
            await merged.aclose()
        except BaseException:  # noqa
            pass
        return log


def run_merge(loop, case):
    h = MergeRun(case)
    if case.get('patched', True):
        with patched_wait(h):
            return loop.run_until_complete(asyncio.wait_for(h.run(), 20))
    return loop.run_until_complete(asyncio.wait_for(h.run(), 20))


def merge_labels(log):
    """event log -> (labels, per-label outputs); None if the log has an unexpected shape"""
    labels, outs = [], []
    for ev in log:
        k = ev[0]
        if k == 'next':
            labels.append(['next']); outs.append([[], ['none']])
        elif k == 'complete':
            labels.append(['complete', ev[1]]); outs.append([[], ['none']])
        elif k == 'wake':
            labels.append(['wake', ev[2]]); outs.append([ev[1], ['none']])
        elif k in ('yield', 'stop'):
            if not outs or outs[-1][1] != ['none'] or labels[-1][0] == 'complete':
                return None
            outs[-1][1] = ['yield', ev[1], ev[2]] if k == 'yield' else ['stop']
        elif k == 'error':
            return None
    return labels, outs


def oracle_merge(case, log):
    """The property on the observed behaviour: returns [(signature, what)]."""
    items = case['items']
    bad = []
    got = {i: [] for i in range(len(items))}
    stopped = False
    completes = {i: 0 for i in range(len(items))}
    for ev in log:
        k = ev[0]
        if k == 'complete':
            completes[ev[1]] += 1
        elif k == 'yield':
            i, v = ev[1], ev[2]
            if stopped:
                bad.append(('yield-after-end', f'({i}, {v}) yielded after the merged iterator had finished'))
            if i not in got:
                bad.append(('unknown-tag', f'yielded tag {i} but there are {len(items)} sources'))
                continue
            got[i].append(v)
            if got[i] != items[i][:len(got[i])]:
                bad.append(('projection-not-prefix',
                            f'items tagged {i} so far {got[i]} are not a prefix of source {i} = {items[i]} (lost, duplicated, reordered or mis-tagged)'))
        elif k == 'stop' and not stopped:
            stopped = True
            for i in got:
                if got[i] != items[i]:
                    bad.append(('finished-with-items-missing', f'merged iterator finished but tag {i} delivered {got[i]} of {items[i]}'))
                    break
            else:
                unfinished = [i for i in got if completes[i] < len(items[i]) + 1]
                if unfinished:
                    bad.append(('finished-before-sources', f'merged iterator finished although sources {unfinished} have not finished'))
        elif k == 'error':
            bad.append(('unexpected-exception', f'merged iterator raised/returned {ev[1]}'))
        elif k == 'hang':
            bad.append(('no-termination', f'all gates released and the consumer kept iterating, but the merged iterator did not finish '
                                          f'(delivered {got}, sources exhausted: {ev[1]})'))
    # dedupe by signature, keep the first
    seen, res = set(), []
    for s, w in bad:
        if s not in seen:
            seen.add(s); res.append((s, w))
    return res


def gen_hops(rng, n_steps):
    mode = rng.random()
    if mode < 0.45:
        return [0]
    if mode < 0.7:
        return [rng.randint(0, 3)]
    return [rng.randint(0, 3) for _ in range(rng.randint(1, max(1, n_steps)))]


def gen_merge_case(rng, maxsrc, maxlen, patched=True):
    n = rng.choice([0, 1, 1, 2, 2, 2, 3, 3, 4, 5][: max(3, min(10, maxsrc * 2))]) if maxsrc < 5 else rng.choice([0, 1, 2, 2, 3, 3, 4, 5, 6])
    n = min(n, maxsrc)
    uniq = rng.random() < 0.75
    items = []
    for i in range(n):
        ln = rng.choice([0, 0, 1, 1, 2, 3, rng.randint(0, maxlen)])
        items.append([(i + 1) * 100 + k if uniq else rng.randint(0, 2) for k in range(ln)])
        if uniq and i == 0:
            items[-1] = with_specials(rng, items[-1])
    total = sum(len(x) for x in items) + n
    sched = []
    for _ in range(rng.randint(0, 2 * total + 3)):
        r = rng.random()
        if r < 0.30:
            sched.append(['next'])
        elif r < 0.75 and n:
            if rng.random() < 0.5:
                k = rng.randint(1, n)
                sched.append(['rel', rng.sample(range(n), k)])
            else:
                sched.append(['rel', [rng.randrange(n)]])
        else:
            sched.append(['spin', rng.randint(1, 5)])
    return {'kind': 'merge', 'items': items,
            'style': [rng.choice(['class', 'agen']) for _ in range(n)],
            'hops': [gen_hops(rng, len(items[i]) + 1) for i in range(n)],
            'sched': sched, 'ordseed': rng.randrange(10 ** 9), 'patched': patched}


def exhaustive_merge_cases(maxlen):
    """every harness schedule up to maxlen over {next, rel 0, rel 1, rel both, spin} for two sources"""
    alpha = [['next'], ['rel', [0]], ['rel', [1]], ['rel', [0, 1]], ['spin', 2]]
    for n in range(0, maxlen + 1):
        for seq in itertools.product(range(len(alpha)), repeat=n):
            if any(seq[i] == 4 and seq[i + 1] == 4 for i in range(len(seq) - 1)):
                continue
            for ordseed in (1, 2):
                yield {'kind': 'merge', 'items': [[101], [201, 202]], 'style': ['class', 'agen'], 'hops': [[0], [0]],
                       'sched': [alpha[i] for i in seq], 'ordseed': ordseed, 'patched': True}


# ============================================================================ agen_with_wait

class AgenRun:
    def __init__(self, case):
        self.case = case
        self.log = []
        self.reg = {}
        self.futs = []          # environment tasks/futures by id
        self.fid = {}
        self.rng = random.Random(case.get('ordseed', 0))

    def on_wake(self, done, pending):
        ids = sorted(self.fid[t] for t in done if t in self.fid)
        adone = any(t not in self.fid for t in done)
        ord_ = list(range(len(self.futs)))
        self.rng.shuffle(ord_)
        self.log.append(('wake', adone, ids, ord_))
        pos = {i: k for k, i in enumerate(ord_)}
        return OrdSet(done, lambda t: pos.get(self.fid.get(t, -1), -1)), pending

    def spawn(self):
        loop = asyncio.get_running_loop()
        t = len(self.futs)
        if self.case.get('real_tasks'):
            ev = loop.create_future()
            log = self.log

            async def body():
                e = await ev
                log.append(('taskend', t, e))
                if e is not None:
                    raise TaskErr(e)
            f = asyncio.ensure_future(body())
            f._verif_gate = ev
        else:
            f = loop.create_future()
        self.futs.append(f)
        self.fid[f] = t
        self.log.append(('spawn', t))
        return f

    def end(self, t, e):
        if t >= len(self.futs):
            return
        f = self.futs[t]
        if self.case.get('real_tasks'):
            if not f._verif_gate.done():
                f._verif_gate.set_result(e)
        elif not f.done():
            self.log.append(('taskend', t, e))
            if e is None:
                f.set_result(None)
            else:
                f.set_exception(TaskErr(e))

    async def run(self):
        from nextline.utils import aio
        case, log = self.case, self.log
        loop = asyncio.get_running_loop()
        loop.set_exception_handler(lambda *a: None)
        src = Src(0, case['items'], case['hops'], log, self.reg, case['style'])
        g = aio.agen_with_wait(src.as_aiter())
        state = {'cons': None, 'ended': False, 'phase': 'fresh'}

        async def consume(ids):
            log.append(('send', ids))
            try:
                if ids is None:
                    r = await g.__anext__()
                else:
                    r = await g.asend({self.futs[i] for i in ids})
            except StopAsyncIteration:
                log.append(('stop',)); state['ended'] = True
            except TaskErr as e:
                log.append(('raise', e.code)); state['ended'] = True
            except asyncio.CancelledError:
                raise
            except TypeError as e:
                if state['phase'] == 'fresh' and ids is not None:
                    log.append(('err',))
                else:
                    log.append(('error', repr(e))); state['ended'] = True
            except BaseException as e:  # noqa
                log.append(('error', repr(e))); state['ended'] = True
            else:
                if isinstance(r, tuple) and len(r) == 2 and isinstance(r[0], tuple) and isinstance(r[1], tuple):
                    try:
                        log.append(('sets', sorted(self.fid[x] for x in r[0]), sorted(self.fid[x] for x in r[1])))
                    except KeyError:
                        log.append(('error', f'foreign object in {r!r}'))
                    state['phase'] = 'sets'
                elif isinstance(of_payload(r), int):
                    log.append(('item', of_payload(r))); state['phase'] = 'item'
                else:
                    log.append(('error', f'malformed item {r!r}'))

        def idle():
            c = state['cons']
            return c is None or c.done()

        async def spin(k):
            for _ in range(k):
                await asyncio.sleep(0)

        for op in case['sched']:
            k = op[0]
            if k == 'send':
                if not idle() or state['ended']:
                    continue
                ids = op[1]
                if ids is not None:
                    if state['phase'] == 'fresh' and not case.get('allow_fresh_send'):
                        ids = None
                    elif state['phase'] == 'sets' and not case.get('allow_sets_send'):
                        ids = None
                    else:
                        for i in sorted(ids):
                            while i >= len(self.futs):
                                self.spawn()
                state['cons'] = asyncio.ensure_future(consume(ids))
            elif k == 'spawn':
                self.spawn()
            elif k == 'rel':
                src.release()
            elif k == 'end':
                self.end(op[1], op[2])
            elif k == 'spin':
                await spin(op[1])
        maxhop = max(list(case['hops']) + [0])
        bound = len(case['items']) * 2 + 8
        for _ in range(bound):
            if state['ended']:
                break
            if idle():
                state['cons'] = asyncio.ensure_future(consume(None))
            await spin(1)
            src.release(bank=False)
            await spin(maxhop + 4)
        if not state['ended']:
            log.append(('hang', src.exhausted))
        await _cleanup(self.futs)
        try:
            await g.aclose()
        except BaseException:  # noqa
            pass
        return log


def run_agen(loop, case):
    h = AgenRun(case)
    if case.get('patched', True):
        with patched_wait(h):
            return loop.run_until_complete(asyncio.wait_for(h.run(), 20))
    return loop.run_until_complete(asyncio.wait_for(h.run(), 20))


def agen_labels(log):
    labels, outs = [], []
    none = lambda: [[False, []], ['none']]  # noqa
    for ev in log:
        k = ev[0]
        if k == 'spawn':
            labels.append(['spawn']); outs.append(none())
        elif k == 'taskend':
            labels.append(['taskend', ev[1], ev[2]]); outs.append(none())
        elif k == 'complete':
            labels.append(['src']); outs.append(none())
        elif k == 'send':
            labels.append(['send', ev[1]]); outs.append(none())
        elif k == 'wake':
            labels.append(['wake', ev[3]]); outs.append([[ev[1], ev[2]], ['none']])
        elif k in ('item', 'sets', 'stop', 'raise', 'err'):
            if not outs or outs[-1][1] != ['none'] or labels[-1][0] not in ('send', 'wake'):
                return None
            outs[-1][1] = list(ev)
        elif k == 'error':
            return None
    return labels, outs


def oracle_agen(case, log):
    """returns ([(signature, what)], strict_deviation: bool)"""
    items = case['items']
    bad = []
    got = []
    failed = {}      # task -> (position, code)
    awaited = {}     # task -> position of the asend that handed it over (answered by the (done, pending) pair)
    last_send = None
    ended = False
    strict_dev = False

    def first_awaited_failure(pos):
        c = [(max(failed[t][0], awaited[t]), t) for t in failed if t in awaited]
        c = [x for x in c if x[0] < pos]
        return min(c) if c else None

    for pos, ev in enumerate(log):
        k = ev[0]
        if k == 'taskend' and ev[2] is not None:
            failed.setdefault(ev[1], (pos, ev[2]))
        elif k == 'send':
            last_send = (pos, ev[1])
        elif k == 'sets':
            if last_send and last_send[1] is not None:
                for t in last_send[1]:
                    awaited.setdefault(t, last_send[0])
        elif k == 'item':
            if ended:
                bad.append(('item-after-end', f'item {ev[1]} after the iteration had ended'))
            got.append(ev[1])
            if got != items[:len(got)]:
                bad.append(('items-not-prefix', f'yielded {got}, wrapped iterator produces {items}'))
            f = first_awaited_failure(pos - 1)
            if f:
                bad.append(('exception-not-surfaced', f'item {ev[1]} yielded although awaited task {f[1]} had already raised'))
        elif k == 'stop' and not ended:
            ended = True
            if got != items:
                bad.append(('stopped-early', f'iteration ended after {got}, wrapped iterator produces {items}'))
            f = first_awaited_failure(pos - 1)
            if f:
                bad.append(('exception-not-surfaced', f'iteration ended normally although awaited task {f[1]} had raised'))
        elif k == 'raise' and not ended:
            ended = True
            cands = {failed[t][1]: t for t in failed if t in awaited and max(failed[t][0], awaited[t]) < pos}
            if ev[1] not in cands:
                bad.append(('raised-foreign-exception', f'raised {ev[1]}, which is not the exception of an awaited task that has failed ({sorted(cands)})'))
            else:
                first = min((failed[t][0], failed[t][1]) for t in failed if t in awaited and max(failed[t][0], awaited[t]) < pos)
                if first[1] != ev[1]:
                    strict_dev = True
        elif k == 'error':
            bad.append(('unexpected-exception', f'agen_with_wait raised/returned {ev[1]}'))
            ended = True
        elif k == 'hang':
            f = first_awaited_failure(pos)
            if f:
                bad.append(('exception-not-surfaced', f'awaited task {f[1]} raised but the iteration neither raised nor ended'))
            else:
                bad.append(('no-termination', f'source released and consumer iterating, but the iteration did not end (yielded {got} of {items})'))
    seen, res = set(), []
    for s, w in bad:
        if s not in seen:
            seen.add(s); res.append((s, w))
    return res, strict_dev


def gen_agen_case(rng, maxlen, patched=True):
    ln = rng.choice([0, 1, 2, 3, rng.randint(0, maxlen)])
    uniq = rng.random() < 0.8
    items = [100 + k if uniq else rng.randint(0, 2) for k in range(ln)]
    if uniq:
        items = with_specials(rng, items)
    failp = rng.choice([0.0, 0.1, 0.3, 0.6])
    sched = []
    ntask = 0
    for _ in range(rng.randint(0, 3 * ln + 6)):
        ops = []
        if rng.random() < 0.7:
            ops.append(['rel'])
        if rng.random() < 0.85:
            if rng.random() < 0.6:
                k = rng.randint(0, 3)
                ids = list(range(ntask, ntask + k))
                if ntask and rng.random() < 0.25:
                    ids.append(rng.randrange(ntask))
                ntask += k
                ops.append(['send', ids])
            else:
                ops.append(['send', None])
        if rng.random() < 0.08:
            ops.append(['spawn']); ntask += 1
        for _ in range(rng.choice([0, 1, 1, 2, 3])):
            if ntask:
                t = rng.randrange(max(0, ntask - 4), ntask) if rng.random() < 0.7 else rng.randrange(ntask)
                ops.append(['end', t, (rng.randint(1, 9) if rng.random() < failp else None)])
        for _ in range(rng.choice([0, 1, 1, 2])):
            ops.append(['spin', rng.randint(1, 5)])
        rng.shuffle(ops)
        sched += ops
    return {'kind': 'agen', 'items': items, 'style': rng.choice(['class', 'agen']),
            'hops': gen_hops(rng, ln + 1), 'sched': sched, 'ordseed': rng.randrange(10 ** 9),
            'real_tasks': rng.random() < 0.5, 'allow_fresh_send': rng.random() < 0.1,
            'allow_sets_send': rng.random() < 0.1, 'patched': patched}


# ============================================================================ to_aiter

_CALL = contextvars.ContextVar('verif_c19_call', default=-1)


class LogIter:
    def __init__(self, items, log, lock):
        self.items, self.k, self.log, self.lock = list(items), 0, log, lock

    def __iter__(self):
        return self

    def __next__(self):
        with self.lock:
            c = _CALL.get()
            if self.k < len(self.items):
                v = self.items[self.k]
                self.k += 1
                self.log.append(('run', c, v))
                return to_payload(v)
            self.log.append(('run', c, None))
        raise StopIteration


async def run_toaiter_async(case):
    from nextline.utils import aio
    log = []
    lock = threading.Lock()
    thread = case['thread']
    if case['iterable'] == 'log':
        it = aio.to_aiter(LogIter(case['items'], log, lock), thread=thread)
    elif case['iterable'] == 'list':
        it = aio.to_aiter([to_payload(x) for x in case['items']], thread=thread)
    elif case['iterable'] == 'gen':
        it = aio.to_aiter((to_payload(x) for x in case['items']), thread=thread)
    else:
        it = aio.to_aiter(tuple(to_payload(x) for x in case['items']), thread=thread)
    counter = [0]

    async def call():
        with lock:
            c = counter[0]
            counter[0] += 1
            log.append(('call', c))
        _CALL.set(c)
        try:
            v = await it.__anext__()
        except StopAsyncIteration:
            with lock:
                log.append(('deliver', c, None))
        except asyncio.CancelledError:
            raise
        except BaseException as e:  # noqa
            with lock:
                log.append(('error', repr(e)))
        else:
            with lock:
                log.append(('deliver', c, of_payload(v)))

    for k in case['rounds']:
        ts = [asyncio.ensure_future(call()) for _ in range(k)]
        await asyncio.gather(*ts)
    return log


def run_toaiter(loop, case):
    return loop.run_until_complete(asyncio.wait_for(run_toaiter_async(case), 30))


def toaiter_labels(case, log):
    labels, outs = [], []
    if case['iterable'] != 'log':
        return None
    if case['thread']:
        for ev in log:
            if ev[0] == 'call':
                labels.append(['call']); outs.append(['none'])
            elif ev[0] == 'run':
                labels.append(['run', ev[1]]); outs.append(['none'])
            elif ev[0] == 'deliver':
                labels.append(['deliver', ev[1]]); outs.append(['res', ev[1], ev[2]])
            else:
                return None
    else:
        i = 0
        while i < len(log):
            if i + 2 < len(log) and log[i][0] == 'call' and log[i + 1][0] == 'run' and log[i + 2][0] == 'deliver' \
                    and log[i][1] == log[i + 1][1] == log[i + 2][1] and log[i + 1][2] == log[i + 2][2]:
                labels.append(['call']); outs.append(['res', log[i][1], log[i + 2][2]])
                i += 3
            else:
                return None
    return labels, outs


def oracle_toaiter(case, log):
    items = case['items']
    bad = []
    delivered = [ev for ev in log if ev[0] == 'deliver']
    ncalls = sum(1 for ev in log if ev[0] == 'call')
    for ev in log:
        if ev[0] == 'error':
            bad.append(('unexpected-exception', f'to_aiter raised {ev[1]}'))
    if len(delivered) != ncalls and not bad:
        bad.append(('call-without-result', f'{ncalls} anext calls, {len(delivered)} results'))
    vals = [ev[2] for ev in delivered if ev[2] is not None]
    sequential = all(k <= 1 for k in case['rounds'])
    exp = items[:min(ncalls, len(items))]
    if sequential:
        seq = [ev[2] for ev in delivered]
        want = [x for x in exp] + [None] * (ncalls - len(exp))
        if seq != want:
            bad.append(('items-differ', f'sequential iteration delivered {seq}, iterable is {items} ({ncalls} calls)'))
    else:
        if sorted(vals) != sorted(exp):
            bad.append(('items-differ', f'concurrent anext calls delivered {sorted(vals)}, expected exactly {sorted(exp)}'))
        # within one round the calls are concurrent; across rounds order must be kept
        pos = 0
        for k in case['rounds']:
            chunk = [ev[2] for ev in delivered if pos <= ev[1] < pos + k and ev[2] is not None]
            want = items[min(pos, len(items)):min(pos + k, len(items))]
            if sorted(chunk) != sorted(want):
                bad.append(('items-reordered', f'calls {pos}..{pos + k - 1} delivered {sorted(chunk)}, expected {sorted(want)}'))
                break
            pos += k
    seen, res = set(), []
    for s, w in bad:
        if s not in seen:
            seen.add(s); res.append((s, w))
    return res


def gen_toaiter_case(rng, maxlen, allow_threads=True):
    ln = rng.choice([0, 1, 2, 3, rng.randint(0, maxlen)])
    uniq = rng.random() < 0.8
    items = [100 + k if uniq else rng.randint(0, 2) for k in range(ln)]
    if uniq:
        items = with_specials(rng, items)
    thread = allow_threads and rng.random() < 0.5
    if rng.random() < 0.5:
        rounds = [1] * (ln + rng.randint(0, 3))
    else:
        rounds = []
        while sum(rounds) < ln + rng.randint(0, 2):
            rounds.append(rng.randint(1, 4))
    return {'kind': 'toaiter', 'items': items, 'thread': thread, 'rounds': rounds,
            'iterable': rng.choice(['log', 'log', 'log', 'list', 'gen', 'tuple'])}


# ============================================================================ Coq terms

HEADER = 'From NL Require Import Aio.Model.\nOpen Scope Z_scope.\n'


def zl(xs):
    return clist(cz(x) for x in xs)


def nl(xs):
    return clist(cnat(x) for x in xs)


def mlabel_term(l):
    if l[0] == 'next': return 'MNext'
    if l[0] == 'complete': return f'MComplete {cnat(l[1])}'
    if l[0] == 'wake': return f'MWake {nl(l[1])}'
    raise ValueError(l)


def vis_term(v):
    if v[0] == 'yield': return f'VYield {cnat(v[1])} {cz(v[2])}'
    if v[0] == 'stop': return 'VStop'
    return 'VNone'


def mout_term(o):
    return f'({nl(o[0])}, {vis_term(o[1])})'


def merge_cases_file(rows):
    body = [f'(({clist(zl(x) for x in items)}, {clist(map(mlabel_term, labels))}), {clist(map(mout_term, outs))})'
            for items, labels, outs in rows]
    return (HEADER + 'Definition cases : list ((list (list V) * list mlabel) * list mout) :=\n ' + clist(body).replace('); ((', ');\n ((') + '.\n'
            'Eval vm_compute in bad_from mout_eqb (fun c : list (list V) * list mlabel => mouts (fst c) (snd c)) 0%nat cases.\n')


def glabel_term(l):
    k = l[0]
    if k == 'spawn': return 'GSpawn'
    if k == 'taskend': return f'GTaskEnd {cnat(l[1])} ' + ('TOk' if l[2] is None else f'(TExc {cz(l[2])})')
    if k == 'src': return 'GSrc'
    if k == 'send': return 'GSend ' + ('None' if l[1] is None else f'(Some {nl(l[1])})')
    if k == 'wake': return f'GWake {nl(l[1])}'
    raise ValueError(l)


def gvis_term(v):
    k = v[0]
    if k == 'item': return f'GVItem {cz(v[1])}'
    if k == 'sets': return f'GVSets {nl(v[1])} {nl(v[2])}'
    if k == 'stop': return 'GVStop'
    if k == 'raise': return f'GVRaise {cz(v[1])}'
    if k == 'err': return 'GVErr'
    return 'GVNone'


def gout_term(o):
    return f'(({cbool(o[0][0])}, {nl(o[0][1])}), {gvis_term(o[1])})'


def agen_cases_file(rows):
    body = [f'(({zl(items)}, {clist(map(glabel_term, labels))}), {clist(map(gout_term, outs))})' for items, labels, outs in rows]
    return (HEADER + 'Definition cases : list ((list V * list glabel) * list gout) :=\n ' + clist(body).replace('); ((', ');\n ((') + '.\n'
            'Eval vm_compute in bad_from gout_eqb (fun c : list V * list glabel => gouts (fst c) (snd c)) 0%nat cases.\n')


def tlabel_term(l):
    if l[0] == 'call': return 'TCall'
    if l[0] == 'run': return f'TRun {cnat(l[1])}'
    return f'TDeliver {cnat(l[1])}'


def tout_term(o):
    if o[0] == 'res':
        return f'TORes {cnat(o[1])} ' + ('RStop' if o[2] is None else f'(RItem {cz(o[2])})')
    return 'TONone'


def toaiter_cases_file(rows):
    body = [f'((({cbool(th)}, {zl(items)}), {clist(map(tlabel_term, labels))}), {clist(map(tout_term, outs))})' for th, items, labels, outs in rows]
    return (HEADER + 'Definition cases : list (((bool * list V) * list tlabel) * list tout) :=\n ' + clist(body).replace('); (((', ');\n (((') + '.\n'
            'Eval vm_compute in bad_from tout_eqb (fun c : (bool * list V) * list tlabel => touts (fst (fst c)) (snd (fst c)) (snd c)) 0%nat cases.\n')


# ============================================================================ driver

def run_case(loop, case):
    k = case['kind']
    if k == 'merge':
        return run_merge(loop, case)
    if k == 'agen':
        return run_agen(loop, case)
    return run_toaiter(loop, case)


def oracle(case, log):
    k = case['kind']
    if k == 'merge':
        return oracle_merge(case, log), False
    if k == 'agen':
        return oracle_agen(case, log)
    return oracle_toaiter(case, log), False


def jlog(log):
    return json.loads(json.dumps(log, default=str))


def _new_loop():
    loop = asyncio.new_event_loop()
    asyncio.set_event_loop(loop)
    loop.set_exception_handler(lambda *a: None)    # dangling tasks of a broken implementation: not our output
    return loop


def _run_cases(ctx, cases) -> Corr:
    corr = Corr()
    corr.rule = ('merge: real merge_aiters over 0-6 gated scripted sources (class and async-generator style, scripted extra '
                 'suspension points), random + exhaustive small schedules of gate releases / consumer resumptions / loop spins, '
                 'set order of asyncio.wait results driven by the harness; agen: real agen_with_wait over a gated source with '
                 'asend of futures/tasks that end or raise under the schedule; to_aiter: thread/no-thread, sequential and '
                 'concurrent anext calls. Each run ends with a fair drain. distinct = distinct case descriptions; non-trivial = '
                 'merge run in which asyncio.wait returned >=2 done sources at once or >=2 sources interleaved, agen run with '
                 'an item and an asend answered, to_aiter run delivering an item')
    loop = _new_loop()
    rows = {'merge': [], 'agen': [], 'toaiter': []}
    src_of = {'merge': [], 'agen': [], 'toaiter': []}
    seen = set()
    hist = {'merge': 0, 'agen': 0, 'toaiter': 0, 'unpatched': 0, 'oracle_only': 0}
    wake_sizes: dict[str, int] = {}
    nsrc_hist: dict[str, int] = {}
    strict_dev = 0
    strict_sample = None
    raises = 0
    try:
        for case in cases:
            kind = case['kind']
            try:
                log = run_case(loop, case)
            except Exception as e:  # harness could not drive the implementation
                corr.mismatches.append({'kind': 'harness-run-failed', 'case': case, 'error': repr(e)})
                try:
                    loop.close()
                except Exception:
                    pass
                loop = _new_loop()
                continue
            hist[kind] += 1
            bad, sdev = oracle(case, log)
            for sig, what in bad:
                corr.violations.append(Violation(f'{kind}:{sig}', what, {'case': case, 'observed_log': jlog(log)}))
            if sdev:
                strict_dev += 1
                if strict_sample is None:
                    strict_sample = {'case': case, 'observed_log': jlog(log)}
            nontrivial = False
            if kind == 'merge':
                nsrc_hist[str(len(case['items']))] = nsrc_hist.get(str(len(case['items'])), 0) + 1
                tags = [ev[1] for ev in log if ev[0] == 'yield']
                nontrivial = len(set(tags)) >= 2
                for ev in log:
                    if ev[0] == 'wake':
                        wake_sizes[str(len(ev[1]))] = wake_sizes.get(str(len(ev[1])), 0) + 1
                        nontrivial = nontrivial or len(ev[1]) >= 2
            elif kind == 'agen':
                nontrivial = any(ev[0] == 'item' for ev in log) and any(ev[0] == 'sets' for ev in log)
                raises += any(ev[0] == 'raise' for ev in log)
            else:
                nontrivial = any(ev[0] == 'deliver' and ev[2] is not None for ev in log)
            key = json.dumps(case, sort_keys=True)
            if key not in seen:
                seen.add(key)
                corr.distinct_nontrivial += bool(nontrivial)
            if not case.get('patched', True) and kind != 'toaiter':
                hist['unpatched'] += 1
                continue
            if kind == 'merge':
                lo = merge_labels(log)
                if lo is None:
                    if not bad:
                        corr.mismatches.append({'kind': 'merge-log-shape', 'case': case, 'log': jlog(log)})
                    continue
                rows[kind].append((case['items'], lo[0], lo[1])); src_of[kind].append((case, log))
            elif kind == 'agen':
                lo = agen_labels(log)
                if lo is None:
                    if not bad:
                        corr.mismatches.append({'kind': 'agen-log-shape', 'case': case, 'log': jlog(log)})
                    continue
                rows[kind].append((case['items'], lo[0], lo[1])); src_of[kind].append((case, log))
            else:
                lo = toaiter_labels(case, log)
                if lo is None:
                    if case['iterable'] == 'log' and not bad:
                        corr.mismatches.append({'kind': 'toaiter-log-shape', 'case': case, 'log': jlog(log)})
                    else:
                        hist['oracle_only'] += 1
                    continue
                rows[kind].append((case['thread'], case['items'], lo[0], lo[1])); src_of[kind].append((case, log))
    finally:
        try:
            loop.close()
        except Exception:
            pass
        asyncio.set_event_loop(None)
    corr.evaluations = hist['merge'] + hist['agen'] + hist['toaiter']
    files = {}
    CH = 300
    mk = {'merge': merge_cases_file, 'agen': agen_cases_file, 'toaiter': toaiter_cases_file}
    for kind, rs in rows.items():
        for i in range(0, len(rs), CH):
            files[f'{kind}_{i // CH}'] = mk[kind](rs[i:i + CH])
    res = ctx.coq_eval_many(files)
    for name, (ok, out) in res.items():
        kind, n = name.split('_'); base = int(n) * CH
        badidx = C.parse_nat_list(out) if ok else None
        if badidx is None:
            corr.mismatches.append({'kind': 'coq-eval-failed', 'file': name, 'log': out[-600:]})
            continue
        for b in badidx:
            case, log = src_of[kind][base + b]
            corr.mismatches.append({'kind': kind, 'case': case, 'impl_log': jlog(log)})
    corr.traces_validated = sum(len(r) for r in rows.values())
    for kind in rows:
        if src_of[kind]:
            case, log = src_of[kind][len(src_of[kind]) // 2]
            corr.samples.append({'case': case, 'impl_log': jlog(log)[:60]})
    corr.extra['cases_by_kind'] = hist
    corr.extra['merge_wake_done_set_sizes'] = wake_sizes
    corr.extra['merge_sources_histogram'] = nsrc_hist
    corr.extra['agen_runs_that_raised'] = raises
    corr.extra['strict_first_exception_deviations'] = strict_dev
    if strict_sample is not None:
        corr.extra['strict_first_exception_sample'] = strict_sample
    corr.extra['model_compared_cases'] = corr.traces_validated
    return corr


def load_corpus():
    d = C.CORPUS / 'C19'
    out = []
    if d.exists():
        for p in sorted(d.glob('*.json')):
            j = json.loads(p.read_text())
            out.append(j.get('case', j))
    return out


def make_cases(rng, tier):
    if tier == 'quick':
        n_merge, n_agen, n_to, exh, maxsrc, maxlen, n_thread = 900, 600, 120, 4, 5, 5, 40
    else:
        n_merge, n_agen, n_to, exh, maxsrc, maxlen, n_thread = 20000, 12000, 1500, 6, 6, 8, 400
    cases = load_corpus()
    cases += [gen_merge_case(rng, maxsrc, maxlen, patched=(rng.random() < 0.8)) for _ in range(n_merge)]
    cases += list(exhaustive_merge_cases(exh))
    cases += [gen_agen_case(rng, maxlen, patched=(rng.random() < 0.85)) for _ in range(n_agen)]
    tc = [gen_toaiter_case(rng, maxlen) for _ in range(n_to)]
    # bound the number of thread-pool cases (each anext is a real thread hop)
    nth = 0
    for c in tc:
        if c['thread']:
            nth += 1
            if nth > n_thread:
                c['thread'] = False
    cases += tc
    return cases


async def run_blocking_sources_case(n_other: int, thread_flags: tuple, timeout: float = 8.0) -> dict:
    """merge_aiters over to_aiter sources of which source 0 BLOCKS inside next() (a queue-backed iterator) until the consumer
    has received every item of the other sources: "these hold for every interleaving of the sources" includes a source that
    is slow inside its own next().  -> what was yielded, whether the merge finished"""
    import queue as _queue
    from nextline.utils import aio
    q: _queue.Queue = _queue.Queue()
    others = [[(i + 1) * 10 + k for k in range(2)] for i in range(n_other)]
    srcs = [aio.to_aiter(iter(q.get, None), thread=thread_flags[0])] + \
           [aio.to_aiter(list(it), thread=thread_flags[1]) for it in others]
    got: list = []
    fed = False

    async def consume():
        nonlocal fed
        async for i, v in aio.merge_aiters(*srcs):
            got.append([i, v])
            if not fed and sum(1 for j, _ in got if j != 0) == sum(len(x) for x in others):
                fed = True
                q.put(1); q.put(2); q.put(None)        # only now does source 0 get its items
    finished = True
    try:
        await asyncio.wait_for(consume(), timeout)
    except asyncio.TimeoutError:
        finished = False
        q.put(None)
    return {'n_other': n_other, 'thread': list(thread_flags), 'got': got, 'finished': finished, 'others': others}


def oracle_blocking_sources(o: dict) -> list:
    bad = []
    want0 = [1, 2]
    for i, it in enumerate([want0] + o['others']):
        seen = [v for j, v in o['got'] if j == i]
        if seen != it[:len(seen)]:
            bad.append(('merge:projection-not-prefix', f'items tagged {i}: {seen}, source {i} produces {it}'))
        elif o['finished'] and seen != it:
            bad.append(('merge:finished-with-items-missing', f'finished with {seen} of {it} from source {i}'))
    if not o['finished']:
        missing = {i: [v for v in it if [i, v] not in o['got']] for i, it in enumerate([want0] + o['others'])}
        bad.append(('merge:blocked-by-a-slow-source', f'source 0 blocks inside next() until the items of the other sources have been consumed; the merged '
                                                      f'iterator yielded {o["got"]} and then nothing for 8 s (never yielded: {missing})'))
    return bad[:2]


def correspond(ctx) -> Corr:
    # sources that block inside their own next() (thread-mode to_aiter): oracle only; run first, the generated cases below assume
    # things about the shape of the code that a changed tree may no longer have
    blocking = []
    loop = asyncio.new_event_loop()
    try:
        nb = 0
        for n_other in ((1, 2) if ctx.tier == 'quick' else (1, 2, 3, 5)):
            for flags in ((True, True), (True, False)):
                o = loop.run_until_complete(run_blocking_sources_case(n_other, flags))
                nb += 1
                for sig, what in oracle_blocking_sources(o):
                    blocking.append(Violation(sig, what, {'kind': 'blocking-sources', 'n_other': n_other, 'thread': list(flags), 'observed': o}))
    finally:
        loop.close()
    cases = make_cases(ctx.rng, ctx.tier)
    try:
        corr = _run_cases(ctx, cases)
    except Exception as e:     # noqa
        if not blocking:
            raise
        corr = Corr()
        corr.mismatches.append({'kind': 'correspondence-harness', 'error': repr(e)})
    corr.violations = blocking + corr.violations
    corr.extra['blocking_source_cases'] = nb
    corr.evaluations += nb
    exh = 4 if ctx.tier == 'quick' else 6
    corr.extra['exhaustive_merge_bound'] = f'all harness schedules of length <= {exh} over {{next, rel 0, rel 1, rel 0+1, spin}} x 2 set orders, sources [[101],[201,202]]'
    return corr


def shrink(loop, case, sig):
    """delta-debug the schedule: drop ops while the same oracle signature persists"""
    cur = dict(case)
    changed = True
    while changed:
        changed = False
        for i in range(len(cur['sched'])):
            cand = dict(cur); cand['sched'] = cur['sched'][:i] + cur['sched'][i + 1:]
            try:
                log = run_case(loop, cand)
            except Exception:
                continue
            if any(f"{cand['kind']}:{s}" == sig for s, _ in oracle(cand, log)[0]):
                cur = cand; changed = True
                break
    return cur


def search(ctx, broken) -> list:
    rng = ctx.rng
    cases = [gen_merge_case(rng, 6, 8, patched=(rng.random() < 0.7)) for _ in range(8000)]
    cases += list(exhaustive_merge_cases(5))
    cases += [gen_agen_case(rng, 8, patched=(rng.random() < 0.7)) for _ in range(6000)]
    cases += [gen_toaiter_case(rng, 8, allow_threads=(i % 10 == 0)) for i in range(600)]
    v = []
    sigs = set()
    loop = _new_loop()
    try:
        for case in cases:
            try:
                log = run_case(loop, case)
            except Exception:
                loop = _new_loop()
                continue
            for sig, what in oracle(case, log)[0]:
                full = f"{case['kind']}:{sig}"
                if full in sigs:
                    continue
                sigs.add(full)
                small = shrink(loop, case, full) if 'sched' in case else case
                v.append(Violation(full, what, {'case': small, 'original_case': case, 'observed_log': jlog(log)}))
            if len(v) > 3:
                break
    finally:
        try:
            loop.close()
        except Exception:
            pass
        asyncio.set_event_loop(None)
    return v


def replay(ctx, path: Path) -> int:
    j = json.loads(path.read_text())
    if j.get('kind') == 'blocking-sources':
        loop = asyncio.new_event_loop()
        o = loop.run_until_complete(run_blocking_sources_case(j['n_other'], tuple(j['thread'])))
        loop.close()
        print('observed:', o)
        bad = oracle_blocking_sources(o)
        for sig, what in bad:
            print('FAILS:', sig, what)
        print('replay verdict:', 'property violated' if bad else 'property holds on this input')
        return 1 if bad else 0
    case = j.get('case', j)
    loop = _new_loop()
    try:
        log = run_case(loop, case)
    finally:
        loop.close()
        asyncio.set_event_loop(None)
    print('case:', json.dumps(case))
    print('observed log:')
    for ev in log:
        print('  ', ev)
    bad, sdev = oracle(case, log)
    for sig, what in bad:
        print('FAILS:', sig, what)
    if sdev:
        print('note: the raised exception is not the chronologically first failure (see ASSUMPTIONS)')
    print('replay verdict:', 'property violated' if bad else 'property holds on this input')
    return 1 if bad else 0
