"""C11 -- published run state agrees with the event stream and is closed out at run end.

Model: coq/theories/Registrars/Model.v (the registrars as executable functions);
theorems: Props/C11.v (for every stream accepted by C09's wf_prefix).

Tie: the REAL registrars, registered by nextline.plugin.build_hook() on a real apluggy
PluginManager, with a real PubSub, are driven exactly as a run drives them
(init, start, compose_run_arg, on_initialize_run, on_start_run, then the real OnEvent
plugin's on_event_in_process for every event, then on_end_run) on
  * well-formed streams generated from the C09 grammar (traces interleaved, shared
    counters, stdout, frame ids that hit both branches of the trace_call_end notice),
  * "long run" streams (same grammar): > 256 traces started and ended one after the other and a
    few concurrently, trace / trace-call / prompt numbers passing 256, run numbers >= 257, and
    small streams whose numbers start above 256 ("late in a long run"),
  * streams recorded from real runs of nextline.spawned.main (harness/child.py),
  * a few corrupted streams (the model must also agree there, including "raised"),
every event handed to the hook as a FRESH object graph (pickle round trip, as the
multiprocessing queue of the real relay does: no int object is shared between two events),
each truncated at every prefix length (generated) / at sampled prefix lengths (recorded)
to model a kill, with real subscribers attached at random points -- the subscribe CALL
(`pubsub.subscribe(key, last=...)`, the call Nextline makes) at one random point and the
consumer's FIRST iteration step at the same or a random later point, including after the
per-trace end and after on_end_run -- and the event loop yielded a random number of times
between events.  Everything the broker receives is
recorded per topic and compared with the model inside Coq (cases.v + vm_compute).
Oracle: `oracle_run`, a direct statement of the property text on the recorded
publications, on `pubsub.latest('trace_nos')` after every event, and on the termination
of the subscribers.
"""
from __future__ import annotations

import asyncio
import datetime
import json
import pickle
from pathlib import Path

from .. import child
from .. import common as C
from ..common import Corr, Violation, clist, cz
from . import c09

TRANSLATORS = ['hook_order', 'registrars_funs',
               # Props/C11System.v restates the end-to-end theorems over the regenerated code of the other components (System/PipelineCode.v)
               'emitter_skeleton', 'relay_skeleton', 'callback_skeleton', 'pubsub_funs']
PROP_FILES = ['Props/C11.v', 'Props/C11System.v']     # C11System.v: the pipeline end to end (System/Pipeline.v)

TRUSTED_BASE = [
    'correspondence harness harness/props/c11.py (stream generator, driver, encoding of published values: payloads interned)',
    'modelled, not verified: asyncio.gather runs hook implementations that never suspend one after the other; dict/set '
    'semantics of CPython (insertion order, popitem = last); checked on every run by the per-topic comparison',
    'Gen/HookOrder.v is regenerated from nextline/plugin/plugins/__init__.py and registrars/*.py by translate/hook_order.py (fail-closed)',
    'Gen/RegistrarsFuns.v: every hook implementation of registrars/*.py regenerated as a statement AST by '
    'translate/registrars_funs.py (fail-closed; trusted: the Python-ast -> AST mapping, the list of untracked fields '
    '(time stamps, RunInfo.script/result/exception), the semantics Registrars/Tie.v gives to the AST (dict/set/tuple '
    'operations, `is` only against None/True/False, locks ignored) and the encodings load/enc_event/enc_value of the '
    'model types); the C11_tie_* theorems of Props/C11.v prove, for all states and events, interpreted source = model',
    'shared between model and interpreter (so NOT checked by the tie, only by the correspondence run): the dict / set / '
    'list operations -- Registrars/Tie.v interprets dict get/set/del, list.remove and set add/remove with the very '
    'functions dget/dset/ddel/remove_first (and list-based sets: set.pop() = first element) that Registrars/Model.v uses',
    'PINNED as text, no semantics (C11_tie_untranslated_pinned): asserts that do not mention self (`assert context.run_arg`, '
    '`assert event.<time stamp>.tzinfo is timezone.utc`) are ASSUMED to hold; statements and keyword values that only feed the '
    'untracked dataclass fields (time stamps, RunInfo.script/result/exception).  Refused by the translator: base classes, '
    'class-level statements, decorators other than @hookimpl / @staticmethod, default arguments, special methods, unused '
    'helper methods, module-level statements other than import/class, anything but `ahook = ...; match event:` in monitor.py',
    'exceptions: a raising hook implementation ends the relay (C11_tie_relay_stops_at_raise, C11_tie_whole_run_stop: stop rule '
    'as in the code); C11_no_raise proves it cannot happen on a stream accepted by wf_prefix.  NOT modelled: an exception '
    'raised by the broker (pubsub.publish/end) or by a USER plugin in an event hook, and cancellation of the relay task',
]
ASSUMPTIONS = [
    'a kill is a truncation of the event stream followed by on_end_run (RunSession.run awaits the relay task before _on_end_run)',
    'the registrars publish on pairwise disjoint topics (Registrars/Order.v, from the generated table), so gather order is '
    'irrelevant per topic; publications are compared per topic',
    'a subscriber "attached while the stream was live": prompt_notice -- between on_initialize_run and on_end_run; '
    'prompt_info_<n> -- after OnStartTrace n was relayed and before the topic was ended; "attached" = the subscribe() call '
    '(not the first iteration step, which may come arbitrarily later)',
]


# ---------------------------------------------------------------- stream generator (from the grammar)

def gen_wf_stream(rng, run_no=1, max_traces=4, max_calls=5, base=0):
    """A complete well-formed stream: per-trace structured programs interleaved at random,
    numbers from shared counters at emission time."""
    nt = rng.randint(1, max_traces)
    progs = []
    for _ in range(nt):
        items = []
        for _ in range(rng.randint(0, max_calls)):
            if rng.random() < 0.25:
                items.append(('out',))
            loop = None
            if rng.random() < 0.6:
                loop = rng.randint(1, 3)
            items.append(('call', rng.randint(1, 3), loop))
        progs.append(items)
    # compile to per-trace event templates
    seqs = []
    for i, items in enumerate(progs):
        s = [('OnStartTrace',)]
        for it in items:
            if it[0] == 'out':
                s.append(('OnWriteStdout',))
            else:
                _, fid, loop = it
                s.append(('OnStartTraceCall', fid))
                if loop:
                    s.append(('OnStartCmdloop',))
                    for _ in range(loop):
                        s.append(('OnStartPrompt',))
                        if rng.random() < 0.15:
                            s.append(('OnWriteStdout',))
                        s.append(('OnEndPrompt',))
                    s.append(('OnEndCmdloop',))
                s.append(('OnEndTraceCall',))
        s.append(('OnEndTrace',))
        seqs.append(s)
    # trace numbers: a permutation so that start order differs from numeric order
    # `base`: numbers handed out so far in the run (late in a long run all numbers are large)
    tnos = list(range(base + 1, base + nt + 1))
    if rng.random() < 0.5:
        rng.shuffle(tnos)
    started = []
    pos = [0] * nt
    ccount = pcount = base
    cur_call = [None] * nt
    cur_prompt = [None] * nt
    cur_fid = [None] * nt
    events = []
    # actor 0 starts first; others may start any time
    while any(pos[i] < len(seqs[i]) for i in range(nt)):
        i = rng.choice([k for k in range(nt) if pos[k] < len(seqs[k])])
        k = seqs[i][pos[i]]
        pos[i] += 1
        tn = tnos[i]
        ty = k[0]
        e = {'type': ty, 'run_no': run_no, 'trace_no': tn}
        if ty == 'OnStartTrace':
            e.update(thread_no=rng.randint(1, 3), task_no=rng.choice([None, 1, 2]))
        elif ty == 'OnStartTraceCall':
            ccount += 1
            cur_call[i] = ccount
            cur_fid[i] = k[1]
            e.update(trace_call_no=ccount, file_name=rng.choice(['<string>', 'm.py']), line_no=rng.randint(1, 9),
                     frame_object_id=k[1] * 100 + i, event=rng.choice(['line', 'call', 'return']))
        elif ty in ('OnEndTraceCall', 'OnStartCmdloop', 'OnEndCmdloop'):
            e.update(trace_call_no=cur_call[i])
        elif ty == 'OnStartPrompt':
            pcount += 1
            cur_prompt[i] = pcount
            e.update(trace_call_no=cur_call[i], prompt_no=pcount, prompt_text=f'(Pdb) {pcount % 3}', file_name='<string>',
                     line_no=1, frame_object_id=cur_fid[i] * 100 + i, event='line')
        elif ty == 'OnEndPrompt':
            e.update(trace_call_no=cur_call[i], prompt_no=cur_prompt[i], command=rng.choice(['next', 'step', 'continue', 'p 1']))
        elif ty == 'OnWriteStdout':
            e.update(text=rng.choice(['a\n', 'b\n']))
        events.append(e)
    return events


def gen_long_run_stream(rng, run_no=1000, n_traces=300):
    """A complete well-formed stream of a LONG run (what a script starting hundreds of short-lived
    threads produces): the main trace 1 stays live; traces 2..n_traces start and end one after the
    other, a few of them overlapping (ended in a different order than started); numbers from the
    shared counters, so trace numbers, trace-call numbers and prompt numbers all pass 256 while the
    run goes on; run number >= 1000.  Generated as an interleaving of structured per-trace programs
    (the proved emitter model), hence well formed."""
    events = []
    cc = [0]
    pc = [rng.choice([0, 150])]          # prompts handed out before (not every trace prompts)

    def ev(ty, tn, **kw):
        events.append({'type': ty, 'run_no': run_no, 'trace_no': tn, **kw})

    def start(tn):
        ev('OnStartTrace', tn, thread_no=tn, task_no=None)

    def call(tn, prompts):
        cc[0] += 1
        c = cc[0]
        fid = 7000 + tn
        ev('OnStartTraceCall', tn, trace_call_no=c, file_name='<string>', line_no=1 + tn % 7, frame_object_id=fid, event='line')
        if prompts:
            ev('OnStartCmdloop', tn, trace_call_no=c)
            for _ in range(prompts):
                pc[0] += 1
                ev('OnStartPrompt', tn, trace_call_no=c, prompt_no=pc[0], prompt_text='(Pdb) ', file_name='<string>', line_no=1,
                   frame_object_id=fid, event='line')
                ev('OnEndPrompt', tn, trace_call_no=c, prompt_no=pc[0], command='next')
            ev('OnEndCmdloop', tn, trace_call_no=c)
        ev('OnEndTraceCall', tn, trace_call_no=c)

    start(1)
    call(1, 1)
    tn = 2
    while tn <= n_traces:
        k = rng.choice([1, 1, 1, 1, 2, 3]) if tn > 240 else rng.choice([1, 1, 1, 1, 1, 1, 1, 3])
        group = list(range(tn, min(tn + k, n_traces + 1)))
        tn += len(group)
        for t in group:
            start(t)
        order = list(group)
        rng.shuffle(order)
        for t in order:
            call(t, 1 if (t > 240 or rng.random() < 0.2) else 0)
            if rng.random() < 0.1:
                ev('OnWriteStdout', t, text='x\n')
        ends = list(group)
        rng.shuffle(ends)
        for t in ends:
            ev('OnEndTrace', t)
        if rng.random() < 0.1:
            call(1, 0)
    call(1, 1)
    ev('OnEndTrace', 1)
    return events


# ---------------------------------------------------------------- driver of the real registrars

def make_event(d: dict):
    from nextline import events as E
    now = datetime.datetime.utcnow()
    ty = d['type']
    if ty == 'OnStartTrace':
        return E.OnStartTrace(started_at=now, run_no=d['run_no'], trace_no=d['trace_no'], thread_no=d.get('thread_no'), task_no=d.get('task_no'))
    if ty == 'OnEndTrace':
        return E.OnEndTrace(ended_at=now, run_no=d['run_no'], trace_no=d['trace_no'])
    if ty == 'OnStartTraceCall':
        return E.OnStartTraceCall(started_at=now, run_no=d['run_no'], trace_no=d['trace_no'], trace_call_no=d['trace_call_no'],
                                  file_name=d.get('file_name'), line_no=d.get('line_no'), frame_object_id=d.get('frame_object_id'), event=d.get('event'))
    if ty == 'OnEndTraceCall':
        return E.OnEndTraceCall(ended_at=now, run_no=d['run_no'], trace_no=d['trace_no'], trace_call_no=d['trace_call_no'])
    if ty == 'OnStartCmdloop':
        return E.OnStartCmdloop(started_at=now, run_no=d['run_no'], trace_no=d['trace_no'], trace_call_no=d['trace_call_no'])
    if ty == 'OnEndCmdloop':
        return E.OnEndCmdloop(ended_at=now, run_no=d['run_no'], trace_no=d['trace_no'], trace_call_no=d['trace_call_no'])
    if ty == 'OnStartPrompt':
        return E.OnStartPrompt(started_at=now, run_no=d['run_no'], trace_no=d['trace_no'], trace_call_no=d['trace_call_no'], prompt_no=d['prompt_no'],
                               prompt_text=d.get('prompt_text'), file_name=d.get('file_name'), line_no=d.get('line_no'),
                               frame_object_id=d.get('frame_object_id'), event=d.get('event'))
    if ty == 'OnEndPrompt':
        return E.OnEndPrompt(ended_at=now, run_no=d['run_no'], trace_no=d['trace_no'], trace_call_no=d['trace_call_no'], prompt_no=d['prompt_no'],
                             command=d.get('command'))
    if ty == 'OnWriteStdout':
        return E.OnWriteStdout(written_at=now, run_no=d['run_no'], trace_no=d['trace_no'], text=d.get('text'))
    raise ValueError(ty)


END = '@@END@@'


def _recording_pubsub():
    from nextline.utils.pubsub.broker import PubSub

    class RecordingPubSub(PubSub):
        def __init__(self):
            super().__init__()
            self.log = []

        async def publish(self, key, value):
            self.log.append((key, value))
            await super().publish(key, value)

        async def end(self, key):
            self.log.append((key, END))
            await super().end(key)

    return RecordingPubSub()


class Subscriber:
    """`attach`: the subscribe CALL, exactly as Nextline makes it (`pubsub.subscribe(key, last=...)`),
    at position `at`; `start`: the consumer task, i.e. the FIRST iteration step, at position
    `start_at` >= `at` (len(events) = after on_end_run).  A subscriber is attached, in the
    property's sense, from the call on."""

    def __init__(self, pubsub, key, last, at, live, start_at):
        self.key, self.last, self.at, self.live, self.start_at = key, last, at, live, start_at
        self.got = []
        self.agen = pubsub.subscribe(key, last=last)
        self.task = None

    def start(self):
        if self.task is None:
            self.task = asyncio.ensure_future(self._run(self.agen))

    async def _run(self, agen):
        async for v in agen:
            self.got.append(v)


async def drive(run_no: int, events: list[dict], plan: dict) -> dict:
    """plan: {'subs': {position: [(key_kind, last, start_position)]}, 'yields': {position: n}}; position -1 =
    before the first event, i = after event i, len(events) = after on_end_run (start_position only)."""
    from nextline.plugin import Context, build_hook
    from nextline import events as E
    from nextline.types import InitOptions

    hook = build_hook()
    pubsub = _recording_pubsub()
    ctx = Context(nextline=None, hook=hook, pubsub=pubsub)  # type: ignore
    hook.hook.init(context=ctx, init_options=InitOptions(statement='pass', run_no_start_from=run_no))
    raised = False
    await hook.ahook.start(context=ctx)
    ctx.run_arg = hook.hook.compose_run_arg(context=ctx)
    assert ctx.run_arg.run_no == run_no
    n_before = len(pubsub.log)
    await hook.ahook.on_initialize_run(context=ctx)
    try:
        await hook.ahook.on_start_run(context=ctx, event=E.OnStartRun(
            started_at=datetime.datetime.now(datetime.timezone.utc), run_no=run_no, statement='pass'))
    except Exception:
        raised = True
    subs: list[Subscriber] = []
    live_for: set = set()         # trace numbers whose per-trace topic is live
    latest_after = []             # pubsub.latest('trace_nos') after each event (None = nothing published yet)

    def attach(pos):
        for entry in plan.get('subs', {}).get(pos, []):
            kind, last = entry[0], entry[1]
            start_at = entry[2] if len(entry) > 2 else pos
            if kind == 'notice':
                subs.append(Subscriber(pubsub, 'prompt_notice', last, pos, True, start_at))
            elif kind == 'nos':
                subs.append(Subscriber(pubsub, 'trace_nos', last, pos, False, start_at))
            elif kind == 'info':
                subs.append(Subscriber(pubsub, 'trace_info', last, pos, False, start_at))
            elif isinstance(kind, (list, tuple)) and kind[0] == 'for':
                subs.append(Subscriber(pubsub, f'prompt_info_{kind[1]}', last, pos, kind[1] in live_for, start_at))
        start_due(pos)

    def start_due(pos):
        for s_ in subs:
            if s_.task is None and s_.start_at <= pos:
                s_.start()

    async def yields(pos):
        for _ in range(plan.get('yields', {}).get(pos, 0)):
            await asyncio.sleep(0)

    attach(-1)
    await yields(-1)
    for i, d in enumerate(events):
        # the relay receives every event through a multiprocessing queue: a FRESH object graph per
        # event (no object, not even an int > 256, is shared between two events)
        ev = pickle.loads(pickle.dumps(make_event(d)))
        try:
            await hook.ahook.on_event_in_process(context=ctx, event=ev)
        except Exception:
            raised = True
        if d['type'] == 'OnStartTrace':
            live_for.add(d['trace_no'])
        elif d['type'] == 'OnEndTrace':
            live_for.discard(d['trace_no'])
        try:
            latest_after.append(list(pubsub.latest('trace_nos')))
        except LookupError:
            latest_after.append(None)
        attach(i)
        await yields(i)
    n_events_end = len(pubsub.log)
    try:
        await hook.ahook.on_end_run(context=ctx, event=E.OnEndRun(
            ended_at=datetime.datetime.now(datetime.timezone.utc), run_no=run_no, returned='null', raised=''))
    except Exception:
        raised = True
    try:
        final_nos = list(pubsub.latest('trace_nos'))
    except LookupError:
        final_nos = None
    start_due(len(events))          # consumers that take their first step only after the run has ended
    for _ in range(8):
        await asyncio.sleep(0)
    sub_report = []
    for s in subs:
        sub_report.append({'key': s.key, 'last': s.last, 'at': s.at, 'start_at': s.start_at, 'live': s.live,
                           'done': s.task.done(), 'n': len(s.got)})
        if not s.task.done():
            s.task.cancel()
    await asyncio.gather(*[s.task for s in subs], return_exceptions=True)
    await pubsub.close()
    return {'log': pubsub.log[n_before:], 'n_events_end': n_events_end - n_before, 'raised': raised, 'latest_after': latest_after,
            'final_nos': final_nos, 'subs': sub_report}


def check_atomicity() -> list[str]:
    """No hook implementation of a registrar suspends: each coroutine, driven with send(None),
    finishes at once (so gather runs them one after the other)."""
    from nextline.plugin import Context, build_hook
    from nextline import events as E
    from nextline.types import InitOptions
    bad = []
    loop = asyncio.new_event_loop()
    try:
        async def go():
            hook = build_hook()
            pubsub = _recording_pubsub()
            ctx = Context(nextline=None, hook=hook, pubsub=pubsub)  # type: ignore
            hook.hook.init(context=ctx, init_options=InitOptions(statement='pass'))
            await hook.ahook.start(context=ctx)
            ctx.run_arg = hook.hook.compose_run_arg(context=ctx)
            stream = [
                {'type': 'OnStartTrace', 'run_no': 1, 'trace_no': 1, 'thread_no': 1, 'task_no': None},
                {'type': 'OnStartTraceCall', 'run_no': 1, 'trace_no': 1, 'trace_call_no': 1, 'file_name': 'f', 'line_no': 1, 'frame_object_id': 5, 'event': 'line'},
                {'type': 'OnStartCmdloop', 'run_no': 1, 'trace_no': 1, 'trace_call_no': 1},
                {'type': 'OnStartPrompt', 'run_no': 1, 'trace_no': 1, 'trace_call_no': 1, 'prompt_no': 1, 'prompt_text': 'x', 'file_name': 'f', 'line_no': 1, 'frame_object_id': 5, 'event': 'line'},
                {'type': 'OnWriteStdout', 'run_no': 1, 'trace_no': 1, 'text': 'a'},
                {'type': 'OnEndPrompt', 'run_no': 1, 'trace_no': 1, 'trace_call_no': 1, 'prompt_no': 1, 'command': 'next'},
                {'type': 'OnEndCmdloop', 'run_no': 1, 'trace_no': 1, 'trace_call_no': 1},
                {'type': 'OnEndTraceCall', 'run_no': 1, 'trace_no': 1, 'trace_call_no': 1},
                {'type': 'OnEndTrace', 'run_no': 1, 'trace_no': 1},
                {'type': 'OnStartTrace', 'run_no': 1, 'trace_no': 2, 'thread_no': 1, 'task_no': None},
            ]
            calls = [('on_initialize_run', {})]
            hookname = {'OnStartTrace': 'on_start_trace', 'OnEndTrace': 'on_end_trace', 'OnStartTraceCall': 'on_start_trace_call',
                        'OnEndTraceCall': 'on_end_trace_call', 'OnStartCmdloop': 'on_start_cmdloop', 'OnEndCmdloop': 'on_end_cmdloop',
                        'OnStartPrompt': 'on_start_prompt', 'OnEndPrompt': 'on_end_prompt', 'OnWriteStdout': 'on_write_stdout'}
            for d in stream:
                calls.append((hookname[d['type']], {'event': make_event(d)}))
            calls.append(('on_end_run', {'event': E.OnEndRun(ended_at=datetime.datetime.now(datetime.timezone.utc), run_no=1, returned='null', raised='')}))
            for name, kw in calls:
                coros = getattr(hook.hook, name)(context=ctx, **kw)     # pluggy: list of coroutines, call order
                for co in coros:
                    try:
                        co.send(None)
                    except StopIteration:
                        continue
                    except Exception as e:
                        bad.append(f'{name}: raised {e!r}')
                        continue
                    co.close()
                    bad.append(f'{name}: an implementation suspended ({co!r})')
        loop.run_until_complete(go())
    finally:
        loop.close()
    return bad


# ---------------------------------------------------------------- encoding of observations

FIXED_TOPICS = [('trace_nos', 'TTraceNos'), ('trace_info', 'TTraceInfo'), ('prompt_info', 'TPromptInfo'),
                ('prompt_notice', 'TPromptNotice'), ('run_info', 'TRunInfo'), ('stdout', 'TStdout')]
IGNORED_KEYS = {'run_no', 'statement', 'script_file_name', 'state_name'}


def opt(x):
    return 'None' if x is None else f'(Some {cz(x)})'


def value_term(key: str, v, it) -> str:
    if key == 'trace_nos':
        return f'VNos {clist(cz(x) for x in v)}'
    if key == 'trace_info':
        return f'VTraceInfo {cz(v.run_no)} {cz(v.trace_no)} {cz(it(["pl", v.thread_no, v.task_no]))} {"true" if v.state == "running" else "false"}'
    if key == 'prompt_info' or key.startswith('prompt_info_'):
        info = None if (v.event is None and v.file_name is None and v.line_no is None) else it(['info', v.file_name, v.line_no, v.event])
        txt = None if v.stdout is None else it(['txt', v.stdout])
        cmd = None if v.command is None else it(['cmd', v.command])
        return (f'VPromptInfo (mkPinfo {cz(v.run_no)} {cz(v.trace_no)} {cz(v.prompt_no)} {"true" if v.open else "false"} '
                f'{opt(info)} {opt(txt)} {opt(cmd)} {"true" if v.trace_call_end else "false"})')
    if key == 'prompt_notice':
        return (f'VNotice {cz(v.run_no)} {cz(v.trace_no)} {cz(v.prompt_no)} {cz(it(["txt", v.prompt_text]))} '
                f'{cz(it(["info", v.file_name, v.line_no, v.event]))}')
    if key == 'run_info':
        return f'VRunInfo {cz(v.run_no)} {cz({"initialized": 0, "running": 1, "finished": 2}[v.state])}'
    if key == 'stdout':
        return f'VStdout {cz(v.run_no)} {cz(v.trace_no)} {cz(it(["txt", v.text]))}'
    raise ValueError(key)


def case_term(run_no, events, obs) -> str:
    it = c09.Intern()
    evs = c09.events_term(events, it)
    topics = list(FIXED_TOPICS)
    tnos = sorted({e['trace_no'] for e in events if e.get('trace_no') is not None} |
                  {int(k[len('prompt_info_'):]) for k, _ in obs['log'] if k.startswith('prompt_info_')})
    for n in tnos:
        topics.append((f'prompt_info_{n}', f'(TPromptInfoFor {cz(n)})'))
    rows = []
    for key, term in topics:
        seq = []
        for k, v in obs['log']:
            if k == key:
                seq.append('None' if v is END else f'(Some ({value_term(key, v, it)}))')
        rows.append(f'({term}, {clist(seq)})')
    return f'({cz(run_no)}, {evs}, {clist(rows)}, {"true" if obs["raised"] else "false"})'


def cases_file(terms) -> str:
    return ('From NL Require Import Events.Grammar Registrars.Model.\nOpen Scope Z_scope.\n' + c09.ALIASES +
            'Definition cases : list (Z * list event * list (topic * list (option value)) * bool) :=\n [' + ';\n '.join(terms) + '].\n'
            'Eval vm_compute in reg_bad_from 0%nat cases.\n')


# ---------------------------------------------------------------- oracle (the property text)

def oracle_run(run_no, events, obs) -> list[tuple[str, str]]:
    bad = []
    log = obs['log']
    # 1. at every moment the published active set = started and not yet ended, in start order
    active = []
    for i, e in enumerate(events):
        if e['type'] == 'OnStartTrace':
            active = active + [e['trace_no']]
        elif e['type'] == 'OnEndTrace':
            active = [t for t in active if t != e['trace_no']]
        got = obs['latest_after'][i]
        if got is None:
            got = []
        if got != active:
            bad.append(('active-set', f'after event {i} ({e["type"]} trace {e["trace_no"]}) the published trace ids are {got}, '
                                      f'started and not ended are {active}'))
            break
    # 2. each trace's info goes running then finished exactly once (leftovers at run end)
    started = [e for e in events if e['type'] == 'OnStartTrace']
    for e in started:
        tn = e['trace_no']
        seq = [v.state for k, v in log if k == 'trace_info' and v is not END and v.trace_no == tn]
        if seq != ['running', 'finished']:
            bad.append(('trace-info', f'trace {tn}: trace_info states over the run are {seq}, expected running then finished once'))
        vals = [v for k, v in log if k == 'trace_info' and v is not END and v.trace_no == tn]
        if any((v.thread_no, v.task_no, v.run_no) != (e.get('thread_no'), e.get('task_no'), run_no) for v in vals):
            bad.append(('trace-info', f'trace {tn}: trace_info does not carry the thread/task/run numbers of its start event'))
    stray = sorted({v.trace_no for k, v in log if k == 'trace_info' and v is not END} - {e['trace_no'] for e in started})
    if stray:
        bad.append(('trace-info', f'trace_info published for traces {stray} that never started'))
    # 3. each prompt reported open, then closed with the command that answered it
    ends = {e['prompt_no']: e for e in events if e['type'] == 'OnEndPrompt'}
    for e in events:
        if e['type'] != 'OnStartPrompt':
            continue
        pn, tn = e['prompt_no'], e['trace_no']
        for key in ('prompt_info', f'prompt_info_{tn}'):
            seq = [(v.open, v.command) for k, v in log if k == key and v is not END and v.prompt_no == pn]
            want = [(True, None)] + ([(False, ends[pn]['command'])] if pn in ends else [])
            if seq != want:
                bad.append(('prompt-open-close', f'prompt {pn} of trace {tn} on {key}: (open, command) reports {seq}, expected {want}'))
    # 4. prompt notices match prompt starts one to one
    notices = [(v.trace_no, v.prompt_no) for k, v in log if k == 'prompt_notice' and v is not END]
    starts = [(e['trace_no'], e['prompt_no']) for e in events if e['type'] == 'OnStartPrompt']
    if notices != starts:
        bad.append(('notice-bijection', f'prompt notices {notices} vs prompt starts {starts}'))
    # 5. closed out at run end
    if obs['final_nos'] != []:
        bad.append(('closed-out-active-set', f'after on_end_run the published trace ids are {obs["final_nos"]}, expected ()'))
    for s in obs['subs']:
        if s['live'] and not s['done']:
            bad.append(('subscriber-waits-forever', f'a subscriber that called subscribe({s["key"]!r}, last={s["last"]}) after event {s["at"]}, while '
                                                    f'the stream was live, and took its first iteration step at position {s["start_at"]} '
                                                    f'(events: 0..{len(events) - 1}, {len(events)} = after on_end_run) is still waiting after on_end_run'))
            break
    return bad


# ---------------------------------------------------------------- plans

def gen_plan(rng, events, p_sub=0.5):
    subs: dict = {}
    ys: dict = {}
    n = len(events)
    tnos = sorted({e['trace_no'] for e in events}) or [1]
    for _ in range(rng.randint(0, 4) if rng.random() < p_sub else 0):
        pos = rng.randint(-1, n - 1)
        kind = rng.choice(['notice', 'notice', ['for', rng.choice(tnos)], ['for', rng.choice(tnos)], 'nos', 'info'])
        # the first iteration step: at once, at a random later point, or only after on_end_run
        r = rng.random()
        start_at = pos if r < 0.4 else (n if r < 0.65 else rng.randint(pos, n))
        subs.setdefault(pos, []).append((kind, rng.random() < 0.6, start_at))
    for _ in range(rng.randint(0, 3)):
        ys[rng.randint(-1, n - 1)] = rng.randint(1, 3)
    return {'subs': subs, 'yields': ys}


# ---------------------------------------------------------------- main entry points

def _run(ctx, work, corr: Corr):
    """work: list of (kind, run_no, events(dicts, already truncated), plan, origin)"""
    loop = asyncio.new_event_loop()
    terms = []
    meta = []
    hist = {}
    nsubs = nlive = ndef = nlate = 0
    seen = set()
    try:
        for kind, r, evs, plan, origin in work:
            obs = loop.run_until_complete(drive(r, evs, plan))
            corr.evaluations += 1
            hist[kind] = hist.get(kind, 0) + 1
            nsubs += len(obs['subs'])
            nlive += sum(1 for s in obs['subs'] if s['live'])
            ndef += sum(1 for s in obs['subs'] if s['live'] and s['start_at'] > s['at'])
            nlate += sum(1 for s in obs['subs'] if s['live'] and _after_end(evs, s))
            key = json.dumps(evs, sort_keys=True, default=str)
            if key not in seen:
                seen.add(key)
                if any(e['type'] == 'OnStartPrompt' for e in evs) and (not evs or evs[-1]['type'] != 'OnEndTrace' or kind not in ('full', 'long-full')):
                    corr.distinct_nontrivial += 1
            terms.append(case_term(r, evs, obs))
            meta.append((kind, r, evs, plan, origin))
            if kind != 'corrupted':
                for sig, what in oracle_run(r, evs, obs)[:3]:
                    corr.violations.append(Violation(f'registrars:{sig}', what, {
                        'run_no': r, 'events': evs, 'plan': _plan_json(plan), 'origin': origin,
                        'observed': [[k, ('END' if v is END else repr(v))] for k, v in obs['log']][:200]}))
    finally:
        loop.close()
    files = {}
    CH = 150
    for i in range(0, len(terms), CH):
        files[f'reg_{i // CH}'] = cases_file(terms[i:i + CH])
    res = ctx.coq_eval_many(files, timeout=900)
    for name, (ok, out) in res.items():
        n = int(name.split('_')[1])
        bad = C.parse_nat_list(out) if ok else None
        if bad is None:
            corr.mismatches.append({'kind': 'coq-eval-failed', 'file': name, 'log': out[-800:]})
            continue
        for b in bad:
            kind, r, evs, plan, origin = meta[n * CH + b]
            corr.mismatches.append({'kind': f'registrars-model-vs-real:{kind}', 'run_no': r, 'events': c09._brief(evs), 'origin': origin})
    corr.extra.update({'case_kinds': hist, 'subscribers_attached': nsubs, 'subscribers_attached_while_live': nlive,
                       'live_subscribers_first_step_deferred': ndef, 'live_subscribers_first_step_after_topic_end_or_run_end': nlate})


def _after_end(evs, s):
    """the first iteration step came after the topic had been ended (per-trace end or run end)"""
    if s['start_at'] >= len(evs):
        return True
    if s['key'].startswith('prompt_info_'):
        tn = int(s['key'][len('prompt_info_'):])
        return any(e['type'] == 'OnEndTrace' and e['trace_no'] == tn for e in evs[s['at'] + 1:s['start_at'] + 1])
    return False


def _plan_json(plan):
    return {'subs': {str(k): v for k, v in plan.get('subs', {}).items()}, 'yields': {str(k): v for k, v in plan.get('yields', {}).items()}}


def _plan_from_json(j):
    return {'subs': {int(k): [tuple(x) for x in v] for k, v in j.get('subs', {}).items()},
            'yields': {int(k): v for k, v in j.get('yields', {}).items()}}


def build_work(ctx, n_gen, n_real, real_prefixes, n_corrupt, n_long=1, long_kills=2):
    rng = ctx.rng
    work = []
    for p in load_corpus():
        work.append(('corpus', p['run_no'], p['events'], _plan_from_json(p.get('plan', {})), 'corpus'))
    for i in range(n_gen):
        r = rng.choice([1, 1, 3, 1000])
        # one stream in four is "late in a long run": every number is above the small-int range
        base = rng.choice([0, 0, 0, 255, 300, 100000]) if i % 4 == 3 else 0
        evs = gen_wf_stream(rng, r, max_traces=rng.choice([1, 2, 3, 4]), max_calls=rng.choice([1, 2, 3, 4]), base=base)
        for n in range(len(evs) + 1):
            work.append(('full' if n == len(evs) else 'killed', r, evs[:n], gen_plan(rng, evs[:n]), f'generated#{i}'))
        if i < n_corrupt:
            cor = c09.corrupt(rng, evs)
            work.append(('corrupted', r, cor, gen_plan(rng, cor, 0.2), f'generated#{i}:corrupted'))
    # long runs: > 256 traces / trace calls / prompts, run number 1000+ (full + a few kills each)
    for i in range(n_long):
        r = rng.choice([1000, 1000, 257, 70000])
        evs = gen_long_run_stream(rng, r, n_traces=rng.randint(290, 320))
        cuts = {len(evs)} | {rng.randrange(len(evs) * 3 // 4, len(evs)) for _ in range(long_kills)}
        for n in sorted(cuts):
            work.append(('long-full' if n == len(evs) else 'long-killed', r, evs[:n], gen_plan(rng, evs[:n]), f'long-run#{i}'))
    if n_real:
        jobs = [c09.gen_job(rng, k, 'quick') for k in range(n_real)]
        for j in jobs:
            j['timeout'] = 20
        results = child.run_jobs(jobs, par=12, chunk=6)
        for j, res in zip(jobs, results):
            evs = res.get('events') or []
            if res.get('error') or not evs or len(evs) > 600:
                continue
            r = j.get('run_no', 1)
            cuts = {len(evs)} | {rng.randrange(len(evs)) for _ in range(real_prefixes)}
            for n in sorted(cuts):
                work.append(('full' if n == len(evs) else 'killed', r, evs[:n], gen_plan(rng, evs[:n]), f'recorded:{j["policy"]["kind"]}'))
    return work


def correspond(ctx) -> Corr:
    corr = Corr()
    corr.rule = ('each case = one event stream (generated from the C09 grammar, or recorded from a real run of nextline.spawned.main, '
                 'or corrupted) cut at one prefix length, fed to the real registrars through apluggy + the real OnEvent plugin with a real '
                 'PubSub, random subscribers and loop yields, then on_end_run; every generated stream is cut at EVERY prefix length; '
                 'distinct = distinct truncated streams; non-trivial = contains a prompt and is a kill (proper prefix)')
    for b in check_atomicity():
        corr.mismatches.append({'kind': 'atomicity', 'what': b})
    if ctx.tier == 'quick':
        work = build_work(ctx, n_gen=110, n_real=24, real_prefixes=6, n_corrupt=40)
    else:
        work = build_work(ctx, n_gen=1500, n_real=300, real_prefixes=12, n_corrupt=400, n_long=6, long_kills=4)
    ctx.log(f'{len(work)} cases')
    _run(ctx, work, corr)
    # system level (tie of System/Pipeline.v / Props/C11System.v): the registrars inside a real Nextline, the relay held in a
    # slow hook while the run ends -- harness/props/c11_system.py
    from . import c11_system
    vs, st = c11_system.run(ctx)
    corr.violations += vs
    corr.evaluations += st['system_judged']
    corr.extra.update(st)
    if work:
        k, r, evs, plan, origin = work[len(work) // 3]
        corr.samples.append({'kind': k, 'origin': origin, 'stream': c09._brief(evs), 'plan': _plan_json(plan)})
    return corr


def search(ctx, broken) -> list:
    corr = Corr()
    work = build_work(ctx, n_gen=600, n_real=60, real_prefixes=10, n_corrupt=0)
    loop = asyncio.new_event_loop()
    from . import c11_system
    out = list(c11_system.run(ctx, 'thorough')[0])
    try:
        for kind, r, evs, plan, origin in work:
            obs = loop.run_until_complete(drive(r, evs, plan))
            for sig, what in oracle_run(r, evs, obs):
                out.append(Violation(f'registrars:{sig}', what, {'run_no': r, 'events': evs, 'plan': _plan_json(plan), 'origin': origin}))
            if len(out) > 5:
                break
    finally:
        loop.close()
    return out


def load_corpus():
    d = C.CORPUS / 'C11'
    out = []
    if d.exists():
        for p in sorted(d.glob('*.json')):
            out.append(json.loads(p.read_text()))
    return out


def replay(ctx, path: Path) -> int:
    j = json.loads(path.read_text())
    if 'system_scenario' in j:
        from . import c11_system
        from .. import life
        obs = life.run_one(j['system_scenario'])
        for line in life.brief(obs)[-40:]:
            print(line)
        bad = c11_system.oracle(j['system_scenario'], obs)
        for sig, what in bad:
            print('FAILS:', sig, '|', what)
        print('replay verdict:', 'property violated' if bad else 'property holds on this scenario')
        return 1 if bad else 0
    if 'events' not in j:
        print('nothing to replay in this file (no failing input was recorded)')
        return 1
    loop = asyncio.new_event_loop()
    obs = loop.run_until_complete(drive(j['run_no'], j['events'], _plan_from_json(j.get('plan', {}))))
    loop.close()
    for k, v in obs['log']:
        print('  ', k, 'END' if v is END else v)
    print('subscribers:', obs['subs'])
    bad = oracle_run(j['run_no'], j['events'], obs)
    for sig, what in bad:
        print('FAILS:', sig, what)
    print('replay verdict:', 'property violated' if bad else 'property holds on this input')
    return 1 if bad else 0
