"""C14 -- lifecycle family; see harness/props/_life.py (co-simulation of coq/theories/Life/Model.v
against the real Nextline + scenario families + the C14 oracle of harness/life_oracles.py).

In addition the composer part of the model is tied to the source by translation: translate/arg_composer.py
regenerates Gen/ArgComposer.v (RunArgComposer.init/start/reset/compose_run_arg, RunNoCounter, the option records
and their defaults, the option records built by Nextline(...)/Nextline.reset(...), what the registrars publish)
on every run, and Life/ArgTie.v proves the model's functions equal to the transcribed ones for every state and
every option record (theorems C14_tie_* of Props/C14.v)."""
from . import _life

PROP_FILES = ['Props/C14.v']
TRANSLATORS = ['arg_composer']      # Gen/ArgComposer.v, obligations in Life/ArgTie.v
TRUSTED_BASE = _life.TRUSTED_BASE + [
    'translate/arg_composer.py (ast -> Gallina transcription, fail-closed): its rendering of Python expressions '
    '(is None / is not None with narrowing, value semantics of or/and, conditional expressions, walrus, ==), of `if` statements '
    '(continuations), of an awaited hook call (suspension with a continuation) and of itertools.count / NewType; a statement is '
    'an opaque id (its truth value is refused), isinstance(statement, str) is taken to be true (the model\'s statements are scripts)',
    'arg_composer tie, not covered: a hook that raises / a cancellation at the nested `await on_change_script` has no label in '
    'Life/Model.v (C14_tie_reset_interrupted_at_hook states what the transcribed code leaves behind; the methods contain no try/with, '
    'the translator refuses them); the option records are followed from the arguments of Nextline(...)/Nextline.reset(...) to the call '
    'of Imp(...)/Imp.reset(...) only -- Imp, fsm/machine.py, fsm/callback.py passing them on to the `init`/`reset` hooks is not part of '
    'this translator; gen_initialize_run (order of the built-in plugins, storing run_arg) is hand-written glue',
]
ASSUMPTIONS = _life.ASSUMPTIONS
correspond, search, replay = _life.make('C14')
