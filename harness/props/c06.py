"""C06 -- each thread and each asyncio task is debugged as its own independent trace.

Model: coq/theories/Ids/Model.v (+ the per-trace queues of Prompt/Model.v for
independence); theorems: Props/C06.v.
Tie: the REAL `nextline.spawned.main` runs generated programs that start up to N threads
and M asyncio tasks (nested and sequential).  Every unit (thread function / coroutine)
calls the probe `P(tag)` which prints the tag with the NAME of the executing thread and
task (ground truth, independent of nextline).  From the real event stream a label
sequence (Filtered / Emit / End over ground-truth actors) is built and Coq (vm_compute)
compares the model's OnStartTrace numbers (trace, thread, task) and the trace number on
every probe line and prompt with the implementation's.
Independence: the responder withholds the answer of a random subset of traces and
measures that the other traces keep being prompted, answered and closed meanwhile.
Oracle: the property text on the real run only.
"""
from __future__ import annotations

import json
import os
import random
import re
import threading
import time
from pathlib import Path

from .. import common as C
from ..common import Corr, Violation, clist, copt, cz

TRANSLATORS = ['ids_funs']

TRUSTED_BASE = [
    'translator translate/ids_funs.py (fail-closed ast translation of ThreadTaskIdComposer, TaskAndThreadKeeper, '
    'TaskOrThreadToTraceMapper, Repeater.on_start_trace/on_end_trace, current_task_or_thread and the counter constructors '
    'into the syntax of Ids/Syntax.v -> Gen/IdsFuns.v) and the semantics given to that syntax by Ids/Interp.v '
    '(weak containers as finite maps, counters as heap objects, hook calls dispatched through the regenerated @hookimpl table, '
    'thread switches between the two counter calls of a trace start only); tied to Ids/Model.v by Ids/Tie.v (C06_tie_*)',
    'USE of the trace number (C06_tie_dispatch*): LocalTraceFunc.init/local_trace_func, PdbInstanceFactory.init/create_local_trace_func '
    'and the bodies of the two closures Factory(hook)._factory are translated and interpreted; PINNED by the translator (not '
    'interpreted): the shape of the two Factory functions around _factory (set-up assignments from TraceCallNoCounter / CmdloopHook / '
    'PromptFunc, one nested _factory, return _factory), that WithContext(trace, ..) starts from `next_trace = trace` and calls '
    '`next_trace(frame, event, arg)`, that each id hook (filtered, current_thread_no, current_task_no, current_trace_no, '
    'on_start/end_task_or_thread, local_trace_func, create_local_trace_func) has exactly one @hookimpl under spawned/plugin/plugins '
    'and its class is registered once; NOT looked into: CustomizedPdb, StdInOut (opaque objects with identity), the nested _context, '
    'CmdloopHook / PromptFunc (shared by all Pdb instances by design), Repeater\'s other stamping methods (they read current_trace_no(); '
    'covered by the run-time oracle only), pluggy\'s call order / firstresult',
    'correspondence harness harness/props/c06.py (program generator, probe P, event stream -> label sequence)',
    'harness/child.py + child_worker.py (real nextline.spawned.main in-process with queue.Queue)',
    'ground truth = threading.current_thread().name / asyncio.current_task().get_name() printed by the probe (unique per object in CPython)',
    'modelled, not verified: WeakSet/WeakKeyDictionary keep an entry as long as the thread/task object is alive; '
    'object identities are not re-used while the old object is alive; itertools.count is atomic',
]
ASSUMPTIONS = [
    'text attribution (prompt_text shows the own stop only, banners, output of debugger commands) is checked by the oracle on '
    'every prompt; the theorem C06_prompt_text_is_own is true by construction of Ids/Text.v (one buffer per trace); stops in '
    'library frames of the same trace are printed without a prompt and precede the next prompt text -- only script-file '
    'locations are used to tell another trace\'s text',
    'a run that dies of the ThreadDoneCallback race (RuntimeError: Set changed size during iteration, property C18) is not '
    'counted for or against this property (reported as runs_lost_to_the_C18_done_callback_race)',
    'partial (liveness half): "a prompt left unanswered never prevents other threads from running" is proved in the model '
    '(no shared blocking resource: per-trace unbounded queues, C06_independent) and MEASURED on the real code under the '
    'GIL / OS scheduler for the generated programs and switch intervals 1e-6..5e-3 s; it is not proved for CPython\'s scheduler',
    'a stall is reported when a prompt of another trace whose answer was sent stays open for more than 1.5 s while a victim is withheld',
    'the actor that starts trace N is identified by the line of the first trace call of trace N (each unit is a distinct function)',
]


# ---------------------------------------------------------------- probe (runs inside the traced program)

def P(tag):
    """Prints '@tag|thread name|task name' -- the ground truth of who executes."""
    import asyncio
    try:
        k = asyncio.current_task()
    except RuntimeError:
        k = None
    import sys
    # ONE write call per line: lines of concurrently printing threads cannot interleave in the real stdout
    sys.stdout.write('@%s|%s|%s\n' % (tag, threading.current_thread().name, k.get_name() if k is not None else '-'))


def _who():
    import asyncio
    try:
        k = asyncio.current_task()
    except RuntimeError:
        k = None
    return threading.current_thread().name, (k.get_name() if k is not None else '-')


def PA(tag):
    """First half of a probe line written in TWO pieces ('%tag|thread name|' now, 'task name\\n' by PB): between the two
    another task of the same thread (or another thread) runs and writes.  The line in progress belongs to the trace that
    started it; what the others write meanwhile belongs to them (seeds C06-5 / C13-6)."""
    import sys
    sys.stdout.write('%%%s|%s|' % (tag, _who()[0]))


def PB(tag):
    import sys
    sys.stdout.write('%s\n' % _who()[1])


# ---------------------------------------------------------------- responder with withholding (runs in the worker)

_uid = [0]


def _command(pol, t):
    """next / step, or (at most twice per trace) a debugger command that prints a unique marker."""
    n = pol.__dict__.setdefault('_echoes', {})
    if pol.rng.random() < 0.15 and n.get(t, 0) < 2:
        n[t] = n.get(t, 0) + 1
        _uid[0] += 1
        return f"p 'ZZ{_uid[0]}zz'"
    return pol.rng.choice(getattr(pol, 'cmds', ['next', 'step']))


class BarrierPolicy:
    """Puts several threads into their Pdb prompt at the same time: the first `rounds` stops of the traces 2..n+1 are
    gated at the put of OnStartCmdloop (Pdb has printed where it stopped, the prompt is not yet written): all wait for
    each other, then they proceed to the prompt one after the other in a chosen order.  Every prompt is answered."""

    def __init__(self, args):
        b = args['barrier']
        self.rng = random.Random(args.get('seed', 0))
        self.cmds = ['next', 'step']
        self.n, self.rounds = b['n'], b.get('rounds', 3)
        traces = list(range(2, 2 + self.n))
        self.order = {'asc': traces, 'desc': traces[::-1]}.get(b['order']) or self.rng.sample(traces, len(traces))
        self.barriers = [threading.Barrier(self.n) for _ in range(self.rounds)]
        self.prompted = {(r, t): threading.Event() for r in range(self.rounds) for t in traces}
        self.round_of = {t: 0 for t in traces}        # cmdloops seen
        self.pround = {t: 0 for t in traces}          # prompts seen
        self.together = 0
        self.lock = threading.Lock()
        import nextline.spawned as sp
        self.q = sp._queue_out
        self.orig = self.q.put
        self.q.put = self._gated_put            # instance attribute: the in-process child's queue_out only

    def _gated_put(self, item, *a, **k):
        self.orig(item, *a, **k)
        ty, t = type(item).__name__, getattr(item, 'trace_no', None)
        if t not in self.round_of:
            return
        if ty == 'OnStartCmdloop':
            r = self.round_of[t]
            self.round_of[t] = r + 1
            if r >= self.rounds:
                return
            try:
                self.barriers[r].wait(timeout=0.7)
                with self.lock:
                    self.together += 1
            except threading.BrokenBarrierError:
                return
            k_ = self.order.index(t)
            if k_ > 0:
                self.prompted[(r, self.order[k_ - 1])].wait(timeout=0.7)
        elif ty == 'OnStartPrompt':
            # the first prompt of this stop (a printing command prompts again at the same stop)
            r = self.round_of[t] - 1
            if 0 <= r < self.rounds:
                self.prompted[(r, t)].set()

    def on_event(self, ev, put):
        if ev['type'] == 'OnStartPrompt':
            put(ev['trace_no'], ev['prompt_no'], _command(self, ev['trace_no']))

    def summary(self):
        try:
            del self.q.put
        except AttributeError:
            pass
        return {'windows': [], 'stalls': [], 'still_held': [], 'barrier': {'order': self.order, 'stops_gated_together': self.together}}


class Policy:
    def __init__(self, args):
        self.rng = random.Random(args.get('seed', 0))
        self.p_victim = args.get('p_victim', 0.4)
        self.cmds = args.get('cmds', ['next', 'next', 'step'])
        self.stall_after = args.get('stall_after', 1.5)
        self.lock = threading.RLock()
        self.put = None
        self.live = set()
        self.victims = set()
        self.held = {}            # t -> dict(p, t0, opened, closed, need)
        self.answered = {}        # p -> (t, time sent)
        self.windows = []         # finished withholding windows
        self.stalls = []
        self.last_event = time.monotonic()
        self.stop = False
        self.pump = threading.Thread(target=self._pump, daemon=True)
        self.pump.start()

    def _send(self, t, p):
        self.answered[p] = (t, time.monotonic())
        self.put(t, p, _command(self, t))

    def on_event(self, ev, put):
        with self.lock:
            self.put = put
            self.last_event = time.monotonic()
            ty = ev['type']
            if ty == 'OnStartTrace':
                t = ev['trace_no']
                self.live.add(t)
                if self.rng.random() < self.p_victim:
                    self.victims.add(t)
            elif ty == 'OnEndTrace':
                self.live.discard(ev['trace_no'])
            elif ty == 'OnStartPrompt':
                t, p = ev['trace_no'], ev['prompt_no']
                for v, h in self.held.items():
                    if v != t:
                        h['opened'] += 1
                if t in self.victims and t not in self.held and self.rng.random() < 0.5:
                    self.held[t] = {'p': p, 't0': time.monotonic(), 'opened': 0, 'closed': 0,
                                    'need': self.rng.randint(2, 8), 'others': sorted(self.live - {t})}
                else:
                    self._send(t, p)
            elif ty == 'OnEndPrompt':
                t, p = ev['trace_no'], ev['prompt_no']
                self.answered.pop(p, None)
                for v, h in self.held.items():
                    if v != t:
                        h['closed'] += 1

    def _pump(self):
        while not self.stop:
            time.sleep(0.002)
            with self.lock:
                if self.put is None or not self.held:
                    continue
                now = time.monotonic()
                quiet = now - self.last_event
                for v in list(self.held):
                    h = self.held[v]
                    pending = [(p, tt, now - ts) for p, (tt, ts) in self.answered.items() if tt != v]
                    if h['closed'] >= h['need'] or (quiet > 0.03 and not pending):
                        pass            # enough progress seen / everybody else is done or waits for the victim
                    elif pending and max(d for _, _, d in pending) > self.stall_after:
                        for p, tt, d in pending:
                            if d > self.stall_after:
                                self.stalls.append({'victim': v, 'victim_prompt': h['p'], 'blocked_trace': tt,
                                                    'blocked_prompt': p, 'waited_s': round(d, 2)})
                    else:
                        continue
                    del self.held[v]
                    self.windows.append({'victim': v, 'prompt': h['p'], 'others_live': h['others'],
                                         'opened_meanwhile': h['opened'], 'closed_meanwhile': h['closed'],
                                         'held_s': round(now - h['t0'], 3)})
                    self._send(v, h['p'])
                    self.last_event = time.monotonic()

    def summary(self):
        self.stop = True
        with self.lock:
            return {'windows': self.windows, 'stalls': self.stalls, 'still_held': sorted(self.held)}


class ScenarioPolicy:
    """Withholds ONE prompt of a chosen unit (the victim) at a chosen kind of trace event ('call' after `step`,
    'return', 'exception', 'line') and requires that every unit that does not wait for the victim (not an ancestor,
    not a descendant) -- already running or started only afterwards -- runs to its end meanwhile."""

    def __init__(self, args):
        sc = args['scenario']
        self.rng = random.Random(args.get('seed', 0))
        self.units = {int(k): v for k, v in sc['units'].items()}        # line -> unit
        self.victim = sc['victim']
        self.kind = sc['kind']
        self.expected = set(sc['expected'])                               # units that must finish while the victim is held
        self.need_started = set(sc.get('need_started', []))              # units only the victim can start: must be running already
        self.stall_after = args.get('stall_after', 1.5)
        self.lock = threading.RLock()
        self.put = None
        self.unit_of_trace = {}
        self.ended_units = set()
        self.held = None            # dict(t, p, t0, event)
        self.done = False
        self.windows, self.stalls = [], []
        self.seen = {'prompts_meanwhile': 0, 'starts_meanwhile': 0}
        self.last_event = time.monotonic()
        self.stop = False
        threading.Thread(target=self._pump, daemon=True).start()

    def _release(self, stalled):
        h = self.held
        self.held, self.done = None, True
        self.windows.append({'victim': h['t'], 'prompt': h['p'], 'event': h['event'], 'stalled': stalled,
                             'opened_meanwhile': self.seen['prompts_meanwhile'], 'closed_meanwhile': self.seen['prompts_meanwhile'],
                             'traces_started_meanwhile': self.seen['starts_meanwhile'],
                             'others_live': sorted(self.expected), 'held_s': round(time.monotonic() - h['t0'], 3)})
        self.put(h['t'], h['p'], 'step')

    def on_event(self, ev, put):
        with self.lock:
            self.put = put
            self.last_event = time.monotonic()
            ty = ev['type']
            if ty == 'OnStartTrace' and self.held:
                self.seen['starts_meanwhile'] += 1
            elif ty == 'OnEndTrace':
                u = self.unit_of_trace.get(ev['trace_no'])
                if u:
                    self.ended_units.add(u)
                if self.held and self.expected <= self.ended_units:
                    self._release(False)
            elif ty == 'OnStartPrompt':
                t, p = ev['trace_no'], ev['prompt_no']
                if t not in self.unit_of_trace:
                    u = self.units.get(ev.get('line_no')) or self.units.get((ev.get('line_no') or 0) + 1)
                    self.unit_of_trace[t] = 'M' if t == 1 else u
                u = self.unit_of_trace.get(t)
                if u == self.victim:
                    if not self.done and self.held is None and ev.get('event') == self.kind and not (self.expected <= self.ended_units) \
                            and self.need_started <= set(self.unit_of_trace.values()):
                        self.held = {'t': t, 'p': p, 't0': time.monotonic(), 'event': ev.get('event')}
                    else:
                        put(t, p, 'step')
                else:
                    if self.held:
                        self.seen['prompts_meanwhile'] += 1
                    put(t, p, _command(self, t))

    def _pump(self):
        while not self.stop:
            time.sleep(0.005)
            with self.lock:
                if self.held and time.monotonic() - self.last_event > self.stall_after:
                    h = self.held
                    self.stalls.append({'victim': h['t'], 'victim_prompt': h['p'], 'event': h['event'],
                                        'not_finished': sorted(self.expected - self.ended_units),
                                        'waited_s': round(time.monotonic() - self.last_event, 2)})
                    self._release(True)

    def summary(self):
        self.stop = True
        with self.lock:
            return {'windows': self.windows, 'stalls': self.stalls, 'still_held': [self.held['t']] if self.held else [],
                    'scenario': {'victim': self.victim, 'kind': self.kind}}


def make_policy(args):
    if 'barrier' in args:
        return BarrierPolicy(args)
    return ScenarioPolicy(args) if 'scenario' in args else Policy(args)


# ---------------------------------------------------------------- program generator

class Gen:
    def __init__(self, rng, max_threads, max_tasks):
        self.rng = rng
        self.nthreads = 0
        self.ntasks = 0
        self.max_threads = max_threads
        self.max_tasks = max_tasks
        self.funcs = []         # list of (tag, [lines])
        self.n = 0

    def tag(self, kind):
        self.n += 1
        return f'{kind}{self.n}'

    def coroutine(self, depth):
        """Defines a coroutine function; returns its name."""
        rng = self.rng
        tag = self.tag('c')
        body = [f"P('{tag}')", f'x = {rng.randint(0, 9)}']
        r = rng.random()
        if depth < 2 and r < 0.35 and self.ntasks + 2 <= self.max_tasks:
            self.ntasks += 2
            a, b = self.coroutine(depth + 1), self.coroutine(depth + 1)
            body.append(f'await asyncio.gather({a}(), {b}())')
        elif depth < 2 and r < 0.55 and self.ntasks + 1 <= self.max_tasks:
            self.ntasks += 1
            a = self.coroutine(depth + 1)
            body.append(f'k = asyncio.create_task({a}())')
            body.append('await asyncio.sleep(0)')
            body.append('await k')
        elif depth < 2 and r < 0.7:
            a = self.coroutine(depth + 1)       # awaited directly: runs in the SAME task
            body.append(f'await {a}()')
        else:
            body.append('await asyncio.sleep(0)')
        if rng.random() < 0.5:
            # a line written in two pieces with a suspension in between (another task of this thread may write meanwhile)
            body += [f"PA('{tag}')", 'await asyncio.sleep(0)', f"PB('{tag}')"]
        body.append(f"P('{tag}')")
        self.funcs.append((tag, [f'async def {tag}():'] + ['    ' + b for b in body]))
        return tag

    def thread_func(self, depth):
        rng = self.rng
        tag = self.tag('t')
        body = [f"P('{tag}')", f'y = {rng.randint(0, 9)}']
        split = rng.random() < 0.3
        if split:
            body.append(f"PA('{tag}')")         # the line stays open while this thread starts threads / runs event loops
        body += self.ops(depth + 1)
        if split:
            body.append(f"PB('{tag}')")
        body.append(f"P('{tag}')")
        self.funcs.append((tag, [f'def {tag}():'] + ['    ' + b for b in body]))
        return tag

    def ops(self, depth):
        """Statements (for module level or a thread function) that start threads / run event loops."""
        rng = self.rng
        out = []
        joins = []
        for _ in range(rng.randint(0, 2 if depth else 3)):
            r = rng.random()
            if r < 0.45 and depth < 2 and self.nthreads < self.max_threads:
                self.nthreads += 1
                f = self.thread_func(depth)
                v = f'th_{f}'
                out.append(f'{v} = threading.Thread(target={f})')
                out.append(f'{v}.start()')
                if rng.random() < 0.4:
                    out.append(f'{v}.join()')
                else:
                    joins.append(f'{v}.join()')
            elif r < 0.6 and self.nthreads < self.max_threads and self.ntasks < self.max_tasks:
                # a thread whose own frames are never traced: its first traced frame belongs to a task
                self.nthreads += 1
                self.ntasks += 1
                c = self.coroutine(1)
                v = f'th_{c}'
                out.append(f'{v} = threading.Thread(target=asyncio.run, args=({c}(),))')
                out.append(f'{v}.start()')
                joins.append(f'{v}.join()')
            elif self.ntasks < self.max_tasks:
                self.ntasks += 1
                c = self.coroutine(0)
                out.append(f'asyncio.run({c}())')
            else:
                out.append(f'z = {rng.randint(0, 9)}')
        rng.shuffle(joins)
        return out + joins


def gen_program(rng, max_threads, max_tasks):
    g = Gen(rng, max_threads, max_tasks)
    main = ["P('M')"] + g.ops(0) + ["P('M')"]
    lines = ['import sys, threading, asyncio', 'from harness.props.c06 import P, PA, PB',
             f'sys.setswitchinterval({rng.choice([1e-6, 1e-5, 1e-4, 5e-3])})']
    unit_of_line = {}
    for tag, fl in g.funcs:
        start = len(lines) + 1
        lines += fl
        for ln in range(start + 1, len(lines) + 1):       # body lines only (the def line is also executed by the definer)
            unit_of_line[ln] = tag
    start = len(lines) + 1
    lines += main
    for ln in range(start, len(lines) + 1):
        unit_of_line[ln] = 'M'
    return '\n'.join(lines) + '\n', unit_of_line, g.nthreads, g.ntasks


def gen_scenario_job(rng):
    """Fixed shape, random details: main starts w1 and w3; w1 later starts w2; every unit calls traced helper functions
    (plain, raising).  One unit is the victim: it is stepped with `step` and its first prompt at the chosen kind of event
    ('call' = the `--Call--` stop after `step`, 'return', 'exception', 'line') is withheld."""
    L = ['import sys, threading', 'from harness.props.c06 import P, PA, PB',
         f'sys.setswitchinterval({rng.choice([1e-6, 1e-4, 5e-3])})',
         'def g(n):', '    return n + 1',
         'def boom():', "    raise ValueError('boom')",
         'def f():', "    return 'f'"]
    units = {}

    def unit(tag, body):
        L.append(f'def {tag}():')
        for b in body:
            L.append('    ' + b)
            units[len(L)] = tag

    def calls(n):
        out = []
        for i in range(n):
            r = rng.random()
            out += ['try:', '    boom()', 'except ValueError:', '    pass'] if r < 0.3 else [f'g({i})'] if r < 0.8 else ['f()']
        return out

    unit('w2', ["P('w2')"] + calls(rng.randint(2, 4)) + ["P('w2')"])
    unit('w1', ["P('w1')"] + calls(rng.randint(1, 2)) + ['th2 = threading.Thread(target=w2)', 'th2.start()']
         + calls(rng.randint(1, 3)) + ['th2.join()', "P('w1')"])
    unit('w3', ["P('w3')"] + calls(rng.randint(2, 5)) + ["P('w3')"])
    start = len(L) + 1
    L += ["P('M')", 'th1 = threading.Thread(target=w1)', 'th3 = threading.Thread(target=w3)', 'th1.start()', 'th3.start()']
    L += calls(rng.randint(1, 3)) + ['th1.join()', 'th3.join()', "P('M')"]
    for ln in range(start, len(L) + 1):
        units[ln] = 'M'
    # try/except bodies of the main part are module-level lines as well (already covered by the range above)
    victim = rng.choice(['M', 'M', 'w3', 'w1', 'w2'])
    expected = {'M': ['w1', 'w2', 'w3'], 'w3': ['w1', 'w2'], 'w1': ['w3'], 'w2': ['w3']}[victim]
    kind = rng.choice(['call', 'call', 'call', 'return', 'exception', 'line'])
    args = {'seed': rng.randrange(1 << 30),
            'scenario': {'units': {str(k): v for k, v in units.items()}, 'victim': victim, 'kind': kind, 'expected': expected,
                         'need_started': ['w1', 'w3'] if victim == 'M' else []}}
    return {'src': '\n'.join(L) + '\n', 'form': 'str', 'trace_threads': True, 'trace_modules': False, 'timeout': 20,
            'units': {str(k): v for k, v in units.items()}, 'nthreads': 3, 'ntasks': 0,
            'policy': {'kind': 'custom', 'module': 'harness.props.c06', 'func': 'make_policy', 'args': args}}


def gen_barrier_job(rng):
    """n = 2 or 3 threads that stop at the same time, several times (see BarrierPolicy)."""
    n = rng.choice([2, 2, 3])
    L = ['import sys, threading', 'from harness.props.c06 import P, PA, PB',
         f'sys.setswitchinterval({rng.choice([1e-6, 1e-6, 1e-4, 5e-3])})', 'def g(n):', '    return n + 1']
    units = {}
    for i in range(n):
        L.append(f'def w{i}():')
        body = [f"P('w{i}')"] + [rng.choice([f'a{j} = {j}', f'g({j})']) for j in range(rng.randint(3, 5))] + [f"P('w{i}')"]
        for b in body:
            L.append('    ' + b)
            units[len(L)] = f'w{i}'
    start = len(L) + 1
    L += ["P('M')", 'ths = [threading.Thread(target=f) for f in (' + ', '.join(f'w{i}' for i in range(n)) + ',)]',
          'for t in ths: t.start()', 'for t in ths: t.join()', "P('M')"]
    for ln in range(start, len(L) + 1):
        units[ln] = 'M'
    args = {'seed': rng.randrange(1 << 30), 'barrier': {'n': n, 'rounds': 3, 'order': rng.choice(['asc', 'desc', 'shuffle'])}}
    return {'src': '\n'.join(L) + '\n', 'form': 'str', 'trace_threads': True, 'trace_modules': False, 'timeout': 20,
            'units': {str(k): v for k, v in units.items()}, 'nthreads': n, 'ntasks': 0,
            'policy': {'kind': 'custom', 'module': 'harness.props.c06', 'func': 'make_policy', 'args': args}}


def gen_allstep_job(rng, max_threads, max_tasks):
    """a program with at least one asyncio task (if tasks are allowed), every prompt answered `step`, nothing withheld:
    the oracle clause 'every unit that executes script lines is prompted' applies in full"""
    job = gen_job(rng, max_threads, max_tasks)
    for _ in range(30):
        if job['ntasks'] >= 1 or max_tasks == 0:
            break
        job = gen_job(rng, max_threads, max_tasks)
    job['policy']['args']['cmds'] = ['step']
    job['policy']['args']['p_victim'] = 0.0
    return job


def gen_job(rng, max_threads, max_tasks):
    src, units, nth, ntk = gen_program(rng, max_threads, max_tasks)
    args = {'seed': rng.randrange(1 << 30), 'p_victim': rng.choice([0.0, 0.3, 0.6]),
            'cmds': rng.choice([['next'], ['next', 'next', 'step'], ['step']])}
    return {'src': src, 'form': 'str', 'trace_threads': True, 'trace_modules': False, 'timeout': 20,
            'units': {str(k): v for k, v in units.items()}, 'nthreads': nth, 'ntasks': ntk,
            'policy': {'kind': 'custom', 'module': 'harness.props.c06', 'func': 'make_policy', 'args': args}}


# ---------------------------------------------------------------- ground truth, labels, oracle

PROBE_RE = re.compile(r'^@([A-Za-z0-9]+)\|([^|]+)\|(.+)$')
SPLIT_RE = re.compile(r'^%([A-Za-z0-9]+)\|([^|]+)\|([^|%@]+)$')          # a line written in two pieces (PA, PB)
# in the REAL stdout the pieces of different actors interleave: whole-line probes are found wherever they start
REAL_PROBE_RE = re.compile(r'@([A-Za-z0-9]+)\|([^|\n%@]+)\|([^|\n%@]+)\n')
REAL_SPLIT_RE = re.compile(r'%([A-Za-z0-9]+)\|')


def probe_match(text):
    """a REPORTED line -> (tag, (thread name, task name), split?) or None"""
    t = text.rstrip('\n')
    m = PROBE_RE.match(t)
    if m and '%' not in t and t.count('@') == 1:
        return m.group(1), (m.group(2), m.group(3)), False
    m = SPLIT_RE.match(t)
    if m:
        return m.group(1), (m.group(2), m.group(3)), True
    return None


def truth_of(res):
    """tag -> (thread name, task name or '-') from the program's REAL stdout."""
    tr = {}
    clash = []
    for m in REAL_PROBE_RE.finditer(res.get('stdout') or ''):
        tag, who = m.group(1), (m.group(2), m.group(3))
        if tag in tr and tr[tag] != who:
            clash.append(tag)
        tr[tag] = who
    return tr, clash


class Names:
    def __init__(self):
        self.th, self.tk = {}, {}

    def actor(self, who):
        th = self.th.setdefault(who[0], len(self.th) + 1)
        if who[1] == '-':
            return (th, None)
        return (th, self.tk.setdefault(who[1], len(self.tk) + 1))


def build_case(job, res):
    """(labels, expected outs, problems).  Actors are ground-truth names."""
    units = {int(k): v for k, v in job['units'].items()}
    truth, clash = truth_of(res)
    names = Names()
    events = res.get('events', [])
    first_call_line = {}
    for e in events:
        if e['type'] == 'OnStartTraceCall' and e['trace_no'] not in first_call_line:
            first_call_line[e['trace_no']] = e.get('line_no')
    problems = []
    actor_of_trace = {}
    starts = []           # (trace_no, thread_no, task_no, actor)
    rest_l, rest_o = [], []
    payload = 0
    for e in events:
        ty = e['type']
        if ty == 'OnStartTrace':
            n = e['trace_no']
            ln = first_call_line.get(n)
            tag = units.get(ln) if ln is not None else None
            # the def line of a unit is where its first 'call' event is reported
            if tag is None and ln is not None and (ln + 1) in units and units[ln + 1] != 'M':
                tag = units[ln + 1]
            if ln == 0:
                tag = 'M'
            if tag is None or tag not in truth:
                problems.append(f'cannot identify the actor of trace {n} (first trace call at line {ln})')
                continue
            a = names.actor(truth[tag])
            actor_of_trace[n] = a
            starts.append((n, e['thread_no'], e['task_no'], a))
        elif ty == 'OnEndTrace':
            a = actor_of_trace.get(e['trace_no'])
            if a is not None:
                rest_l.append(('End', a)); rest_o.append(('OEnd', e['trace_no']))
        elif ty == 'OnWriteStdout':
            m = probe_match(e.get('text', ''))
            if m:
                payload += 1
                a = names.actor(m[1])
                rest_l.append(('Emit', a, payload)); rest_o.append(('OEv', e['trace_no'], payload))
        elif ty == 'OnStartPrompt':
            tag = units.get(e.get('line_no'))
            if tag is not None and tag in truth and e.get('file_name') == '<string>':
                payload += 1
                a = names.actor(truth[tag])
                rest_l.append(('Emit', a, payload)); rest_o.append(('OEv', e['trace_no'], payload))
    # The start of a trace is two counter calls (thread/task numbers, then the trace number); events of different
    # threads reach the queue in any order.  Linearisation consistent with the counters: `Mapped` in trace-number
    # order; `Filtered` right before its `Mapped`, except that the first `Filtered` of a thread is preceded by the
    # first `Filtered` of every thread with a smaller thread number.  The model's state changes only at these labels,
    # so the remaining labels (Emit / End, each after the start of its own actor) follow in stream order.
    starts.sort()
    first_of_thread = {}
    for st in starts:
        first_of_thread.setdefault(st[1], st)
    labels, outs, done_f = [], [], set()
    for st in starts:
        if first_of_thread[st[1]] is st:
            for tn in sorted(first_of_thread):
                y = first_of_thread[tn]
                if tn < st[1] and y[0] not in done_f:
                    done_f.add(y[0]); labels.append(('Filtered', y[3])); outs.append(('OComposed',))
        if st[0] not in done_f:
            done_f.add(st[0]); labels.append(('Filtered', st[3])); outs.append(('OComposed',))
        labels.append(('Mapped', st[3])); outs.append(('OStart', st[0], st[1], st[2]))
    return labels + rest_l, outs + rest_o, problems


LOC_RE = re.compile(r'^> (.+)\((\d+)\)([^()\s]+)\(\)', re.M)
ECHO_RE = re.compile(r"ZZ(\d+)zz")


def text_oracle(res):
    """Attribution of the debugger's own text.  The prompt text of a prompt of trace T shows the stop of T's own frame
    (`> file(line)func()` with the file and line of the same event) and no other stop, it ends with '(Pdb) ', carries the
    --Call-- / --Return-- banner exactly when the event is a call / return, and what a debugger command prints (the
    responder sends `p 'ZZ<k>zz'`) appears in the next prompt text of the trace that executed it and nowhere else."""
    bad = []
    events = res.get('events', [])
    echo_owner = {}        # marker -> (trace, prompt) it was addressed to
    for t, p, cmd in res.get('sent', []):
        m = ECHO_RE.search(cmd or '')
        if m:
            echo_owner[m.group(0)] = (t, p)
    closed_by = {}         # prompt -> command
    fresh = {}             # trace -> True if its next prompt starts a new interaction (previous command resumed)
    expect_echo = {}       # trace -> marker printed by the command just executed
    for e in events:
        ty = e['type']
        if ty == 'OnEndPrompt':
            cmd = e['command'] or ''
            closed_by[e['prompt_no']] = cmd
            m = ECHO_RE.search(cmd)
            fresh[e['trace_no']] = m is None
            expect_echo[e['trace_no']] = m.group(0) if m else None
        elif ty == 'OnStartPrompt':
            t, txt = e['trace_no'], e.get('prompt_text') or ''
            where = f'prompt {e["prompt_no"]} of trace {t} ({e.get("event")} at {e.get("file_name")}:{e.get("line_no")})'
            if not txt.endswith('(Pdb) '):
                bad.append(('prompt-text-truncated', f'{where}: prompt text {txt!r} does not end with the prompt'))
            locs = [(m.group(1), int(m.group(2))) for m in LOC_RE.finditer(txt)]
            own = (e.get('file_name'), e.get('line_no'))
            # Stops in library frames of the SAME trace are printed by its Pdb without a prompt and pile up in front of the
            # next prompt text; a stop in the script itself is always prompted, so a script location other than the own
            # stop can only have been written by another trace
            foreign = [l for l in locs if l != own and l[0] == own[0]]
            if foreign:
                bad.append(('prompt-text-of-other-trace', f'{where}: prompt text {txt!r} shows the stop {foreign[0]}, not the stop of this trace'))
            if fresh.get(t, True):
                if own not in locs:
                    bad.append(('prompt-text-lacks-own-location', f'{where}: prompt text {txt!r} does not show the stop of its own frame'))
                elif locs.count(own) > 1:
                    bad.append(('prompt-text-duplicated', f'{where}: prompt text {txt!r} shows its stop more than once'))
                lines = txt.split('\n')
                at = max([i for i, l in enumerate(lines) if (m := LOC_RE.match(l)) and (m.group(1), int(m.group(2))) == own] or [0])
                prev = lines[at - 1] if at > 0 else ''
                for banner, kind in (('--Call--', 'call'), ('--Return--', 'return')):
                    if (prev == banner) != (e.get('event') == kind) and own in locs:
                        bad.append(('banner-misattributed', f'{where}: in the prompt text {txt!r} the own stop is '
                                    f'{"preceded" if prev == banner else "not preceded"} by the banner {banner}'))
            want = expect_echo.pop(t, None)
            for mk in ECHO_RE.finditer(txt):
                if mk.group(0) != want:
                    bad.append(('command-output-of-other-trace', f'{where}: prompt text {txt!r} carries the output {mk.group(0)} of a command '
                                f'addressed to (trace, prompt) {echo_owner.get(mk.group(0))}'))
            if want is not None and want not in txt:
                bad.append(('command-output-lost', f'{where}: the output {want} of the command this trace just executed is not in its prompt text {txt!r}'))
            fresh[t] = True
    return bad


def oracle(job, res):
    """The property text on the real run.  Returns [(signature, what)]."""
    bad = text_oracle(res)
    if res.get('timeout') or res.get('error'):
        bad.append(('run-stuck', f'the run did not complete: {str(res.get("error"))[:200]}'))
    units = {int(k): v for k, v in job['units'].items()}
    truth, clash = truth_of(res)
    events = res.get('events', [])
    starts = {}
    for e in events:
        if e['type'] == 'OnStartTrace':
            if e['trace_no'] in starts:
                bad.append(('trace-no-reused', f'trace number {e["trace_no"]} was given to two traces'))
            starts[e['trace_no']] = (e['thread_no'], e['task_no'])
    # attribution of output lines: each actor (ground truth) <-> exactly one trace number
    trace_of_actor, actor_of_trace = {}, {}
    seen_lines, seen_split = [], []
    for e in events:
        if e['type'] != 'OnWriteStdout':
            continue
        m = probe_match(e.get('text', ''))
        if not m:
            # the generated programs write nothing but probe lines: a reported line that is none was put together
            # from pieces written by different actors
            bad.append(('output-line-garbled', f'the reported line {e.get("text")!r} (trace {e["trace_no"]}) is not a line any thread or task wrote'))
            continue
        (seen_split if m[2] else seen_lines).append(m[0] if m[2] else e['text'].rstrip('\n'))
        who, n = m[1], e['trace_no']
        if trace_of_actor.setdefault(who, n) != n:
            bad.append(('actor-split', f'output lines of {who} were attributed to traces {trace_of_actor[who]} and {n}'))
        if actor_of_trace.setdefault(n, who) != who:
            bad.append(('trace-shared', f'trace {n} carries output of {actor_of_trace[n]} and of {who}'))
        if n not in starts:
            bad.append(('event-of-unstarted-trace', f'output line {e["text"]!r} carries trace number {n} that never started'))
    real_lines = [m.group(0).rstrip('\n') for m in REAL_PROBE_RE.finditer(res.get('stdout') or '')]
    if sorted(real_lines) != sorted(seen_lines) and not (res.get('timeout') or res.get('error')):
        bad.append(('output-not-attributed', f'{len(real_lines)} probe lines were printed, {len(seen_lines)} were reported as events'))
    real_split = REAL_SPLIT_RE.findall(res.get('stdout') or '')
    if sorted(real_split) != sorted(seen_split) and not (res.get('timeout') or res.get('error')):
        bad.append(('output-not-attributed', f'two-piece lines were started by {sorted(real_split)}, reported whole for {sorted(seen_split)}'))
    # prompts are attributed to the trace of the unit that executes the line
    for e in events:
        if e['type'] == 'OnStartPrompt' and e.get('file_name') == '<string>':
            tag = units.get(e.get('line_no'))
            if tag in truth and truth[tag] in trace_of_actor and trace_of_actor[truth[tag]] != e['trace_no']:
                bad.append(('prompt-misattributed', f'the prompt at line {e["line_no"]} (unit {tag}, executed by {truth[tag]}) '
                            f'carries trace {e["trace_no"]}; that actor is trace {trace_of_actor[truth[tag]]}'))
    # every thread / task that executes script lines while every prompt is answered `step` is prompted itself
    # (a unit that shares another unit's debugger is stepped over silently: its lines run, no prompt shows them)
    pol = (job.get('policy') or {}).get('args') or {}
    if pol.get('cmds') == ['step'] and 'scenario' not in pol and 'barrier' not in pol and not (res.get('timeout') or res.get('error')):
        prompted = {e.get('line_no') for e in events if e['type'] == 'OnStartPrompt' and e.get('file_name') == '<string>'}
        for tag in sorted(truth):
            lines = sorted(ln for ln, t in units.items() if t == tag)
            if lines and not (set(lines) & prompted):
                bad.append(('unit-never-prompted',
                            f'unit {tag} (executed by {truth[tag]}) ran its lines {lines[0]}..{lines[-1]} while every prompt was answered '
                            f'`step`, but no prompt was ever shown at any of them'))
    # (thread number, task number) identifies the actor consistently
    thread_no_of, pair_of = {}, {}
    for who, n in trace_of_actor.items():
        if n not in starts:
            continue
        thn, tkn = starts[n]
        if thread_no_of.setdefault(who[0], thn) != thn:
            bad.append(('thread-no-inconsistent', f'thread {who[0]} has thread numbers {thread_no_of[who[0]]} and {thn}'))
        if (who[1] == '-') != (tkn is None):
            bad.append(('task-no-wrong-kind', f'{who} got task number {tkn}'))
        if pair_of.setdefault((thn, tkn), who) != who:
            bad.append(('pair-not-unique', f'(thread {thn}, task {tkn}) names both {pair_of[(thn, tkn)]} and {who}'))
    inv = {}
    for th, no in thread_no_of.items():
        if inv.setdefault(no, th) != th:
            bad.append(('thread-no-shared', f'thread number {no} was given to {inv[no]} and {th}'))
    # independence
    summ = res.get('policy_summary') or {}
    for s in summ.get('stalls', []):
        if 'not_finished' in s:
            bad.append(('blocked-by-unanswered-prompt',
                        f'while prompt {s["victim_prompt"]} of trace {s["victim"]} (stopped at a {s["event"]!r} event) was left unanswered, '
                        f'the units {s["not_finished"]}, which never wait for that trace, stopped making progress: '
                        f'no event for {s["waited_s"]} s although every prompt of theirs had been answered'))
            continue
        bad.append(('blocked-by-unanswered-prompt',
                    f'while prompt {s["victim_prompt"]} of trace {s["victim"]} was left unanswered, trace {s["blocked_trace"]} did not '
                    f'proceed for {s["waited_s"]} s after its prompt {s["blocked_prompt"]} had been answered'))
    return bad


# ---------------------------------------------------------------- Coq terms

def actor_term(a) -> str:
    return f'({cz(a[0])}, {copt(cz(a[1])) if a[1] is not None else "None"})'


def label_term(l) -> str:
    if l[0] == 'Emit':
        return f'Emit {actor_term(l[1])} {cz(l[2])}'
    return f'{l[0]} {actor_term(l[1])}'


def out_term(o) -> str:
    if o[0] == 'OComposed':
        return 'OComposed'
    if o[0] == 'OStart':
        return f'OStart {cz(o[1])} {cz(o[2])} {copt(cz(o[3])) if o[3] is not None else "None"}'
    if o[0] == 'OEv':
        return f'OEv {copt(cz(o[1])) if o[1] is not None else "None"} {cz(o[2])}'
    return f'OEnd {cz(o[1])}'


HEADER = 'From NL Require Import Ids.Model.\nOpen Scope Z_scope.\n'


def cases_file(cases) -> str:
    rows = [f'({clist(map(label_term, ls))},\n  {clist(map(out_term, os_))})' for ls, os_ in cases]
    return (HEADER + 'Definition cases : list (list label * list out) :=\n ' + clist(rows).replace('); (', ');\n (') + '.\n'
            'Eval vm_compute in bad_from 0%nat cases.\n')


# ---------------------------------------------------------------- entry points

def foreign_crash(res) -> bool:
    """The run died of the race in nextline/utils/done_callback/thread.py (ThreadDoneCallback iterates a set that
    another thread registers into: 'Set changed size during iteration') -- the subject of property C18, not of this one."""
    return 'Set changed size during iteration' in str(res.get('error') or '')


def _run(ctx, jobs) -> Corr:
    from .. import child
    corr = Corr()
    corr.rule = ('each case = one real run of nextline.spawned.main on a generated program (threads, asyncio tasks: gather / create_task / '
                 'direct await / asyncio.run in threads, nested and sequential, varied sys.setswitchinterval) with the withholding responder; '
                 'distinct = distinct (program, responder seed); non-trivial = at least 3 traces of which at least one is a task, '
                 'or at least one withholding window during which other traces closed prompts')
    alt = os.environ.get('VERIF_REPO')
    t0 = time.time()
    results = child.run_jobs(jobs, extra_env={'PYTHONPATH': f'{alt}:{C.VERIF}'} if alt else None)
    ctx.log(f'{len(jobs)} real runs in {time.time() - t0:.1f}s')
    cases, kept = [], []
    seen = set()
    n_windows = n_progress = closed_meanwhile = 0
    hist = {'traces': 0, 'task_traces': 0, 'threads_max': 0, 'probe_lines': 0, 'prompts_compared': 0}
    n_foreign = 0
    for job, res in zip(jobs, results):
        if foreign_crash(res):
            n_foreign += 1
            continue
        payload = {'src': job['src'], 'units': job['units'], 'policy_args': job['policy']['args']}
        for sig, what in oracle(job, res):
            corr.violations.append(Violation(sig, what, {**payload, 'stdout': res.get('stdout'),
                                                         'start_traces': [[e['trace_no'], e['thread_no'], e['task_no']] for e in res.get('events', []) if e['type'] == 'OnStartTrace'],
                                                         'policy_summary': res.get('policy_summary')}))
        if res.get('timeout') or res.get('error'):
            corr.mismatches.append({'kind': 'run-failed', 'error': str(res.get('error'))[:300], **payload})
            continue
        labels, outs, problems = build_case(job, res)
        if problems:
            corr.mismatches.append({'kind': 'harness-cannot-identify-actor', 'problems': problems[:5], **payload})
            continue
        cases.append((labels, outs)); kept.append((job, res))
        starts = [o for o in outs if o[0] == 'OStart']
        hist['traces'] += len(starts)
        hist['task_traces'] += sum(1 for o in starts if o[3] is not None)
        hist['threads_max'] = max(hist['threads_max'], max([o[2] for o in starts] or [0]))
        hist['probe_lines'] += sum(1 for e in res['events'] if e['type'] == 'OnWriteStdout')
        hist['prompts_compared'] += sum(1 for l in labels if l[0] == 'Emit')
        summ = res.get('policy_summary') or {}
        wins = [w for w in summ.get('windows', []) if w['closed_meanwhile'] > 0]
        n_windows += len(summ.get('windows', [])); n_progress += len(wins)
        closed_meanwhile += sum(w['closed_meanwhile'] for w in wins)
        key = json.dumps([job['src'], job['policy']['args']['seed']])
        if key not in seen:
            seen.add(key)
            if (len(starts) >= 3 and any(o[3] is not None for o in starts)) or wins:
                corr.distinct_nontrivial += 1
    corr.evaluations = len(cases)
    corr.extra['runs_lost_to_the_C18_done_callback_race'] = n_foreign
    CH = 100
    files = {f'c06_{i // CH}': cases_file(cases[i:i + CH]) for i in range(0, len(cases), CH)}
    for name, (ok, out) in ctx.coq_eval_many(files).items():
        base = int(name.split('_')[1]) * CH
        bad = C.parse_nat_list(out) if ok else None
        if bad is None:
            corr.mismatches.append({'kind': 'coq-eval-failed', 'file': name, 'log': out[-600:]})
            continue
        for b in bad:
            job, res = kept[base + b]
            labels, outs = cases[base + b]
            corr.mismatches.append({'kind': 'model-vs-impl', 'src': job['src'], 'labels': [list(map(str, l)) for l in labels],
                                    'impl': [list(map(str, o)) for o in outs]})
    if kept:
        job, res = kept[len(kept) // 2]
        labels, outs = cases[len(kept) // 2]
        corr.samples.append({'src': job['src'], 'labels': [str(l) for l in labels[:25]], 'impl': [str(o) for o in outs[:25]],
                             'windows': (res.get('policy_summary') or {}).get('windows', [])[:5]})
    corr.extra.update(hist)
    corr.extra['withholding_windows'] = n_windows
    sc = {}
    for job, res in kept:
        for w in (res.get('policy_summary') or {}).get('windows', []):
            if 'event' in w:
                k = f"{w['event']}:{'stalled' if w['stalled'] else 'others-finished'}"
                sc[k] = sc.get(k, 0) + 1
    corr.extra['scenario_windows_by_event_of_the_withheld_prompt'] = sc
    corr.extra['stops_gated_together_at_OnStartCmdloop'] = sum(((r.get('policy_summary') or {}).get('barrier') or {}).get('stops_gated_together', 0) for _, r in kept)
    corr.extra['prompt_texts_checked'] = sum(1 for _, r in kept for e in r['events'] if e['type'] == 'OnStartPrompt')
    corr.extra['printing_commands_checked'] = sum(1 for _, r in kept for c in r.get('sent', []) if 'ZZ' in str(c[2]))
    corr.extra['windows_with_progress_of_other_traces'] = n_progress
    corr.extra['prompts_of_other_traces_closed_while_a_prompt_was_withheld'] = closed_meanwhile
    return corr


def correspond(ctx) -> Corr:
    rng = ctx.rng
    n, nth, ntk = (90, 4, 6) if ctx.tier == 'quick' else (3000, 6, 10)
    nsc = 30 if ctx.tier == 'quick' else 600
    nba = 16 if ctx.tier == 'quick' else 300
    nas = 14 if ctx.tier == 'quick' else 300
    jobs = load_corpus() + [gen_barrier_job(rng) for _ in range(nba)] + [gen_scenario_job(rng) for _ in range(nsc)] \
        + [gen_allstep_job(rng, nth, ntk) for _ in range(nas)] + [gen_job(rng, nth, ntk) for _ in range(n)]
    return _run(ctx, jobs)


def search(ctx, broken) -> list:
    jobs = [gen_allstep_job(ctx.rng, 6, 10) for _ in range(60)] + [gen_job(ctx.rng, 6, 10) for _ in range(400)]
    return _run(ctx, jobs).violations


def _job_of(j):
    return {'src': j['src'], 'form': 'str', 'trace_threads': True, 'trace_modules': False, 'timeout': 20, 'units': j['units'],
            'policy': {'kind': 'custom', 'module': 'harness.props.c06', 'func': 'make_policy', 'args': j['policy_args']}}


def load_corpus():
    d = C.CORPUS / 'C06'
    return [_job_of(json.loads(p.read_text())) for p in sorted(d.glob('*.json'))] if d.exists() else []


def replay(ctx, path: Path) -> int:
    from .. import child
    j = json.loads(path.read_text())
    jobs = [_job_of(j) for _ in range(10)]
    hits = {}
    for job, res in zip(jobs, child.run_jobs(jobs)):
        for sig, what in oracle(job, res):
            hits.setdefault(sig, what)
    print(j['src'])
    for sig, what in hits.items():
        print('FAILS:', sig, what)
    print('replay verdict:', 'property violated' if hits else 'property holds on this input (10 runs)')
    return 1 if hits else 0
