"""C16 -- lifecycle family; see harness/props/_life.py (co-simulation of coq/theories/Life/Model.v
against the real Nextline + scenario families + the C16 oracle of harness/life_oracles.py).

Second tie (checked on every run): translate/continuous_skeleton.py regenerates Gen/ContinuousSkel.v
(every method of Continue / Continuous and the Nextline call sites as statement programs) from
nextline/continuous.py + nextline/main.py; coq/theories/Life/ContTie.v interprets the programs and
proves, for all environments, that they compute the Continuous functions of Life/Model.v
(`C16_tie_*` in Props/C16.v)."""
from . import _life

PROP_FILES = ['Props/C16.v']
TRANSLATORS = ['continuous_skeleton']     # Gen/ContinuousSkel.v is regenerated from continuous.py + main.py on every run
TRUSTED_BASE = _life.TRUSTED_BASE + [
    'translate/continuous_skeleton.py (ast -> the statement AST of Life/ContSyntax.v; fail-closed) and the semantics '
    'Life/ContTie.v gives to that AST: Python try/except/finally propagation, asynccontextmanager (body at the yield, '
    'exception thrown in), AsyncExitStack with try/finally-shaped context managers, PubSubItem.publish raising once '
    'closed; a Continue object is identified, as in the model, by (requesting task, _run_started); the ContextVar is '
    'modelled as a per-context variable inherited by tasks created at an await',
]
ASSUMPTIONS = _life.ASSUMPTIONS
correspond, search, replay = _life.make('C16')
