"""C16 -- lifecycle family; see harness/props/_life.py (co-simulation of coq/theories/Life/Model.v
against the real Nextline + scenario families + the C16 oracle of harness/life_oracles.py).

Second tie (checked on every run): translate/continuous_skeleton.py regenerates Gen/ContinuousSkel.v
(every method of Continue / Continuous and the Nextline call sites as statement programs) from
nextline/continuous.py + nextline/main.py; coq/theories/Life/ContTie.v interprets the programs and
proves, for all environments, that they compute the Continuous functions of Life/Model.v
(`C16_tie_*` in Props/C16.v); coq/theories/Life/ContSys.v: a task-pool system over that interpreter, flag
invariant for all schedules (`C16_tie_sys_*`)."""
from . import _life

PROP_FILES = ['Props/C16.v']
TRANSLATORS = ['continuous_skeleton']     # Gen/ContinuousSkel.v is regenerated from continuous.py + main.py on every run
TRUSTED_BASE = _life.TRUSTED_BASE + [
    'translate/continuous_skeleton.py (ast -> the statement AST of Life/ContSyntax.v; fail-closed) and the semantics '
    'Life/ContTie.v gives to that AST: Python try/except/finally propagation, asynccontextmanager (body at the yield, '
    'exception thrown in), AsyncExitStack with try/finally-shaped context managers, PubSubItem.publish raising once '
    'closed; pluggy unregister raising AssertionError for an absent plugin; a Continue object is identified, as in the '
    'model, by (requesting task, _run_started); the ContextVar is modelled as a per-context variable inherited by tasks '
    'created at an await',
    'C16 tie, not modelled: publish/aclose and calls of translated methods are atomic (no cancellation delivered inside: '
    'PubSubItem.publish never suspends, a fact of utils/pubsub/item.py covered by C08); pluggy register raising for a '
    'duplicate object; ContextVar.reset raising for a foreign token; Life/Model.v has no cancel label, so the '
    'cancellation branch (XBaseOnly) of C16_tie_requested_all_env and of the whole-history system Life/ContSys.v is tied '
    'to no model transition; ContSys.v quantifies over ALL schedules of its steps and does not know which steps the '
    'lifecycle lock / state machine allow (that is Life/Model.v + co-simulation)',
]
ASSUMPTIONS = _life.ASSUMPTIONS
correspond, search, replay = _life.make('C16')
