"""C17 -- waiting on a child process always yields its outcome and reaps it.

Model: coq/theories/Proc/Model.v (interprets the control skeleton of run.py, regenerated
by translate/run_skeleton.py); theorems: Props/C17.v.
Tie, checked on every run: (i) skeleton equality (C17_skeleton_tie fails to build when
run.py / multiprocessing_logging.py change shape); (i') regenerated source with proofs: translate/proc_helpers.py ->
Gen/ProcHelpers.v (MultiprocessingLogging, _listen, _initializer, RunningProcess.*, _call_all, _call, run_in_process,
_run as statement trees), interpreted by Proc/HelperInterp.v; Proc/HelperTie.v proves the C17_tie_* theorems for all
environments, incl. the simulation of the skeleton interpreter of Proc/Model.v; (ii) the REAL matrix: run_in_process under
the spawn context, outcomes x signals x instants x {log collection} x {initializer}, each in a
real child process (harness/proc_runner.py, harness/proc_workers.py); the observation of every
run is compared with the model's prediction inside Coq (cases.v, vm_compute).
Oracle: the property text applied directly to the observations (independent of the model).
"""
from __future__ import annotations

import json
import os
import subprocess
from concurrent.futures import ThreadPoolExecutor
from pathlib import Path

from .. import common as C
from ..common import Corr, Violation, cbool, clist, cnat, copt, cz

TRANSLATORS = ['run_skeleton', 'proc_helpers']

TRUSTED_BASE = [
    'translate/run_skeleton.py (ast pattern matcher, fail-closed) and the interpreter of the skeleton in Proc/Model.v',
    'translate/proc_helpers.py (genuine ast -> Proc/HelperSyntax.v translation of multiprocessing_logging.py and of run.py: '
    'MultiprocessingLogging, _listen, _initializer, RunningProcess.*, _call_all, _call, run_in_process, _run; fail-closed) and the '
    'interpreter Proc/HelperInterp.v (big-step; the listener task and the `_run` task are run when they are awaited; what the '
    'executor, the queue, logging, pickle, os.kill and Process.terminate/kill do is its environment)',
    'harness/proc_runner.py + harness/proc_workers.py (scenario runner; reads process._popen.returncode without modifying anything)',
    'modelled, not verified (oracle of the model, validated by the matrix): concurrent.futures.ProcessPoolExecutor '
    '(the future yields the value / re-raises the worker exception / raises BrokenProcessPool when the process died; '
    'shutdown(wait=True) joins the process), multiprocessing spawn, signal delivery by the OS, asyncio.to_thread',
]
ASSUMPTIONS = [
    'PARTIAL: only `ret = await future` can raise inside run_in_process._run (creating the queue, the executor and the '
    'process succeeds; executor.shutdown in the helper thread does not raise); which answers a worker behaviour allows is the relation Proc.Model.consistent, read from experiments '
    '(CPython 3.12.1: unpicklable return value -> raised=AttributeError/PicklingError; SystemExit -> raised=SystemExit, exit code 0; '
    'SIGINT while the function runs -> raised=KeyboardInterrupt, exit code 0; SIGINT during boot -> neither, exit code 1 or -2)',
    'cancellation of the task that awaits the handle is outside the quantifier of C17 and not modelled',
"'raise' covers a family of classes (WorkerError, ValueError, KeyboardInterrupt raised by the function, asyncio.CancelledError, concurrent.futures.CancelledError, "
    "GeneratorExit, a custom BaseException, StopIteration, StopAsyncIteration): `raised` must be an instance of the class the function raised, with the same args; they all travel "
    "as data in the result of the wrapper `_call` and are one behaviour (Exn) of the model",
    "an exception that cannot be pickled in the child or rebuilt in the parent is the behaviour Unpicklable (the pickling error arrives as "
    "`raised`, exit code 0), like an unpicklable return value",
    "trusted about the family: pickling by reference of the exception classes of harness/proc_workers.py in both processes; "
    "concurrent.futures.process._ExceptionWithTraceback (used by the wrapper `_call` to carry the remote traceback as __cause__)",
]

SIGNUM = {'SIGINT': 2, 'SIGTERM': 15, 'SIGKILL': 9}
HOW_SIG = {'interrupt': 'SIGINT', 'terminate': 'SIGTERM', 'kill': 'SIGKILL'}
PICKLE_TYPES = {'AttributeError', 'PicklingError', 'TypeError'}
SCN_TIMEOUT = 10


# ---------------------------------------------------------------- running scenarios

def _run_chunk(scns: list[dict], repo: str) -> list[dict]:
    out: list[dict] = []
    todo = list(scns)
    while todo:
        env = dict(os.environ)
        env.update(PYTHONPATH=f'{repo}:{C.VERIF}', PYTHONHASHSEED='0', PYTHONDONTWRITEBYTECODE='1')
        budget = sum(float(s.get('timeout', SCN_TIMEOUT)) + 3 for s in todo) + 20
        try:
            p = subprocess.run(['timeout', '-k', '5', str(int(budget)), C.PY, '-u', '-m', 'harness.proc_runner'],
                               input=json.dumps(todo), text=True, stdout=subprocess.PIPE, stderr=subprocess.DEVNULL,
                               env=env, cwd=str(C.VERIF), timeout=budget + 15)
            lines = p.stdout.splitlines()
        except subprocess.TimeoutExpired as e:
            so = e.stdout
            lines = (so.decode(errors='replace') if isinstance(so, bytes) else (so or '')).splitlines()
        got = []
        for l in lines:
            if l.startswith('@@R '):
                try:
                    got.append(json.loads(l[4:]))
                except Exception:
                    pass
        out += got
        if len(got) >= len(todo):
            break
        if not got:
            out.append({'id': todo[0].get('id'), 'runner_dead': True})
            todo = todo[1:]
        else:
            todo = todo[len(got):]
    return out


def run_many(scns: list[dict], par: int = 14, chunk: int = 4, repo: str | None = None) -> list[dict]:
    repo = repo or os.environ.get('VERIF_REPO', str(C.REPO))
    for i, s in enumerate(scns):
        s['id'] = i
        s.setdefault('timeout', SCN_TIMEOUT)
    # interleave so that slow families are spread over the chunks
    nch = max(1, (len(scns) + chunk - 1) // chunk)
    chunks = [scns[i::nch] for i in range(nch)]
    with ThreadPoolExecutor(par) as ex:
        res = list(ex.map(lambda c: _run_chunk(c, repo), chunks))
    by_id = {}
    for r in (x for c in res for x in c):
        by_id.setdefault(r.get('id'), r)
    return [by_id.get(s['id'], {'id': s['id'], 'runner_dead': True}) for s in scns]


# ---------------------------------------------------------------- generators

def S(outcome, n=0, clog=False, init=False, signal=None, dur=0.0, timeout=None, awaiters=None, **spec):
    sp = {'outcome': outcome, 'n': n, 'dur': dur}
    sp.update(spec)
    d = {'spec': sp, 'collect_logging': clog, 'initializer': init, 'signal': signal}
    if awaiters:
        d['awaiters'] = awaiters
    if timeout:
        d['timeout'] = timeout
    return d


def sig(how, when, delay=0.0, signame=None):
    d = {'how': how, 'when': when, 'delay': delay}
    d['sig'] = signame or HOW_SIG.get(how)
    return d


OUTCOMES = ['return', 'raise', 'unpicklable', 'sysexit', 'hardexit']
CFGS = [(False, False), (True, False), (False, True), (True, True)]


def plain_family(rng, reps=1):
    out = []
    for _ in range(reps):
        for o in OUTCOMES:
            for clog, init in CFGS:
                n = rng.choice([0, 1, 3, 7, 42]) if o != 'hardexit' else rng.choice([0, 1, 5, 77])
                out.append(S(o, n, clog, init, dur=rng.choice([0.0, 0.0, 0.02])))
    return out


# exception classes that matter to the handler chain of run_in_process._run (kinds of harness/proc_workers.EXC_KINDS)
EXC_CONFORMING = ['worker', 'value', 'kbint', 'aio_cancelled', 'cf_cancelled', 'genexit', 'custom_base', 'stopiter', 'stopaiter']
# cannot be pickled in the child / cannot be rebuilt in the parent (the wrapper `_call` checks by a pickle round trip in the
# worker): treated exactly like the 'unpicklable' return (the pickling error arrives as `raised`, exit code 0)
EXC_UNPICKLABLE = ['unpicklable_exc', 'unloadable_exc']


def exc_family(rng):
    """the function raises an exception of each class, with/without log collection and initializer (no timing involved)"""
    out = []
    for k in EXC_CONFORMING + EXC_UNPICKLABLE:
        for clog, init in CFGS:
            out.append(S('raise', rng.choice([1, 3, 7]), clog, init, None, exc=k))
    return out


def expected_exc_class(scn: dict) -> str:
    from .. import proc_workers as W
    return W.EXC_KINDS[scn['spec'].get('exc', 'worker')]


def running_family(rng, hows=None):
    out = []
    hows = hows or ['interrupt', 'terminate', 'kill', 'send_signal:SIGINT', 'send_signal:SIGTERM', 'send_signal:SIGKILL']
    for h in hows:
        for clog, init in CFGS:
            if ':' in h:
                how, sn = h.split(':')
                s = sig(how, 'running', 0.0, sn)
            else:
                s = sig(h, 'running', 0.0)
            out.append(S('block', rng.choice([1, 2, 9]), clog, init, s))
    return out


def boot_family(rng, delays, hows=('interrupt', 'terminate', 'kill')):
    out = []
    for d in delays:
        for h in hows:
            clog, init = rng.choice(CFGS)
            out.append(S('block', 4, clog, init, sig(h, 'boot', d)))
    return out


def race_family(rng, deltas, hows=('interrupt', 'terminate', 'kill'), outcomes=('return', 'raise')):
    out = []
    D = 0.06
    for dl in deltas:
        for h in hows:
            o = rng.choice(outcomes)
            clog, init = rng.choice(CFGS)
            out.append(S(o, rng.choice([1, 5]), clog, init, sig(h, 'delay', max(0.0, D + dl)), dur=D))
    return out


def logging_family(rng, n):
    out = []
    for _ in range(n):
        h = rng.choice(['terminate', 'kill', 'interrupt'])
        size = rng.choice([10, 1000, 70000, 200000])
        out.append(S('logloop', 0, True, rng.random() < 0.5, sig(h, 'delay', rng.uniform(0.0, 0.08)), log_size=size))
    for _ in range(max(1, n // 3)):
        out.append(S(rng.choice(['return', 'raise', 'hardexit']), 3, True, False, None, log=rng.choice([1, 20, 200]),
                     log_size=rng.choice([10, 5000])))
    return out


def linger_family(rng, n):
    """the worker process outlives its function by 2 s (a non-daemon thread): the handle must
    complete only after the process has gone"""
    out = []
    for i in range(n):
        clog, init = CFGS[i % 4]
        out.append(S(rng.choice(['return', 'raise']), 6, clog, init, None, linger=2.0))
    return out


def linger_signal_family(rng, n):
    """the function has RETURNED but its process stays (a non-daemon thread, far longer than the scenario lasts); only then
    is terminate()/kill() requested from another task: the request must get through (the event loop is not blocked while
    the handle waits for the process), the handle completes with the function's value and the signal's exit code"""
    out = []
    for i in range(n):
        clog, init = CFGS[i % 4]
        how = ['terminate', 'kill'][i % 2]
        out.append(S('return', 6, clog, init, sig(how, 'delay', 0.4), dur=0.02, linger=45.0, timeout=25))
    return out


def backlog_family(rng, n):
    """the worker logs a burst (far more than a pipe holds) right before it returns NORMALLY, and the parent consumes the
    records slowly: the records still unreceived when the function returns must neither keep the handle from completing nor
    get lost, whatever the exit does to the child's queue feeder thread"""
    out = []
    for i in range(n):
        init = bool(i % 2)
        d = S(['return', 'raise'][i % 2], 3, True, init, None, log=rng.choice([150, 300]), log_size=rng.choice([2000, 4000]), timeout=40)
        d['handler_delay'] = rng.choice([0.01, 0.02])
        out.append(d)
    return out


def storm_family(rng, reps=1):
    """many awaiters of the same handle: a new task awaits it in every loop iteration while the function runs and the
    process exits, one when the process sentinel fires, some right after the first result, one much later"""
    out = []
    for r in range(reps):
        clog, init = CFGS[r % 4] if reps > 1 else (False, False)
        out.append(S('return', 5, clog, init, None, dur=0.01, awaiters='storm'))
        out.append(S('raise', 5, not clog, init, None, dur=0.01, awaiters='storm', exc=rng.choice(['worker', 'aio_cancelled', 'kbint'])))
        out.append(S('block', 5, clog, init, sig(rng.choice(['kill', 'terminate']), 'running', 0.0), awaiters='storm'))
        if reps > 1:
            out.append(S('block', 5, clog, init, sig('interrupt', 'running', 0.0), awaiters='storm'))
            out.append(S('hardexit', 3, clog, init, None, dur=0.01, awaiters='storm'))
    return out


def gen_scenarios(rng, tier: str) -> list[dict]:
    if tier == 'quick':
        scn = plain_family(rng)                                               # 20
        scn += exc_family(rng)                                                # 44
        scn += running_family(rng, ['interrupt', 'terminate', 'kill'])        # 12
        scn += boot_family(rng, [0.0, 0.03, 0.08, 0.12])                      # 12
        scn += race_family(rng, [-0.01, 0.0, 0.004, 0.01])                    # 12
        scn += logging_family(rng, 4)                                         # 5
        scn += linger_family(rng, 2)                                          # 2
        scn += linger_signal_family(rng, 2)                                   # 2
        scn += backlog_family(rng, 2)                                         # 2
        scn += storm_family(rng)                                              # 3: return, raise, killed
    else:
        scn = plain_family(rng, reps=3)                                       # 60
        scn += exc_family(rng) + exc_family(rng)                              # 88
        scn += running_family(rng) + running_family(rng)                      # 48
        scn += boot_family(rng, [i * 0.005 for i in range(0, 44)])            # 132
        scn += race_family(rng, [(-0.02 + i * 0.0015) for i in range(0, 60)]) # 180
        scn += logging_family(rng, 120)                                       # 160
        scn += linger_family(rng, 8)
        scn += linger_signal_family(rng, 8)
        scn += backlog_family(rng, 8)
        scn += storm_family(rng, reps=8)                                      # 40
    return scn


# ---------------------------------------------------------------- classification, Coq terms

def classify(scn: dict, o: dict):
    """-> (behaviour term, signal term or None, label dict)"""
    sp = scn['spec']
    out, n = sp['outcome'], int(sp.get('n', 0))
    exc_beh = 'Unpicklable' if sp.get('exc') in EXC_UNPICKLABLE else f'Exn {cz(n)}'
    beh = {'return': f'Ret {cz(n)}', 'raise': exc_beh, 'unpicklable': 'Unpicklable', 'sysexit': f'SysExit {cz(n)}',
           'hardexit': f'HardExit {cz(n)}', 'block': f'Ret {cz(n)}', 'logloop': f'Ret {cz(n)}'}[out]
    s = scn.get('signal')
    if not s or o.get('sig_call') is None or o.get('signal_not_sent'):
        return beh, None, {'outcome': out, 'signal': None, 'instant': None}
    sk = {'SIGINT': 'SInt', 'SIGTERM': 'STerm', 'SIGKILL': 'SKill'}[s['sig']]
    if not o.get('fn_started'):
        inst = 'Boot'
    elif out in ('block', 'logloop') and o.get('fn_started_at_signal'):
        inst = 'Running'
    else:
        inst = 'Racing'
    return beh, f'({sk}, {inst})', {'outcome': out, 'signal': s['sig'], 'instant': inst}


def exn_kind(name, scn=None, o=None) -> int:
    if scn is not None and o is not None and scn['spec']['outcome'] == 'raise' and not (scn.get('signal') and o.get('sig_call')):
        # the worker's own exception = an instance of the class the function raised
        if expected_exc_class(scn) in (o.get('raised_mro') or []):
            return 1
    if name == 'WorkerError':
        return 1
    if name in PICKLE_TYPES:
        return 2
    if name == 'SystemExit':
        return 3
    if name == 'KeyboardInterrupt':
        return 4
    return 0


def shape_term(o: dict, scn=None) -> str:
    hr, rt = o.get('has_returned'), o.get('raised_type')
    if hr and rt:
        return 'ShBoth'
    if hr:
        return 'ShValue'
    if rt:
        return f'(ShExn {cz(exn_kind(rt, scn, o))})'
    return 'ShNeither'


HANG_CODE = {'executor-shutdown-blocks-loop': 1, 'log-listener-never-ends': 2, 'future-never-completes': 4}


def worker_logs(scn: dict) -> bool:
    sp = scn['spec']
    return bool(sp.get('log')) or sp.get('outcome') == 'logloop'


def awaiters_ok(o: dict) -> bool:
    a = o.get('awaiters')
    if not a:
        return True
    first = [o.get('returned'), o.get('raised_type'), True]
    return a.get('n_raised', 0) == 0 and a.get('times_bad', 0) == 0 and not a.get('storm_error') and \
        all(k == first for k in a.get('outcomes', []))


def obs_term(o: dict, scn=None) -> str:
    start_ok = o.get('start_raised') is None and 'pid' in o
    hang = 0 if not o.get('hang') else HANG_CODE.get(o.get('hang_stage'), 3)
    rn = o.get('returned_n')
    ec = o.get('exitcode')
    return ('(mkObs ' + ' '.join([
        cbool(start_ok),
        cbool(o.get('await_raised') is not None),
        shape_term(o, scn),
        copt(cz(rn) if isinstance(rn, int) else None),
        copt(cz(ec) if isinstance(ec, int) else None),
        cbool(bool(o.get('reaped_before_query')) and o.get('is_alive') is False),
        cbool(bool(o.get('times_present')) and bool(o.get('times_ordered'))),
        cnat(min(len(o.get('tasks_left') or []), 50)),
        cbool(bool(o.get('listener_seen'))),
        cbool(awaiters_ok(o)),
        cz(hang),
    ]) + ')')


def cases_file(rows: list[str], lates: list[tuple[int, int, int]]) -> str:
    late_rows = clist(f'({cz(a)}, {cz(b)}, {cz(c)})' for a, b, c in lates)
    return ('From NL Require Import Proc.Model.\nOpen Scope Z_scope.\n'
            'Definition cases : list case :=\n ' + clist(rows).replace('); (', ');\n (') + '.\n'
            'Eval vm_compute in bad_from 0%nat cases.\n'
            f'Definition lates : list (Z * Z * Z) := {late_rows}.\n'
            'Definition late_model : Z * Z * Z := (mres_code (call (MSendSignal SInt) PReaped), mres_code (call MTerminate PReaped), mres_code (call MKill PReaped)).\n'
            'Definition late_ok (x : Z * Z * Z) : bool := let \'(a, b, c) := x in let \'(a\', b\', c\') := late_model in Z.eqb a a\' && Z.eqb b b\' && Z.eqb c c\'.\n'
            'Eval vm_compute in (length (filter (fun x => negb (late_ok x)) lates)).\n')


# ---------------------------------------------------------------- the property, directly

def oracle(scn: dict, o: dict) -> list[tuple[str, str]]:
    bad = []
    sp = scn['spec']
    out, n = sp['outcome'], int(sp.get('n', 0))
    s = scn.get('signal')
    if o.get('runner_dead'):
        return [('runner-died', 'the interpreter running the scenario died without an observation')]
    if o.get('runner_error'):
        return [('awaiting-escaped', f'an exception escaped the event loop while the handle was awaited: {o["runner_error"][:300]}')]
    if o.get('hang'):
        where = 'run_in_process() never returned a handle' if 'pid' not in o else 'awaiting the handle never completed'
        stage = o.get('hang_stage', 'other')
        sg = scn.get('signal') or {}
        if stage == 'future-never-completes' and scn['spec'].get('outcome') == 'block' and sg.get('how') == 'interrupt' \
                and sg.get('when') == 'boot' and o.get('child_alive_at_hang'):
            # not a failure of the code under test: the worker function of this scenario blocks FOR EVER unless a signal ends
            # it; a SIGINT that lands while the child interpreter is still starting up can be absorbed there (the
            # KeyboardInterrupt is raised inside start-up code), after which the function starts and blocks as designed.
            # The property promises that the request can be issued, not that SIGINT ends a process that ignores it.
            return []
        detail = {'executor-shutdown-blocks-loop': 'the event loop is blocked inside ProcessPoolExecutor.__exit__ (shutdown(wait=True)) while the '
                                                   'worker, still alive, cannot flush its log records because the listener needs the loop',
                  'log-listener-never-ends': 'the worker died while writing a log record; the parent\'s feeder thread waits for the queue\'s write lock '
                                             f'(feeder_waits_for_write_lock={o.get("feeder_waits_for_write_lock")}, reader_inside_partial_record='
                                             f'{o.get("reader_inside_partial_record")}); the _listen task never gets its sentinel',
                  'future-never-completes': 'the `_run` task is still suspended at `ret = await future`: the executor\'s future was never resolved '
                                            'in the event loop',
                  }.get(stage, '')
        if stage == 'log-listener-never-ends':
            # the recorded finding is about a worker that DIES ABRUPTLY (signal, os._exit) while its feeder thread writes; the
            # same symptom after a normal return of the function is a different failure and is reported under its own signature
            abrupt = bool(scn.get('signal')) or scn['spec'].get('outcome') in ('hardexit',)
            stage = stage + (':abrupt-death' if abrupt else ':normal-exit')
            if not abrupt:
                detail = ('the function returned normally but the records it had logged were still unreceived: the listener never gets '
                          f'its sentinel (feeder_waits_for_write_lock={o.get("feeder_waits_for_write_lock")}, reader_inside_partial_record='
                          f'{o.get("reader_inside_partial_record")})')
        return [(f'hang:{stage}', f'{where} within {scn.get("timeout", SCN_TIMEOUT)} s ({detail}); child alive={o.get("child_alive_at_hang")}; '
                                  f'pending tasks={o.get("pending_at_hang")}; main thread at {(o.get("stacks") or {}).get("MainThread", [])[-3:]}')]
    if o.get('start_raised'):
        return [('start-raised', f'run_in_process() raised {o["start_raised"]}')]
    if o.get('await_raised'):
        bad.append(('await-raised', f'awaiting the handle raised {o["await_raised"]}'))
        return bad
    hr, rt = o.get('has_returned'), o.get('raised_type')
    if hr and rt:
        bad.append(('value-and-exception', f'both returned={o.get("returned")} and raised={rt}'))
    sent = bool(s) and o.get('sig_call') is not None and not o.get('signal_not_sent')
    started = bool(o.get('fn_started'))
    natural_ok = False
    if out == 'return':
        natural_ok = bool(hr) and not rt and o.get('returned_n') == n
    elif out == 'raise' and sp.get('exc') in EXC_UNPICKLABLE:
        natural_ok = not (hr and rt)     # as for an unpicklable return value
    elif out == 'raise':
        natural_ok = (not hr) and expected_exc_class(scn) in (o.get('raised_mro') or []) and o.get('raised_args') == [n]
    elif out in ('unpicklable', 'sysexit'):
        natural_ok = not (hr and rt)     # the text does not say which; only "never raises" and not both
    elif out == 'hardexit':
        natural_ok = (not hr) and (not rt)
    if not sent:
        if out == 'raise' and not natural_ok:
            k = sp.get('exc', 'worker')
            want = expected_exc_class(scn)
            if not hr and not rt:
                bad.append((f'exception-lost:{k}', f'the function raised {want}({n}) but the handle yielded neither a value nor an exception '
                                                   f'(exitcode={o.get("exitcode")})'))
            elif rt and want not in (o.get('raised_mro') or []):
                bad.append((f'wrong-exception-class:{k}', f'the function raised {want}({n}) but raised={o.get("raised_qual")}{o.get("raised_args")} '
                                                          f'(cause={o.get("raised_cause")}) is not an instance of that class'))
            else:
                bad.append((f'wrong-outcome:raise:{k}', f'the function raised {want}({n}) but returned={o.get("returned")} raised={o.get("raised")}'))
        elif out in ('return', 'hardexit') and not natural_ok:
            bad.append((f'wrong-outcome:{out}', f'function outcome {out}({n}) but returned={o.get("returned")} raised={o.get("raised")}'))
    else:
        neither = (not hr) and (not rt)
        kbint = (not hr) and rt == 'KeyboardInterrupt' and s['sig'] == 'SIGINT'
        died_by_signal = isinstance(o.get('exitcode'), int) and o['exitcode'] < 0
        if not started or (out in ('block', 'logloop') and o.get('fn_started_at_signal') and s['sig'] != 'SIGINT'):
            # the process died abnormally before the function could produce anything
            if not neither:
                bad.append((f'outcome-from-dead-process:{s["sig"]}', f'{s["sig"]} before/while the function ran, yet returned={o.get("returned")} raised={o.get("raised")}'))
        elif out in ('block', 'logloop'):
            if not (neither or kbint):
                bad.append((f'wrong-outcome-after-signal:{s["sig"]}', f'returned={o.get("returned")} raised={o.get("raised")}'))
        else:
            if not (neither or kbint or natural_ok):
                bad.append((f'wrong-outcome-racing:{out}:{s["sig"]}', f'returned={o.get("returned")} raised={o.get("raised")}'))
        if died_by_signal and hr is False and rt and rt != 'KeyboardInterrupt' and out in ('block', 'logloop'):
            bad.append(('exception-from-killed-process', f'exitcode={o.get("exitcode")} raised={o.get("raised")}'))
        # the request itself, when the worker was verifiably alive
        alive_by_construction = s['when'] == 'boot' or (s['when'] == 'running' and out in ('block', 'logloop'))
        if o.get('sig_call') != 'ok' and alive_by_construction and not o.get('awaited_done_at_signal'):
            bad.append((f'request-raised:{s["how"]}', f'{s["how"]}() raised {o.get("sig_call")} while the worker process was alive'))
    a = o.get('awaiters')
    if a:
        if a.get('n_raised'):
            idx, phase, err = a['raised'][0]
            bad.append(('await-raised:late-awaiter', f'{a["n_raised"]} of {a["n"]} further awaiters of the same handle raised; first: awaiter #{idx} '
                                                     f'(started {phase}) raised {err}; awaiters by phase: {a.get("phases")}'))
        first = [o.get('returned'), o.get('raised_type'), True]
        diff = [k for k in a.get('outcomes', []) if k != first]
        if diff:
            bad.append(('awaiters-disagree', f'the first awaiter got (returned, raised, same process) = {first}, another awaiter got {diff[0]}'))
        if a.get('times_bad'):
            bad.append(('times-unordered:late-awaiter', f'{a["times_bad"]} further awaiter(s) got missing or unordered creation/exit times'))
        if a.get('storm_error'):
            bad.append(('awaiters-never-finish', f'the further awaiters did not all finish: {a["storm_error"]}'))
    if not o.get('times_present'):
        bad.append(('times-missing', 'creation/exit time missing'))
    elif not o.get('times_ordered'):
        bad.append(('times-unordered', f'times not ordered: {o.get("times")}'))
    if o.get('exitcode') is None:
        bad.append(('exitcode-not-set', 'process.exitcode is None after the handle was awaited'))
    if not o.get('reaped_before_query'):
        bad.append(('not-reaped', 'the child had not been waited for when the handle was awaited (Popen.returncode is None)'))
    if o.get('is_alive') is not False:
        bad.append(('still-alive', 'process.is_alive() is True after the handle was awaited'))
    if o.get('tasks_left'):
        bad.append(('helper-task-left', f'asyncio tasks still pending: {o.get("tasks_left")}'))
    if o.get('threads_left'):
        bad.append(('helper-thread-left', f'threads still running after every reference was dropped: {o.get("threads_left")}'))
    return bad


def nontrivial(lbl: dict) -> bool:
    return lbl['outcome'] != 'return' or lbl['signal'] is not None


# ---------------------------------------------------------------- entry points

def _evaluate(ctx, scns: list[dict], corr: Corr) -> None:
    obs = run_many(scns)
    rows, idx, lates = [], [], []
    hist: dict[str, int] = {}
    seen = set()
    for scn, o in zip(scns, obs):
        corr.evaluations += 1
        for sg, what in oracle(scn, o):
            corr.violations.append(Violation(sg, what, {'scenario': scn, 'observed': {k: v for k, v in o.items() if k != 'stacks'},
                                                        'stacks': o.get('stacks')}))
        if o.get('runner_dead') or o.get('runner_error') or 'pid' not in o:
            corr.mismatches.append({'kind': 'no-observation', 'scenario': scn, 'observed': o})
            continue
        beh, sgt, lbl = classify(scn, o)
        key = f"{lbl['outcome']}/{lbl['signal']}/{lbl['instant']}"
        hist[key] = hist.get(key, 0) + 1
        full = key + f"/{scn['collect_logging']}/{scn['initializer']}"
        if full not in seen:
            seen.add(full)
            if nontrivial(lbl):
                corr.distinct_nontrivial += 1
        rows.append(f'({cbool(scn["collect_logging"])}, {cbool(worker_logs(scn))}, ({beh}, {copt(sgt)}), {obs_term(o, scn)})')
        idx.append((scn, o, lbl))
        if o.get('hang'):
            lates.append((2, 1, 1))     # nothing observed: the neutral element (equal to the model's answer)
            continue
        lt = o.get('late') or {}
        code = lambda r: 0 if r == 'ok' else (2 if r == 'ProcessLookupError' else 3)
        # terminate()/kill() on a reaped process return without sending: 'ok' there means "no exception" = model's MNoop
        lates.append((code(lt.get('send_signal0')), 1 if lt.get('terminate') == 'ok' else 3, 1 if lt.get('kill') == 'ok' else 3))
    files = {}
    CH = 300
    for i in range(0, len(rows), CH):
        files[f'cases_{i // CH}'] = cases_file(rows[i:i + CH], lates[i:i + CH])
    res = ctx.coq_eval_many(files)
    for name, (ok, out) in res.items():
        base = int(name.split('_')[1]) * CH
        bad = C.parse_nat_list(out) if ok else None
        if bad is None:
            corr.mismatches.append({'kind': 'coq-eval-failed', 'file': name, 'log': out[-800:]})
            continue
        for b in bad:
            scn, o, lbl = idx[base + b]
            corr.mismatches.append({'kind': 'model-vs-impl', 'class': lbl, 'scenario': scn,
                                    'observed': {k: o.get(k) for k in ('returned', 'raised_type', 'exitcode', 'reaped_before_query', 'is_alive',
                                                                     'tasks_left', 'listener_seen', 'times_ordered', 'await_raised', 'fn_started',
                                                                     'fn_started_at_signal', 'sig_call', 'hang', 'hang_stage')}})
        import re
        m = re.search(r'=\s*(\d+)(%nat)?\s*:\s*nat', out)
        if not m:
            corr.mismatches.append({'kind': 'coq-eval-failed', 'file': name, 'log': 'late count not found: ' + out[-300:]})
        elif int(m.group(1)) != 0:
            corr.mismatches.append({'kind': 'late-requests', 'file': name, 'n': int(m.group(1)),
                                    'observed_sample': [o.get('late') for _, o, _ in idx[base:base + 3]]})
    corr.extra.setdefault('class_histogram', {})
    for k, v in hist.items():
        corr.extra['class_histogram'][k] = corr.extra['class_histogram'].get(k, 0) + v
    if idx:
        for scn, o, lbl in idx[:: max(1, len(idx) // 4)][:4]:
            corr.samples.append({'class': lbl, 'collect_logging': scn['collect_logging'], 'initializer': scn['initializer'],
                                 'signal': scn.get('signal'), 'returned': o.get('returned'), 'raised': o.get('raised_type'),
                                 'exitcode': o.get('exitcode'), 'tasks_left': o.get('tasks_left'), 'threads_left': o.get('threads_left')})


def load_corpus() -> list[dict]:
    d = C.CORPUS / 'C17'
    out = []
    if d.exists():
        for p in sorted(d.glob('*.json')):
            j = json.loads(p.read_text())
            if 'scenario' in j:
                out.append(j['scenario'])
    return out


def correspond(ctx) -> Corr:
    corr = Corr()
    corr.rule = ('each case = one REAL child process started by run_in_process under the spawn context: worker outcome '
                 '{return, raise, unpicklable return, SystemExit, os._exit(n), blocked, logging for ever} x signal {none, SIGINT, SIGTERM, SIGKILL '
                 'via interrupt()/terminate()/kill()/send_signal()} x instant {boot sweep, running, racing completion sweep} x '
                 '{collect_logging} x {initializer}; the observation (shape of (returned, raised), value, exit code, reaped, times, '
                 'pending tasks, listener seen) is compared with the model inside Coq; distinct = distinct '
                 '(outcome, signal, instant class, logging, initializer); non-trivial = not a plain return')
    scns = load_corpus() + gen_scenarios(ctx.rng, ctx.tier)
    _evaluate(ctx, scns, corr)
    corr.extra['scenarios'] = len(scns)
    return corr


def search(ctx, broken) -> list:
    """Widened hunt: the thorough matrix (hangs are reported by the runner's watchdog)."""
    corr = Corr()
    scns = gen_scenarios(ctx.rng, 'quick') + boot_family(ctx.rng, [i * 0.01 for i in range(20)]) + \
        race_family(ctx.rng, [(-0.01 + i * 0.002) for i in range(16)])
    _evaluate(ctx, scns, corr)
    return corr.violations


def replay(ctx, path: Path) -> int:
    j = json.loads(Path(path).read_text())
    scn = j['scenario']
    o = run_many([dict(scn)])[0]
    print('observed:', json.dumps({k: v for k, v in o.items() if k != 'stacks'}, default=str)[:1500])
    bad = oracle(scn, o)
    for sg, what in bad:
        print('FAILS:', sg, what)
    print('replay verdict:', 'property violated' if bad else 'property holds on this input')
    return 1 if bad else 0
