"""C05 -- prompts appear exactly at the executed lines of the user's script, in order.

Model: coq/theories/Bdb/Model.v over the GENERATED Gen/ChildHookOrder.v (filter plugins in registration
order with trylast markers, decision functions) and Gen/SkipList.v (MODULES_TO_SKIP); theorems Props/C05.v.

Tie (every run): generated programs (harness/progen.py: all programs up to a small size + random ones, in
the four statement forms) are run by the REAL nextline.spawned.main (harness/child.py) under command
policies {all-step, all-next, all-continue, all-return, all-until, random} x trace_threads x trace_modules,
and -- in the same interpreter, without nextline -- under the recording trace function of
harness/reference.py.  The raw event stream of each thread/task of the reference run is given to the model
(cases.v, vm_compute) with the commands that were actually sent; the model's prompts (kind, line) and the
events it delivers to a WithContext-wrapped trace function must equal the OnStartPrompt / OnStartTraceCall
events of the corresponding trace.

Oracle: the property text, computed from the reference stream and the observed prompts only (no model).
"""
from __future__ import annotations

import fnmatch
import json
import os
import re
import zlib
from pathlib import Path

from .. import common as C
from .. import progen
from ..common import Corr, Violation

TRANSLATORS = ['hook_order_child', 'skip_list', 'bdb_funs']

TRUSTED_BASE = [
    'translators translate/hook_order_child.py (registration order per trace_modules, trylast markers, the three stateless '
    'filter decision functions, pinned digest of FilerByModule, shape of GlobalTraceFunc.global_trace_func, firstresult spec) and '
    'translate/skip_list.py (MODULES_TO_SKIP)',
    'translator translate/bdb_funs.py (ast -> Gen/BdbFuns.v, terms of Bdb/Syntax.v): the installed CPython bdb.py (Bdb.trace_dispatch, '
    'dispatch_line/call/return/exception, stop_here, _set_stopinfo, set_step/next/return/until) and, in /repo, CustomizedPdb (__init__, '
    'set_continue, cmdloop, list of overrides), factory.CmdloopHook, every `filter` hookimpl of filter.py with its helpers, register(), '
    'GlobalTraceFunc.global_trace_func, WithContext._local_trace, the thread guard of sys_trace; trusted to emit what the source says.  '
    'Interpreter coq/theories/Bdb/Interp.v (Python object model for frames/None/ints, pluggy call order, pdb.py between user_* and the '
    'set_* command are given their meaning by hand there); Bdb/Tie.v proves interpretation = Bdb/Model.v for all states and events '
    '(C05_tie_*).  Pins of translate/bdb_funs.py that no theorem speaks about (the translator fails closed): shapes of factory._factory / '
    'PdbInstanceFactory, LocalTraceFunc / local_.Factory, WithContext._global_trace/_create_local_trace, TraceFuncCreator, the sibling '
    'methods of the filter classes (init, context, on_cmdloop, __init__ values), the sys_trace call in runner.py, firstresult in spec.py, '
    'imports, module/class bodies, bases, decorators, defaults; CustomizedPdb may define only __init__, cmdloop, _cmdloop, set_continue.  '
    'Ignored positions: docstrings, pass, print/logger calls and log texts without Call/NamedExpr/Await/Yield; asserts are never ignored.  '
    'No exceptions in the interpreter: BdbQuit and failing asserts are stuck states (proved unreachable); the try/finally of '
    'Bdb.dispatch_return has its meaning for normal completion only (an exception out of the command loop is outside this tie)',
    'hand-written model coq/theories/Bdb/Model.v of bdb.Bdb / pdb.Pdb 3.12.1 stop logic, CustomizedPdb, WithContext, pluggy firstresult '
    'LIFO/trylast call order, FilerByModule.filter, CPython trace_trampoline (None leaves f_trace); compared with the real code on every run',
    'reference recorder harness/reference.py (raw sys.settrace stream per thread/task) and harness/child.py',
    'glue tie "options in force": harness/options_worker.py drives the real Nextline object (constructor, start, reset ..., close) and reads '
    'context.run_arg in on_initialize_run; compared with coq/theories/Bdb/Options.v (C05_options_in_force)',
    'modelled, not verified: CPython generates the same call/line/return/exception events for the program whether it runs under '
    'nextline or under the recorder; frames do not migrate between threads/tasks',
]
ASSUMPTIONS = [
    'the input of the model is the raw event stream of one thread/task; "the user\'s script" = the module the statement runs in '
    '(the _script module for str/path/code statements, the module of the function for a callable statement)',
    'trace_modules on: exact comparison only for programs that do not print and do not create asyncio tasks (nextline\'s own stdout '
    'and done-callback frames are traced then and are not part of the reference stream); FilerByModule._modules_to_trace contributed '
    'by other threads is an input of the stream (taken from the prompts observed before the trace started)',
    'a thread/task is matched to its trace by the location of its first event in the user\'s module',
]

KN = ['call', 'line', 'return', 'exception']
CMDS = ['step', 'next', 'return', 'until', 'continue']

SIG_LAMBDA = 'filters:prompt-in-lambda:module-tracing-off'
SIG_CALLABLE = 'step:callable-statement-never-prompted:module-tracing-off'
SIG_NEXT_EXC = 'next:lines-of-stepped-frame-not-prompted:task-after-exception-from-callee'
SIG_CONT_AGAIN = 'continue:prompted-again:task-first-frame-called-from-coroutine'


# ---------------------------------------------------------------- policy run inside the child worker

class PerTracePolicy:
    """'custom' policy: the command depends on (seed, number of the prompt within its trace, line, event) only,
    so it does not depend on how the threads interleave"""

    def __init__(self, args):
        self.seed = args.get('seed', 0)
        self.cmds = args.get('cmds', CMDS)
        self.k: dict = {}

    def on_event(self, ev, put):
        if ev['type'] != 'OnStartPrompt':
            return
        t = ev['trace_no']
        k = self.k.get(t, 0)
        self.k[t] = k + 1
        h = zlib.crc32(f'{self.seed}/{k}/{ev["line_no"]}/{ev["event"]}'.encode())
        put(t, ev['prompt_no'], self.cmds[h % len(self.cmds)])


class PerTraceRegime:
    """'tracemix' policy: every trace gets its own FIXED regime, chosen from (seed, trace number): trace 1 (the main
    thread) is always answered 'step'; the others 'step' for their first k prompts and 'continue' from then on
    (k = 1..4), or all-'step', all-'next', all-'continue'.  The clauses the property states for a thread or task that
    is answered 'step' / 'next' / 'continue' throughout are then judged per trace."""
    REGIMES = ['step', 'next', 'continue', 'sc1', 'sc2', 'sc3', 'sc4', 'sc2', 'sc3']

    def __init__(self, args):
        self.seed = args.get('seed', 0)
        self.k: dict = {}

    def regime(self, t):
        if t == 1:
            return 'step'
        return self.REGIMES[zlib.crc32(f'{self.seed}/regime/{t}'.encode()) % len(self.REGIMES)]

    def on_event(self, ev, put):
        if ev['type'] != 'OnStartPrompt':
            return
        t = ev['trace_no']
        k = self.k.get(t, 0)
        self.k[t] = k + 1
        r = self.regime(t)
        cmd = r if r in ('step', 'next', 'continue') else ('step' if k < int(r[2:]) else 'continue')
        put(t, ev['prompt_no'], cmd)


def make_policy(args):
    return PerTraceRegime(args) if args.get('regimes') else PerTracePolicy(args)


# ---------------------------------------------------------------- jobs

POLICIES = [('step', {'kind': 'all', 'cmd': 'step'}), ('next', {'kind': 'all', 'cmd': 'next'}),
            ('continue', {'kind': 'all', 'cmd': 'continue'}), ('return', {'kind': 'all', 'cmd': 'return'}),
            ('until', {'kind': 'all', 'cmd': 'until'}), ('random', None), ('tracemix', None)]
FORMS = ['str', 'path', 'code', 'callable']


def policy_of(name: str, rng) -> dict:
    for n, p in POLICIES:
        if n == name and p is not None:
            return dict(p)
    return {'kind': 'custom', 'module': 'harness.props.c05', 'func': 'make_policy',
            'args': {'seed': rng.randrange(10 ** 6), 'regimes': name == 'tracemix'}}


def make_job(src_of, kinds: set, name: str, form: str, pol: str, tt: bool, tm: bool, rng) -> dict:
    """src_of(prints, ret) -> source text"""
    exact = True
    prints = True
    if tm:
        prints = False
        if kinds & {'Task', 'Tasks2', 'WaitFor'} or 'asyncio' in src_of(True, False):
            exact = False           # only the oracle (see ASSUMPTIONS)
    src = src_of(prints, form == 'callable')
    if tm and ('print(' in src):
        exact = False
    return {'src': src, 'form': form, 'trace_threads': tt, 'trace_modules': tm, 'policy': policy_of(pol, rng), 'pol': pol,
            'reference': True, 'timeout': 40, 'name': name, 'exact': exact}


def load_corpus() -> list[dict]:
    """corpus/C05/*.json: run first on every run (known findings must reproduce, regression guards must pass)"""
    out = []
    d = C.CORPUS / 'C05'
    if d.exists():
        for p in sorted(d.glob('*.json')):
            j = json.loads(p.read_text())
            out.append((p.stem, j['job'], j.get('expect')))
    return out


def gen_jobs(rng, tier: str) -> list[dict]:
    jobs = []
    for name, cj, expect in load_corpus():
        j = make_job(lambda p, r, s=cj['src']: s, set(), 'corpus:' + name, cj['form'], cj['pol'], cj['trace_threads'], cj['trace_modules'], rng)
        j['expect'] = expect
        jobs.append(j)
    # hand-written programs: all policies, module tracing off; step/next/continue also with it on
    for name, src in progen.FIXED:
        for pol, _ in POLICIES:
            if pol == 'tracemix' and not ('Thread' in src or 'asyncio' in src):
                continue            # one trace only: the same as all-step
            jobs.append(make_job(lambda p, r, s=src: s, set(), 'fixed:' + name, 'str', pol, True, False, rng))
        if tier != 'quick':
            for pol in ('step', 'next', 'continue'):
                if name == 'syntax-error':
                    continue            # a code object cannot be built from it
                jobs.append(make_job(lambda p, r, s=src: s, set(), 'fixed:' + name, 'code', pol, True, True, rng))
    max_size, nrand, per = (2, 60, 1) if tier == 'quick' else (3, 250, 1)
    blocks = list(progen.enumerate_programs(max_size))
    if tier == 'quick':
        # all programs of size 1, a third of the programs of size 2 (rotating with the seed)
        small = [b for b in blocks if progen.size_of(b) == 1]
        two = [b for b in blocks if progen.size_of(b) == 2]
        off = rng.randrange(3)
        blocks = small + two[off::3]
    blocks = [(f'enum{i}', b) for i, b in enumerate(blocks)]
    blocks += [(f'rand{i}', progen.random_program(rng, rng.randint(4, 14))) for i in range(nrand)]
    for i, (name, b) in enumerate(blocks):
        ks = progen.kinds_of(b)
        form = FORMS[i % 4]
        pol = POLICIES[(i // 4 + i) % len(POLICIES)][0]
        tm = (i % 3 == 2)
        tt = (i % 5 != 4)
        jobs.append(make_job(lambda p, r, b=b: progen.render(b, p, r), ks, name, form, pol, tt, tm, rng))
        jobs[-1]['block'] = progen.to_json(b)
    return jobs


# ---------------------------------------------------------------- reading a result

def skip_patterns() -> list[str]:
    from translate import skip_list
    return skip_list.patterns(C.REPO)


def script_module_name() -> str:
    from translate import hook_order_child
    return hook_order_child.info(C.REPO)['script_module']


def real_traces(res: dict) -> dict:
    tr: dict = {}
    order = 0
    for e in res.get('events', []):
        t = e.get('trace_no')
        ty = e['type']
        order += 1
        if ty == 'OnStartTrace':
            tr[t] = {'calls': [], 'prompts': [], 'cmds': [], 'thread_no': e['thread_no'], 'task_no': e['task_no'], 'at': order,
                     'prompt_at': []}
        elif t not in tr:
            continue
        elif ty == 'OnStartTraceCall':
            tr[t]['calls'].append([e['event'], e['line_no'], e['file_name']])
        elif ty == 'OnStartPrompt':
            # the stack entry Pdb printed last (text of an interaction that could not prompt may precede it)
            ms3 = re.findall(r'^> (.*)\((\d+)\)([^\n()]*)\(\)', e.get('prompt_text') or '', re.M)
            ms2 = [x[1:] for x in ms3]
            ms = [x[1] for x in ms2]
            tr[t]['prompts'].append({'event': e['event'], 'line': e['line_no'], 'file': e['file_name'], 'frame': e['frame_object_id'],
                                     'func': ms[-1] if ms else '', 'text_line': int(ms2[-1][0]) if ms2 else None, 'text_file': ms3[-1][0] if ms3 else None, 'at': order})
        elif ty == 'OnEndPrompt':
            tr[t]['cmds'].append(e['command'])
    return tr


def ref_streams(ref: dict) -> dict:
    """stream index -> its events, each extended with its position in the global order of the reference run"""
    per: dict = {}
    for g, ev in enumerate(ref['events']):
        per.setdefault(ev[0], []).append(list(ev) + [g])
    return per


def norm_file(f: str, script_file: str) -> str:
    """the statement's own file is written anew for every run (path / callable forms): one name for it"""
    if f == script_file or re.search(r'/verif_child_[^/]*/', f or ''):
        return '<script>'
    return f


def match_traces(job: dict, ref: dict, per: dict, traces: dict) -> tuple[dict, list]:
    """stream index -> trace number; by the location of the first event of the stream in the user's module
    (for a callable statement with module tracing off nextline accepts nothing: no trace is expected)"""
    frames = ref['frames']
    user = ref['script_module']
    tm = job['trace_modules']
    first: dict = {}
    for s, evs in per.items():
        for ev in evs:
            fi = frames[ev[2]]
            if ev[1] == 0 and (fi[0] == user or (tm and fi[0] == progen.LIB_NAME)) and not (tm and fi[1] == '<lambda>'):
                first[s] = (ev[4], norm_file(fi[2], ref['script_file']))
                break
    m: dict = {}
    used: set = set()
    by_key: dict = {}
    for s in sorted(per):
        if s in first:
            by_key.setdefault(first[s], []).append(s)
    cands: dict = {}
    for t in sorted(traces):
        d = traces[t]
        if d['calls'] and d['calls'][0][0] == 'call':
            cands.setdefault((d['calls'][0][1], norm_file(d['calls'][0][2], ref['script_file'])), []).append(t)
    ambiguous = []
    for key, ss in by_key.items():
        ts = cands.get(key, [])
        if len(ss) > 1 and 0 < len(ts) < len(ss):
            ambiguous.append((key, ss, ts))         # several threads/tasks start at the same place, not all of them were traced
            continue
        for s, t in zip(ss, ts):
            m[s] = t
            used.add(t)
    if ambiguous:
        # which one was traced: the one that started after the same number of prompts of the main thread
        main = next((s for s in sorted(per) if ref['streams'][s]['main_thread'] and ref['streams'][s]['kind'] == 'thread'), None)
        seqs, ats = [], []
        if main is not None and main in m:
            mp = traces[m[main]]['prompts']
            seqs = [g for g, _ in align_prompts(per[main], mp, frames, ref['script_file'])]
            ats = [p['at'] for p in mp[:len(seqs)]]
        for key, ss, ts in ambiguous:
            free = list(ss)
            for t in ts:
                kt = sum(1 for a in ats if a < traces[t]['at'])
                pick = next((s for s in free if sum(1 for g in seqs if g < per[s][0][6]) == kt), free[0])
                free.remove(pick)
                m[pick] = t
                used.add(t)
    return m, [t for t in traces if t not in used]


def file_mod_of(frames: list, sfile: str) -> dict:
    d: dict = {}
    for fi in frames:
        d.setdefault(norm_file(fi[2], sfile), fi[0])
    return d


def align_prompts(evs: list, prompts: list, frames: list, sfile: str) -> list:
    """position in the global order of the reference run of each observed prompt of a trace: the earliest
    order-preserving alignment of the prompts with the events of its stream"""
    out = []
    i = 0
    for p in prompts:
        key = (KN.index(p['event']), p['line'], norm_file(p['file'], sfile))
        while i < len(evs) and (evs[i][1], evs[i][4], norm_file(frames[evs[i][2]][2], sfile)) != key:
            i += 1
        if i >= len(evs):
            break
        out.append((evs[i][6], evs[i][2]))
        i += 1
    return out


# ---------------------------------------------------------------- the property oracle (no model)

def oracle(job: dict, res: dict, ref: dict, per: dict, traces: dict, match: dict, unmatched: list) -> list:
    """-> [(signature, what)] -- the property text on the observed prompts and the reference stream"""
    bad = []
    frames = ref['frames']
    user = ref['script_module']
    sfile = ref['script_file']
    pol = job['pol']
    tm, tt = job['trace_modules'], job['trace_threads']
    pats = skip_patterns()
    file_mod = {}
    for fi in frames:
        file_mod.setdefault(norm_file(fi[2], sfile), fi[0])

    def is_user_file(f):
        return norm_file(f, sfile) == '<script>'

    # code objects of the user's module seen in the reference run: (code name) -> [(first line, last line)].  A prompt is in the
    # user's script iff its file is the script's AND its function is one of these (other code can share the file name
    # '<string>': dataclass-generated methods, exec'd helper code)
    user_codes: dict = {}
    other_codes: dict = {}
    for fi in frames:
        if norm_file(fi[2], sfile) == '<script>':
            (user_codes if fi[0] == user else other_codes).setdefault(fi[1], []).append((fi[4], fi[5] if len(fi) > 5 else 10 ** 9))

    # With module tracing on, code GENERATED by the standard library is compiled under the file name '<string>' too
    # (dataclass-made __init__/__eq__/..., e.g. of nextline's own event classes, run on the traced thread's stack), and
    # its function names and line numbers can coincide with a method of the user's script given as source text or code
    # object.  Such a frame is told apart by its CALLER: under module tracing its call event is prompted right after a
    # prompt in the calling frame; if that one is not in the user's file the frame is not the user's.
    GENERATED = {'__init__', '__repr__', '__eq__', '__lt__', '__le__', '__gt__', '__ge__', '__hash__', '__setattr__', '__delattr__',
                 '__getstate__', '__setstate__', '__replace__'}
    lib_prompts = set()       # id() of the prompt records that belong to such a frame (frame ids are re-used once a frame is gone:
    if tm:                     # a frame counts from its call prompt to its return prompt only)
        for d0 in traces.values():
            prev = None
            active = set()
            for q in d0['prompts']:
                if q['event'] == 'call' and q['file'] == '<string>' and q['func'] in GENERATED and prev is not None \
                        and not is_user_file(prev['file']):
                    active.add(q['frame'])
                elif q['event'] == 'call':
                    active.discard(q['frame'])      # a new frame at a re-used address
                if q['frame'] in active:
                    lib_prompts.add(id(q))
                    if q['event'] == 'return':
                        active.discard(q['frame'])
                prev = q

    def is_user_prompt(p):
        if not is_user_file(p['file']):
            return False
        if id(p) in lib_prompts:
            return False
        if not p['func']:
            return True
        if p.get('text_line') is not None and (p['text_line'] != p['line'] or norm_file(p.get('text_file'), sfile) != norm_file(p['file'], sfile)):
            # Pdb shows another frame than the event's (known finding 3): the function shown is not the event frame's;
            # the event itself is at (file, line)
            return any(a <= p['line'] <= b for sp in user_codes.values() for a, b in sp) or '<module>' in user_codes
        spans = user_codes.get(p['func'])
        if spans is None:
            return False
        return p['func'] == '<module>' or any(a <= p['line'] <= b for a, b in spans)

    callable_off = job['form'] == 'callable' and not tm
    for s, evs in sorted(per.items()):
        info = ref['streams'][s]
        t = match.get(s)
        d = traces.get(t) if t is not None else None
        prompts = d['prompts'] if d else []
        who = f'{info["kind"]} #{s}' + (f' (trace {t})' if t is not None else '')
        # ---- clauses that hold under every policy
        stream_locs = [(KN[ev[1]], ev[4]) for ev in evs if norm_file(frames[ev[2]][2], sfile) == '<script>' and frames[ev[2]][0] == user]
        it = iter(stream_locs)
        for p in prompts:
            if is_user_prompt(p) and not any(x == (p['event'], p['line']) for x in it):
                bad.append(('prompt-at-location-not-executed',
                            f'{who}: prompt at {p["file"]}:{p["line"]} ({p["event"]}) is not, in this order, an event the thread/task executed'))
                break
        for p in prompts:
            if p['func'] == '<lambda>':
                bad.append((SIG_LAMBDA if not tm else 'filters:prompt-in-lambda:module-tracing-on',
                            f'{who}: prompted inside a lambda at {norm_file(p["file"], sfile)}:{p["line"]} ({p["event"]}) '
                            f'[trace_modules={tm}, policy {pol}]'))
                break
        for p in prompts:
            mod = file_mod.get(norm_file(p['file'], sfile))
            if not tm and not is_user_prompt(p):
                bad.append(('filters:prompt-outside-script:module-tracing-off', f'{who}: prompted in {p["file"]}:{p["line"]} (module {mod}) with module tracing off'))
                break
            if tm and mod is not None and any(fnmatch.fnmatch(mod, pt) for pt in pats):
                bad.append(('filters:prompt-in-skip-listed-module', f'{who}: prompted in {p["file"]}:{p["line"]} (module {mod}, on the skip list)'))
                break
        if not tt and not info['main_thread'] and d is not None:
            bad.append(('filters:thread-traced:thread-tracing-off', f'{who}: a thread other than the main one was traced with trace_threads off'))
        if not info['main_thread'] and not tt:
            continue
        # ---- the stream's lines in the user's script (lambdas are never to be prompted)
        user_lines = [(ev[4], ev[2]) for ev in evs if ev[1] == 1 and frames[ev[2]][0] == user and frames[ev[2]][1] != '<lambda>']
        if not user_lines:
            continue
        got_lines = [p['line'] for p in prompts if p['event'] == 'line' and is_user_prompt(p) and p['func'] != '<lambda>']
        pol = job['pol']
        if pol == 'tracemix':
            # each trace has its own regime: a trace answered 'step' (resp. 'next', 'continue') at EVERY prompt is judged by
            # the clause the property states for that command; a trace with a mixed regime by the general clauses above
            cmds = set((d or {}).get('cmds') or [])
            pol_eff = next(iter(cmds)) if len(cmds) == 1 and cmds <= {'step', 'next', 'continue'} else ('step' if not prompts else 'mixed')
        else:
            pol_eff = pol
        if pol_eff == 'step':
            want = [l for l, _ in user_lines]
            if got_lines != want:
                if callable_off and not prompts:
                    bad.append((SIG_CALLABLE, f'{who}: the statement is a callable and trace_modules is off: it executed the lines {want[:12]} '
                                              f'of the user\'s function and was never prompted (FilterMainScript accepts only the module _script)'))
                else:
                    bad.append(('step:user-lines-not-exactly-prompted', f'{who}: all-step: executed user lines {want[:40]}, prompted lines {got_lines[:40]}'))
        elif pol_eff in ('next', 'continue'):
            pol = pol_eff
            if callable_off and not prompts:
                bad.append((SIG_CALLABLE, f'{who}: the statement is a callable and trace_modules is off: never prompted'))
                continue
            if not prompts:
                bad.append((f'{pol}:never-prompted', f'{who}: executed user lines {[l for l, _ in user_lines][:10]} and was never prompted'))
                continue
            # the frame being stepped: the frame of the first user line of the stream
            f0 = user_lines[0][1]
            f0_lines = [l for l, f in user_lines if f == f0]
            if pol == 'continue':
                p0 = prompts[0]
                if (p0['event'], p0['line']) != ('line', f0_lines[0]):
                    bad.append(('continue:first-prompt-not-at-first-line', f'{who}: first prompt at {p0["line"]} ({p0["event"]}), first line {f0_lines[0]}'))
                if len(prompts) > 1:
                    p1 = prompts[1]
                    coro_parent = any(ev[1] == 0 and ev[2] == f0 and ev[3] >= 0 and frames[ev[3]][3] for ev in evs)
                    bad.append((SIG_CONT_AGAIN if (info['kind'] == 'task' and coro_parent) else 'continue:prompted-again',
                                f'{who}: all-continue: prompted {len(prompts)} times; after the first prompt (line {p0["line"]}) again at '
                                f'line {p1["line"]} ({p1["event"]})'))
            else:
                # "the frame being stepped" = the frame of the first prompt, until the prompt of its return (what is
                # prompted after it has returned -- its callers, or with module tracing on library code run by them --
                # is not "inside the calls it makes")
                fid = prompts[0]['frame']
                upto = next((i for i, p in enumerate(prompts) if p['event'] == 'return' and p['frame'] == fid), len(prompts) - 1)
                stepped = prompts[:upto + 1]
                inside = [p for p in stepped if p['frame'] != fid]
                got_lines = [p['line'] for p in stepped if p['event'] == 'line' and p['frame'] == fid]
                if inside:
                    p1 = inside[0]
                    bad.append(('next:prompt-inside-a-call', f'{who}: all-next: prompted at line {p1["line"]} ({p1["event"]}) in {p1["func"]}(), '
                                                             f'a frame other than the one being stepped'))
                if got_lines != f0_lines and not inside:
                    exc_from_callee = any(ev[1] == 3 and ev[2] == f0 and ev[5] and ev[5][4] not in (-1, f0) for ev in evs)
                    sig = SIG_NEXT_EXC if (info['kind'] == 'task' and exc_from_callee) else 'next:lines-of-stepped-frame-not-prompted'
                    bad.append((sig, f'{who}: all-next: the stepped frame executed lines {f0_lines[:40]}, prompted at lines {got_lines[:40]}'))
    for t in unmatched:
        d = traces[t]
        if d['prompts'] or d['calls']:
            p = (d['prompts'] or [{'file': d['calls'][0][2], 'line': d['calls'][0][1], 'event': d['calls'][0][0], 'func': ''}])[0]
            if p.get('func') == '<lambda>':
                bad.append((SIG_LAMBDA if not tm else 'filters:prompt-in-lambda:module-tracing-on', f'trace {t}: prompted inside a lambda at line {p["line"]}'))
            elif not tt and d['thread_no'] != 1:
                bad.append(('filters:thread-traced:thread-tracing-off', f'trace {t} (thread {d["thread_no"]}) exists with trace_threads off'))
            else:
                bad.append(('trace-of-no-thread-or-task-of-the-program', f'trace {t} starts at {p["file"]}:{p["line"]}; no thread/task of the reference run starts there'))
    return bad


# ---------------------------------------------------------------- Coq cases

HEADER = 'From NL Require Import Bdb.Model.\nOpen Scope Z_scope.\nOpen Scope string_scope.\n'


def coq_case(job: dict, ref: dict, evs: list, info: dict, d: dict | None, mods0: list, mod_index: dict, mod_names: list, mods_name: str) -> str:
    frames = ref['frames']
    rows = []
    for ev in evs:
        s, k, f, p, line, x = ev[:6]
        fi = frames[f]
        fl = (1 if fi[1] == '<lambda>' else 0) | (2 if fi[3] else 0)
        tf, tl, tp = -1, 0, -1
        if x:
            fl |= (4 if x[1] else 0) | (8 if x[2] else 0) | (16 if x[3] else 0) | (32 if x[7] else 0)
            tf, tl, tp = x[4], x[5], x[6]
        rows.append(f'({k},{f},{p},{line},{mod_index[fi[0]]},{fl},{tf},{tl},{tp})')
    entering = info['main_thread'] and info['kind'] == 'thread'
    cfg = (f'(mkC {C.cbool(job["trace_threads"])} {C.cbool(job["trace_modules"])} {C.cbool(info["main_thread"])} '
           f'{C.cbool(entering)} [{";".join(str(mod_index[m]) for m in mods0)}])')
    cmds = [CMDS.index(c) if c in CMDS else 4 for c in (d['cmds'] if d else [])]
    prompts = [f'({KN.index(p["event"])},{p["line"]})' for p in (d['prompts'] if d else [])]
    calls = [f'({KN.index(c[0])},{c[1]})' for c in (d['calls'] if d else [])]
    chunks = ['[' + ';'.join(rows[i:i + 500]) + ']' for i in range(0, len(rows), 500)] or ['[]']
    return (f'(mkCase {cfg} {mods_name} [{";".join(map(str, cmds))}]\n  ({" ++ ".join(chunks)})\n  [{";".join(prompts)}]\n  [{";".join(calls)}] '
            f'{C.cbool(not job["trace_modules"])})')


def build_cases(job: dict, res: dict, ref: dict, per: dict, traces: dict, match: dict, tag: str) -> tuple[str, list]:
    """-> (definition of the module table, [case terms]) for one job"""
    script = script_module_name()
    names = []
    mod_index: dict = {}
    for fi in ref['frames']:
        if fi[0] not in mod_index:
            mod_index[fi[0]] = len(names)
            n = fi[0] if fi[0] is not None else ''
            if n == ref['script_module'] and job['form'] != 'callable':
                n = script
            names.append(n)
    mods_name = f'mods_{tag}'
    mdef = f'Definition {mods_name} : list string := [' + ';'.join('"' + n.replace('"', '') + '"' for n in names) + '].\n'
    sfile = ref['script_file']
    frames = ref['frames']
    # where in the global order of the reference run each observed prompt lies (earliest order-preserving alignment
    # of the prompts of a trace with the events of its stream): FilerByModule adds the module of every prompt
    prompt_at: list = []
    for s, t in match.items():
        for g, fidx in align_prompts(per[s], traces[t]['prompts'], frames, sfile):
            prompt_at.append((g, frames[fidx][0], s))
    cases = []
    for s in sorted(per):
        info = ref['streams'][s]
        t = match.get(s)
        d = traces.get(t) if t is not None else None
        entering = info['main_thread'] and info['kind'] == 'thread'
        mods0: list = []
        if job['trace_modules'] and not entering:
            start = per[s][0][6]
            seen = {ref['script_module']}          # the first module, added by the entering thread's first event
            for g, m, s2 in prompt_at:
                if g < start and s2 != s and m in mod_index:
                    seen.add(m)
            mods0 = sorted(m for m in seen if m in mod_index)
        cases.append((s, t, coq_case(job, ref, per[s], info, d, mods0, mod_index, names, mods_name)))
    return mdef, cases


# ---------------------------------------------------------------- running

def run(ctx, jobs: list, corr: Corr, seen: set, model: bool = True, extra_env: dict | None = None) -> None:
    from .. import child
    results = child.run_jobs([{k: v for k, v in j.items() if k not in ('block', 'name', 'exact', 'pol', 'expect')} for j in jobs], par=14, chunk=8,
                             extra_env=extra_env)
    # infrastructure failures (time-outs under load, a worker that died): run again, the last time one at a time;
    # a job that succeeds on a retry is an ordinary job
    strip = ('block', 'name', 'exact', 'pol', 'expect')
    for attempt, (par, chunk) in enumerate([(6, 2), (1, 1)]):
        redo = [i for i, r in enumerate(results) if r.get('error') or not r.get('reference')]
        if not redo:
            break
        ctx.log(f'retry {attempt + 1}: {len(redo)} job(s): ' + ', '.join(f'{jobs[i]["name"]}:{results[i].get("error")}' for i in redo[:5]))
        again = child.run_jobs([dict({k: v for k, v in jobs[i].items() if k not in strip}, id=f'r{attempt}_{i}') for i in redo], par=par, chunk=chunk,
                               extra_env=extra_env)
        for i, r in zip(redo, again):
            if not (r.get('error') or not r.get('reference')) or attempt == 1:
                results[i] = r
        corr.extra['retried_jobs'] = corr.extra.get('retried_jobs', 0) + len(redo)
    hist = corr.extra.setdefault('shapes', {'jobs': 0, 'by_policy': {}, 'by_form': {}, 'trace_modules_on': 0, 'trace_threads_off': 0,
                                            'streams': 0, 'thread_streams': 0, 'task_streams': 0, 'prompts': 0, 'raw_events': 0,
                                            'oracle_only_jobs': 0, 'failed_runs': 0, 'kinds': {}})
    files: dict = {}
    cur_defs, cur_cases, cur_src, cur_size = [], [], [], 0
    table: dict = {}

    def flush():
        nonlocal cur_defs, cur_cases, cur_src, cur_size
        if cur_cases:
            name = f'cases_{len(files)}'
            files[name] = (HEADER + ''.join(cur_defs) + 'Definition cases : list case :=\n [' + ';\n  '.join(cur_cases) + '].\n'
                           'Eval vm_compute in bad_from 0%nat cases.\n')
            table[name] = cur_src
        cur_defs, cur_cases, cur_src, cur_size = [], [], [], 0

    for ji, (job, res) in enumerate(zip(jobs, results)):
        ref = res.get('reference')
        if str(res.get('error') or '').startswith('build:') or str((res.get('reference') or {}).get('error') or '').startswith('build:'):
            # the harness could not even build the statement (its own wrapper): never a disagreement between model and implementation
            corr.extra['harness_build_failures'] = corr.extra.get('harness_build_failures', 0) + 1
            ctx.notes.append(f'harness build failure, job {job["name"]} ({job["form"]}): {res.get("error")}')
            ctx.log(f'NOTE: harness could not build {job["name"]} ({job["form"]}): {str(res.get("error"))[:160]}')
            continue
        if res.get('error') == 'timeout':
            # three runs did not finish: not a disagreement between model and implementation but a run that hangs
            hist['failed_runs'] += 1
            last = [[e.get('type'), e.get('event'), e.get('line_no')] for e in res.get('events', [])][-6:]
            corr.violations.append(Violation('run-does-not-terminate-under-nextline',
                                             f'[{job["name"]}, {job["form"]}, policy {job["pol"]}] the run did not finish within {job.get("timeout")} s in three '
                                             f'attempts; last events {last}',
                                             {'job': {k: job[k] for k in ('src', 'form', 'trace_threads', 'trace_modules', 'policy', 'pol', 'name')},
                                              'last_events': last}))
            continue
        if res.get('error') or not ref or ref.get('error') or ref.get('truncated'):
            hist['failed_runs'] += 1
            corr.mismatches.append({'kind': 'run-failed', 'error': res.get('error') or (ref or {}).get('error') or 'no reference / truncated',
                                    'name': job['name'], 'src': job['src'][:500]})
            continue
        per = ref_streams(ref)
        traces = real_traces(res)
        match, unmatched = match_traces(job, ref, per, traces)
        corr.evaluations += 1
        hist['jobs'] += 1
        hist['by_policy'][job['pol']] = hist['by_policy'].get(job['pol'], 0) + 1
        hist['by_form'][job['form']] = hist['by_form'].get(job['form'], 0) + 1
        hist['trace_modules_on'] += int(job['trace_modules'])
        hist['trace_threads_off'] += int(not job['trace_threads'])
        hist['streams'] += len(per)
        hist['thread_streams'] += sum(1 for s in per if ref['streams'][s]['kind'] == 'thread')
        hist['task_streams'] += sum(1 for s in per if ref['streams'][s]['kind'] == 'task')
        hist['prompts'] += sum(len(d['prompts']) for d in traces.values())
        hist['raw_events'] += len(ref['events'])
        for k in progen.kinds_of(progen.block_from_json(job['block'])) if 'block' in job else []:
            hist['kinds'][k] = hist['kinds'].get(k, 0) + 1
        key = job['src'] + json.dumps([job['form'], job['pol'], job['trace_threads'], job['trace_modules'], job['policy']])
        if key not in seen:
            seen.add(key)
            if sum(len(d['prompts']) for d in traces.values()) >= 2:
                corr.distinct_nontrivial += 1
        payload = {'job': {k: job[k] for k in ('src', 'form', 'trace_threads', 'trace_modules', 'policy', 'pol', 'name')}}
        hits = oracle(job, res, ref, per, traces, match, unmatched)
        if job.get('expect') and not any(sig == job['expect'] for sig, _ in hits):
            ctx.notes.append(f'corpus entry {job["name"]} no longer reproduces the known finding {job["expect"]}')
            ctx.log(f'NOTE: {job["name"]} does not reproduce {job["expect"]} any more')
        for sig, what in hits:
            corr.violations.append(Violation(sig, f'[{job["name"]}, {job["form"]}, policy {job["pol"]}, trace_threads={job["trace_threads"]}, '
                                                  f'trace_modules={job["trace_modules"]}] {what}',
                                             dict(payload, observed_prompts={t: [[p['event'], p['line'], p['func']] for p in d['prompts']][:60]
                                                                             for t, d in traces.items()})))
        if not model:
            continue
        if not job['exact']:
            hist['oracle_only_jobs'] += 1
            continue
        for t in unmatched:
            if traces[t]['calls']:
                corr.mismatches.append({'kind': 'trace-without-stream', 'trace': t, 'first_calls': traces[t]['calls'][:4], 'name': job['name'],
                                        'src': job['src'][:800], 'policy': job['policy'], 'flags': [job['trace_threads'], job['trace_modules']]})
        mdef, cases = build_cases(job, res, ref, per, traces, match, str(ji))
        size = sum(len(c) for _, _, c in cases)
        if cur_size + size > 1_500_000 or len(cur_cases) + len(cases) > 380:
            flush()
        cur_defs.append(mdef)
        for s, t, c in cases:
            cur_cases.append(c)
            cur_src.append((ji, s, t))
        cur_size += size
        corr.traces_validated += len(cases)
        if len(corr.samples) < 4 and traces and ji % 7 == 3:
            t0 = sorted(traces)[0]
            corr.samples.append({'program': job['src'][:400], 'form': job['form'], 'policy': job['pol'], 'trace_modules': job['trace_modules'],
                                 'prompts_trace_1': [[p['event'], p['line']] for p in traces[t0]['prompts']][:20]})
    flush()
    if not files:
        return
    out = ctx.coq_eval_many(files, timeout=900, par=10)
    for name, (ok, log) in out.items():
        badl = C.parse_nat_list(log) if ok else None
        if badl is None:
            corr.mismatches.append({'kind': 'coq-eval-failed', 'file': name, 'log': log[-800:]})
            continue
        for b in badl:
            ji, s, t = table[name][b]
            job = jobs[ji]
            tr = real_traces(results[ji])
            d = tr.get(t)
            corr.mismatches.append({'kind': 'model-vs-real', 'name': job['name'], 'stream': s, 'trace': t, 'form': job['form'], 'policy': job['policy'],
                                    'flags': [job['trace_threads'], job['trace_modules']], 'src': job['src'][:1200],
                                    'real_prompts': [[p['event'], p['line']] for p in d['prompts']][:60] if d else [],
                                    'cmds': d['cmds'][:60] if d else []})


# ---------------------------------------------------------------- glue tie: the options in force for a run

OPT3 = [None, False, True]


def gen_option_histories(rng, n: int) -> list[dict]:
    """constructor options, then 1-4 resets; each option independently absent / False / True; statement absent or changed"""
    hs = []
    # every (initial value, one reset value) combination first, then random histories
    for t0 in (False, True):
        for g in OPT3:
            hs.append({'init': {'trace_threads': t0, 'trace_modules': not t0, 'statement': 'x = 0\n'},
                       'resets': [{k: v for k, v in (('trace_threads', g), ('trace_modules', g)) if v is not None}]})
    for i in range(n):
        init = {'trace_threads': rng.random() < 0.5, 'trace_modules': rng.random() < 0.5, 'statement': f'x = {i}\n'}
        resets = []
        for j in range(rng.randint(1, 4)):
            r = {}
            for k in ('trace_threads', 'trace_modules'):
                v = rng.choice(OPT3)
                if v is not None:
                    r[k] = v
            if rng.random() < 0.3:
                r['statement'] = f'y = {i}{j}\n'
            resets.append(r)
        hs.append({'init': init, 'resets': resets})
    return hs


def run_options(ctx, corr: Corr, n: int) -> None:
    """random option histories on the REAL Nextline object vs Bdb/Options.v (and the direct oracle)"""
    import subprocess
    hs = gen_option_histories(ctx.rng, n)
    env = dict(__import__('os').environ, PYTHONPATH=f'{C.REPO}:{C.VERIF}')
    out = None
    for attempt in range(2):
        try:
            p = subprocess.run([C.PY, '-u', '-m', 'harness.options_worker'], input=json.dumps(hs), text=True, stdout=subprocess.PIPE,
                               stderr=subprocess.DEVNULL, env=env, cwd=str(C.VERIF), timeout=300)
            line = next((l for l in p.stdout.splitlines() if l.startswith('@@O ')), None)
            if line:
                out = json.loads(line[4:])
                break
        except subprocess.TimeoutExpired:
            pass
    if out is None or len(out) != len(hs):
        corr.mismatches.append({'kind': 'options-worker-failed'})
        return
    cases = []
    src = []
    code = {None: 0, False: 1, True: 2}
    for h, r in zip(hs, out):
        if 'error' in r:
            corr.mismatches.append({'kind': 'options-run-failed', 'history': h, 'error': r['error']})
            continue
        seen = r['seen']
        corr.evaluations += 1
        # ---- oracle (property text: the options in effect for the run = last value explicitly given, else the constructor's)
        cur = dict(h['init'])
        want = [[cur['trace_threads'], cur['trace_modules'], cur['statement']]]
        for rs in h['resets']:
            for k, v in rs.items():
                cur[k] = v
            want.append([cur['trace_threads'], cur['trace_modules'], cur['statement']])
        got = [x[:3] for x in seen]
        if len(got) != len(want):
            corr.violations.append(Violation('options:run-not-initialized-after-reset', f'option history {h}: {len(want)} runs were prepared, '
                                             f'on_initialize_run was called {len(got)} times', {'level': 'options', 'history': h, 'observed': seen}))
        else:
            for i, (g, w) in enumerate(zip(got, want)):
                for j, k in enumerate(('trace_threads', 'trace_modules', 'statement')):
                    if g[j] != w[j]:
                        given = [rs.get(k, 'absent') for rs in h['resets'][:i]]
                        corr.violations.append(Violation(
                            f'options:reset-value-not-in-force:{k}',
                            f'Nextline(..., {k}={h["init"][k]!r}) then reset() with {k} = {given}: the RunArg of the next run has {k}={g[j]!r}, '
                            f'the last value explicitly given is {w[j]!r}',
                            {'level': 'options', 'history': h, 'observed': seen, 'run_index': i, 'option': k, 'required': w[j], 'got': g[j]}))
                        break
                else:
                    continue
                break
        hist = [(code[rs.get('trace_threads')], code[rs.get('trace_modules')]) for rs in h['resets']]
        obs = [(bool(x[0]), bool(x[1])) for x in seen]
        cases.append(f'({C.cbool(h["init"]["trace_threads"])}, {C.cbool(h["init"]["trace_modules"])}, '
                     f'[{";".join(f"({a}%nat,{b}%nat)" for a, b in hist)}], [{";".join(f"({C.cbool(a)},{C.cbool(b)})" for a, b in obs)}])')
        src.append((h, seen))
    text = ('From NL Require Import Bdb.Options.\nFrom Coq Require Import List.\nImport ListNotations.\n'
            'Definition cases : list opt_case :=\n [' + ';\n  '.join(cases) + '].\nEval vm_compute in bad_from 0%nat cases.\n')
    ok, log = ctx.coq_eval('options_cases', text)
    badl = C.parse_nat_list(log) if ok else None
    if badl is None:
        corr.mismatches.append({'kind': 'coq-eval-failed', 'file': 'options_cases', 'log': log[-600:]})
    else:
        for b in badl:
            corr.mismatches.append({'kind': 'options-model-vs-real', 'history': src[b][0], 'observed': src[b][1]})
    corr.extra['option_histories'] = len(hs)
    corr.traces_validated += len(cases)


def order_violations(corr: Corr) -> None:
    corr.violations.sort(key=lambda v: (len(v.data.get('job', {}).get('src', '')) + len(json.dumps(v.data.get('history', ''))), v.signature))


def correspond(ctx) -> Corr:
    corr = Corr()
    corr.rule = ('generated programs (progen: all programs of the grammar up to a size + random larger ones + hand-written ones; forms '
                 'str/path/code/callable) x policy {step,next,continue,return,until,random} x trace_threads x trace_modules through the real '
                 'nextline.spawned.main; per thread/task: model (raw reference stream + commands sent -> prompts, trace calls) vs OnStartPrompt / '
                 'OnStartTraceCall.  distinct = distinct (program, form, policy, flags); non-trivial = at least 2 prompts')
    seen: set = set()
    jobs = gen_jobs(ctx.rng, ctx.tier)
    ctx.log(f'{len(jobs)} jobs')
    run(ctx, jobs, corr, seen)
    # the user's environment: a ~/.pdbrc (a documented pdb feature) that issues a resuming command -- nextline's Pdb instances must
    # not read it, the prompts are the client's to answer
    import tempfile
    home = tempfile.mkdtemp(prefix='verif_home_')
    try:
        with open(os.path.join(home, '.pdbrc'), 'w') as f:
            f.write('continue\n')
        rc_jobs = []
        for name, src in progen.FIXED[:4 if ctx.tier == 'quick' else len(progen.FIXED)]:
            for pol in ('step', 'next'):
                rc_jobs.append(make_job(lambda p, r, s=src: s, set(), 'pdbrc:' + name, 'str', pol, True, False, ctx.rng))
        run(ctx, rc_jobs, corr, seen, extra_env={'HOME': home})
        corr.extra['jobs_with_a_pdbrc_in_home'] = len(rc_jobs)
    finally:
        import shutil
        shutil.rmtree(home, ignore_errors=True)
    run_options(ctx, corr, 120 if ctx.tier == 'quick' else 400)
    order_violations(corr)
    corr.extra['programs_skipped_at_generation'] = progen.SKIPPED['invalid_programs']
    ctx.log(f'jobs={corr.evaluations} streams compared={corr.traces_validated} mismatches={len(corr.mismatches)} oracle hits={len(corr.violations)}')
    return corr


def search(ctx, broken) -> list:
    corr = Corr()
    seen: set = set()
    rng = ctx.rng
    jobs = []
    for name, src in progen.FIXED:
        for pol, _ in POLICIES:
            for tm in (False, True):
                jobs.append(make_job(lambda p, r, s=src: s, set(), 'fixed:' + name, 'str', pol, True, tm, rng))
    for i in range(1500):
        b = progen.random_program(rng, rng.randint(2, 12))
        jobs.append(make_job(lambda p, r, b=b: progen.render(b, p, r), progen.kinds_of(b), f'search{i}', FORMS[i % 4],
                             POLICIES[i % len(POLICIES)][0], i % 5 != 4, i % 3 == 2, rng))
    run(ctx, jobs, corr, seen, model=False)
    run_options(ctx, corr, 600)
    order_violations(corr)
    return corr.violations


def replay(ctx, path: Path) -> int:
    from .. import child
    j = json.loads(Path(path).read_text())
    if j.get('level') == 'options':
        import subprocess
        h = j['history']
        p = subprocess.run([C.PY, '-u', '-m', 'harness.options_worker'], input=json.dumps([h]), text=True, stdout=subprocess.PIPE,
                           env=dict(__import__('os').environ, PYTHONPATH=f'{C.REPO}:{C.VERIF}'), cwd=str(C.VERIF), timeout=120)
        line = next((l for l in p.stdout.splitlines() if l.startswith('@@O ')), '@@O [{}]')
        seen = json.loads(line[4:])[0].get('seen')
        print('constructor:', h['init'])
        for i, rs in enumerate(h['resets']):
            print(f'reset #{i + 1}:', rs)
        print('RunArg per run (trace_threads, trace_modules, statement, run_no):', seen)
        i, k = j.get('run_index', 0), j.get('option')
        bad = bool(seen) and len(seen) > i and seen[i][['trace_threads', 'trace_modules', 'statement'].index(k)] != j.get('required')
        print('VIOLATION' if bad else 'not reproduced', j.get('signature'))
        return 1 if bad else 0
    job = dict(j['job'], reference=True, timeout=40)
    job.setdefault('exact', False)
    res = child.run_jobs([{k: v for k, v in job.items() if k not in ('name', 'exact', 'pol')}])[0]
    print('program:\n' + job['src'])
    print(f'form={job["form"]} policy={job["pol"]} trace_threads={job["trace_threads"]} trace_modules={job["trace_modules"]}')
    ref = res.get('reference')
    if res.get('error') or not ref:
        print('run failed:', res.get('error'))
        return 2
    per = ref_streams(ref)
    traces = real_traces(res)
    match, unmatched = match_traces(job, ref, per, traces)
    for t, d in sorted(traces.items()):
        print(f'trace {t} (thread {d["thread_no"]}, task {d["task_no"]}): prompts', [(p['event'], p['line'], p['func']) for p in d['prompts']])
    for s, evs in sorted(per.items()):
        fr = ref['frames']
        print(f'reference {ref["streams"][s]["key"]} -> trace {match.get(s)}: user lines',
              [(ev[4], fr[ev[2]][1]) for ev in evs if ev[1] == 1 and fr[ev[2]][0] == ref['script_module']][:60])
    bad = oracle(job, res, ref, per, traces, match, unmatched)
    for sig, what in bad:
        print('VIOLATION', sig, '--', what)
    want = j.get('signature')
    return 1 if any(s == want for s, _ in bad) or (bad and not want) else 0
