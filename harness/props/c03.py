"""C03 -- lifecycle family; see harness/props/_life.py (co-simulation of coq/theories/Life/Model.v
against the real Nextline + scenario families + the C03 oracle of harness/life_oracles.py)."""
from . import _life

PROP_FILES = ['Props/C03.v']
TRUSTED_BASE = _life.TRUSTED_BASE
ASSUMPTIONS = _life.ASSUMPTIONS
correspond, search, replay = _life.make('C03')
