"""C03 -- lifecycle family; see harness/props/_life.py (co-simulation of coq/theories/Life/Model.v
against the real Nextline + scenario families + the C03 oracle of harness/life_oracles.py)."""
from . import _life

PROP_FILES = ['Props/C03.v']
TRUSTED_BASE = _life.TRUSTED_BASE + [
    'translate/imp_skeleton.py (ast): nextline/imp.py + nextline/main.py -> Gen/ImpSkeleton.v, statement terms per method of Imp / Nextline; '
    'trusted: the reading of the source into the AST of Life/ImpSyntax.v (what counts as tracked: _machine, _lock, _callback, pubsub.close, '
    '_hook.(a)hook, _imp, _continuous, _started, _closed; everything else in those positions fails closed), the semantics of Life/ImpTie.v '
    '(async with releases on every exit, try/finally, asynccontextmanager = body at the yield, asyncio.Lock not re-entrant), and the call '
    'lists of continuous.py (which Nextline methods Continuous.run_and_continue / run_continue_and_wait call); '
    'definitional in the interpreter, not proved: `async with lock` releases on every exit, try/finally, `except BaseException` '
    'catches every exception incl. cancellation, wait_for(c, t) = c with any await possibly the cancelled one; positions that are '
    'not translated may only contain calls of a fixed list (imp_skeleton.py ALLOWED_CALLS / LOGGER_CALLS / INIT_CALLS), `self.<known attribute>`, '
    'no assert; the per-call refinement (ImpTie.v section 5) is by computation on seven representative model states, one task, lock free; '
    'fsm/machine.py is read for names only (pin), fsm/callback.py (the unlocked `finish` trigger of the run task) is not read by this tie',
]
ASSUMPTIONS = _life.ASSUMPTIONS
correspond, search, replay = _life.make('C03')
TRANSLATORS = ['imp_skeleton']     # Gen/ImpSkeleton.v is regenerated from nextline/imp.py + main.py on every run (Life/ImpTie.v)
