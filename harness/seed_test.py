"""dev tool: run checks against a seeded change in a scratch worktree (never in /repo)
   python -m harness.seed_test <seeded-dir-or-patch> C01 [C02 ...] [--tier quick]"""
import json, os, subprocess, sys, time
from pathlib import Path

HOME = str(Path(__file__).resolve().parent.parent)     # the /verif this module belongs to (a `vp run` snapshot has its own)

def main():
    args = [a for a in sys.argv[1:] if not a.startswith('--')]
    tier = 'thorough' if '--thorough' in sys.argv else 'quick'
    src = Path(args[0]); props = args[1:]
    patch = src / 'patch.diff' if src.is_dir() else src
    name = src.name if src.is_dir() else src.stem
    wt = f'/tmp/st_{name}_{os.getpid()}'
    subprocess.run(['git', '-C', '/repo', 'worktree', 'add', '-q', '--detach', wt, 'HEAD'], check=True)
    try:
        r = subprocess.run(['git', '-C', wt, 'apply', str(patch.resolve())], capture_output=True, text=True)
        if r.returncode != 0:
            print('PATCH DOES NOT APPLY:', r.stderr); return 2
        out = {}
        for p in props:
            t0 = time.time()
            env = dict(os.environ, VERIF_REPO=wt)
            r = subprocess.run([HOME + '/check', p, '--tier', tier], capture_output=True, text=True, env=env, timeout=3600)
            lines = [l for l in r.stdout.splitlines() if l.startswith(('VIOLATION', 'KNOWN-FINDING')) or 'PROOF BUILD FAILED' in l or 'translator' in l]
            out[p] = {'rc': r.returncode, 'wall': round(time.time() - t0), 'lines': lines[:8]}
            print(p, json.dumps(out[p])[:700], flush=True)
            for l in lines:
                if l.startswith('VIOLATION') and 'replay=' in l:
                    rp = l.split('replay=')[1].split()[0]
                    try:
                        j = json.loads(Path(rp).read_text())
                        print('    ', j.get('signature'), '|', (j.get('what') or str(j.get('broken_obligations')))[:200])
                    except Exception:
                        pass
        return 0
    finally:
        subprocess.run(['git', '-C', '/repo', 'worktree', 'remove', '--force', wt])
        # regenerate the generated Coq files from the real repository
        subprocess.run([HOME + '/check', '--setup'], capture_output=True)

if __name__ == '__main__':
    sys.exit(main())
