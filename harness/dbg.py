"""dev helper: python -m harness.dbg theories/X/Y.v  -- compile; on error show the goal before the failing sentence"""
import re, subprocess, sys, os
f = sys.argv[1]
coq = '/verif/coq'
def comp(path):
    return subprocess.run(['timeout', '300', 'coqc', '-Q', coq + '/theories', 'NL', '-w', '-notation-overridden', path], capture_output=True, text=True, cwd=coq)
r = comp(f)
out = r.stdout + r.stderr
if r.returncode == 0:
    print('OK'); sys.exit(0)
print(out[-2500:])
m = re.search(r'line (\d+), characters (\d+)-(\d+)', out)
if m:
    ln = int(m.group(1)); ch = int(m.group(2))
    src = open(os.path.join(coq, f) if not os.path.isabs(f) else f).read().split('\n')
    line = src[ln - 1]
    src[ln - 1] = line[:ch] + ' Show. ' + line[ch:]
    tmp = '/tmp/_dbg_' + os.path.basename(f)
    open(tmp, 'w').write('\n'.join(src))
    r2 = comp(tmp)
    o2 = r2.stdout
    print('---- goal before failing tactic ----')
    print(o2[-3000:])
sys.exit(1)
