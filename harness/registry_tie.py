"""Tie of coq/theories/Life/Registry.v (C12: plugins registered / unregistered between hook calls) to /repo.

Generated sequences of register(p) / unregister(p) / reset() are executed on a REAL started `Nextline`
object (public API; passive plugins that log what they receive; no script is run) and by the model inside
Coq; compared: result of every (un)registration (accepted / refused) and, for every hook call made by a
reset() -- `reset`, `on_initialize_run`, `on_change_state` -- the plugins that received it, in order."""
from __future__ import annotations

import json
import os
import random
import subprocess
import sys

from . import common as C

HOOKS = {'reset': 7, 'on_initialize_run': 2, 'on_change_state': 3}     # codes as in Life/Obs.v
N_PLUGINS = 4


def gen(rng: random.Random, n: int) -> list:
    ops = []
    for _ in range(n):
        r = rng.random()
        if r < 0.4:
            ops.append(['reg', rng.randrange(N_PLUGINS)])
        elif r < 0.7:
            ops.append(['unreg', rng.randrange(N_PLUGINS)])
        else:
            ops.append(['reset'])
    ops.append(['reset'])
    return ops


def model_ops(ops: list) -> str:
    out = []
    for o in ops:
        if o[0] == 'reg':
            out.append(f'Reg {o[1]}')
        elif o[0] == 'unreg':
            out.append(f'Unreg {o[1]}')
        else:
            out += [f'Hook {HOOKS[h]}' for h in ('reset', 'on_initialize_run', 'on_change_state')]
    return '[' + '; '.join(out) + ']'


WORKER = r'''
import asyncio, json, sys
from nextline import Nextline
from nextline.plugin.spec import hookimpl

def make(p, log):
    class P:
        @hookimpl
        async def reset(self):
            log.append([p, 7])
        @hookimpl
        async def on_initialize_run(self):
            log.append([p, 2])
        @hookimpl
        async def on_change_state(self):
            log.append([p, 3])
    return P()

async def one(ops):
    log = []
    out = []
    nl = Nextline('pass')
    plugins = {}
    await nl.start()
    for o in ops:
        if o[0] == 'reg':
            pl = plugins.setdefault(o[1], make(o[1], log))
            try:
                r = nl.register(pl)
                out.append([0] if r is not None else [1])
            except BaseException:
                out.append([1])
        elif o[0] == 'unreg':
            pl = plugins.setdefault(o[1], make(o[1], log))
            try:
                r = nl.unregister(plugin=pl)
                out.append([0] if r is not None else [1])
            except BaseException:
                out.append([1])
        else:
            del log[:]
            await nl.reset()
            for code in (7, 2, 3):
                d = [2]
                for p, h in log:
                    if h == code:
                        d += [p, h]
                out.append(d)
            # the three hook calls of a reset happen one after the other
            order = [h for _, h in log]
            if order != sorted(order, key=[7, 2, 3].index):
                out.append(['hook-calls-interleaved', order])
    await nl.close()
    return out

async def main():
    cases = json.load(open(sys.argv[1]))
    res = []
    for ops in cases:
        try:
            res.append(await asyncio.wait_for(one(ops), 30))
        except BaseException as e:
            res.append(['error', repr(e)])
    print('@@RES ' + json.dumps(res))

if __name__ == '__main__':
    import logging
    logging.disable(logging.CRITICAL)
    asyncio.run(main())
'''


def run_real(ctx, cases: list) -> list | None:
    import tempfile
    d = tempfile.mkdtemp(prefix='verif_reg_')
    try:
        open(os.path.join(d, 'w.py'), 'w').write(WORKER)
        open(os.path.join(d, 'cases.json'), 'w').write(json.dumps(cases))
        env = dict(os.environ, PYTHONPATH=f'{C.REPO}:{C.VERIF}', PYTHONHASHSEED='0', PYTHONDONTWRITEBYTECODE='1')
        r = subprocess.run(['timeout', '300', C.PY, os.path.join(d, 'w.py'), os.path.join(d, 'cases.json')],
                           capture_output=True, text=True, env=env, cwd=d)
        for line in r.stdout.splitlines():
            if line.startswith('@@RES '):
                return json.loads(line[6:])
        return None
    finally:
        import shutil
        shutil.rmtree(d, ignore_errors=True)


def run(ctx, n_cases: int) -> dict:
    rng = ctx.rng
    cases = [gen(rng, rng.randint(3, 14)) for _ in range(n_cases)]
    # a few fixed histories: register twice, unregister a stranger, re-register after unregistering
    cases += [[['reg', 0], ['reg', 0], ['reset'], ['unreg', 0], ['unreg', 0], ['reset'], ['reg', 0], ['reset']],
              [['unreg', 1], ['reset'], ['reg', 1], ['reg', 2], ['reset'], ['unreg', 1], ['reset']]]
    body = ('From NL Require Import Life.Registry.\nFrom Coq Require Import List. Import ListNotations.\n'
            'Eval vm_compute in map run_enc [\n ' + ';\n '.join(model_ops(c) for c in cases) + '].\n')
    ok, out = ctx.coq_eval('RegistryTie', body)
    if not ok:
        return {'error': 'coq-eval-failed: ' + out[-600:], 'cases': 0, 'mismatches': []}
    import re
    m = re.search(r'=\s*(\[.*\])\s*:\s*list', out, re.S)
    model = json.loads(re.sub(r'\s+', ' ', m.group(1).replace(';', ','))) if m else None
    real = run_real(ctx, cases)
    if model is None or real is None:
        return {'error': 'registry tie could not run (model parsed: %s, real ran: %s)' % (model is not None, real is not None), 'cases': 0, 'mismatches': []}
    mism = []
    n_hooks = 0
    for i, (ops, mo, re_) in enumerate(zip(cases, model, real)):
        n_hooks += sum(3 for o in ops if o[0] == 'reset')
        if mo != re_:
            j = next((k for k, (a, b) in enumerate(zip(mo, re_)) if a != b), min(len(mo), len(re_)))
            mism.append({'kind': 'registry', 'ops': ops, 'first_difference_at_output': j,
                         'model': mo[j:j + 2], 'impl': re_[j:j + 2]})
    return {'cases': len(cases), 'hook_calls': n_hooks, 'mismatches': mism}


if __name__ == '__main__':
    ctx = C.Ctx('C12', 'quick', int(sys.argv[1]) if len(sys.argv) > 1 else 0)
    r = run(ctx, 20)
    print({k: v for k, v in r.items() if k != 'mismatches'})
    for m in r['mismatches'][:5]:
        print(json.dumps(m))
    ctx.cleanup()
