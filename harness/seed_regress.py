"""dev tool: run every kept seed against the check of its property (scratch worktrees, never /repo) and
write audit/seed_regression.txt:   python -m harness.seed_regress [C07 C12 ...]"""
import json, subprocess, sys, time
from pathlib import Path

HOME = str(Path(__file__).resolve().parent.parent)     # the /verif this module belongs to (a `vp run` snapshot has its own)

def main():
    only = set(sys.argv[1:])
    rows = []
    for d in sorted(Path(HOME + '/seeded').glob('C*-*')):
        prop = d.name.split('-')[0]
        if only and prop not in only:
            continue
        t0 = time.time()
        r = subprocess.run(['/venv/bin/python', '-m', 'harness.seed_test', str(d), prop], capture_output=True, text=True, cwd=HOME, timeout=3600)
        out = r.stdout
        line = next((l for l in out.splitlines() if l.startswith(prop + ' {')), '')
        try:
            j = json.loads(line[len(prop) + 1:])
        except Exception:
            import re        # seed_test cuts the line at 700 characters
            m = re.search(r'"rc": (\d+)', line)
            j = {'rc': int(m.group(1)) if m else '?', 'lines': [out[-300:]]}
        sigs = [l.strip().split(' | ')[0] for l in out.splitlines() if l.startswith('     ')]
        concrete = [s for s in sigs if s and s != 'None']
        rows.append(f"{d.name:7s} {prop} rc={j.get('rc')} {'CAUGHT' if j.get('rc') == 1 else 'MISSED'} "
                    f"{'concrete' if concrete else 'tie-only'} {int(time.time() - t0):4d}s  {', '.join(concrete[:3])}")
        print(rows[-1], flush=True)
    head = subprocess.run(['git', '-C', '/repo', 'rev-parse', '--short', 'HEAD'], capture_output=True, text=True).stdout.strip()
    vh = subprocess.run(['git', '-C', HOME, 'rev-parse', '--short', 'HEAD'], capture_output=True, text=True).stdout.strip()
    if not only:
        Path(HOME + '/audit/seed_regression.txt').write_text(f'# every kept seed against the check of its property; repo {head}, verif {vh}\n' + '\n'.join(rows) + '\n')
    return 0

if __name__ == '__main__':
    sys.exit(main())
