import asyncio, sys
from nextline import Nextline
SCRIPT = "x = 1\ny = 2\nz = 3\n"
async def main():
    async with Nextline(SCRIPT) as nl:
        executed = []
        async def watch():
            async for info in nl.subscribe_prompt_info():
                if not info.open and info.command is not None:
                    executed.append((info.trace_no, info.prompt_no, info.command))
        t = asyncio.create_task(watch())
        async with nl.run_session():
            n = 0
            async for p in nl.prompts():
                n += 1
                if n == 1:
                    await nl.send_pdb_command('next', p.prompt_no, p.trace_no)
                    # a command for the NEXT prompt of this trace, sent before that prompt exists
                    await nl.send_pdb_command("p 'DECOY'", p.prompt_no + 1, p.trace_no)
                else:
                    await asyncio.sleep(0.3)
                    await nl.send_pdb_command('continue', p.prompt_no, p.trace_no)
        await asyncio.sleep(0.2)
        t.cancel()
    print(executed)
    bad = [e for e in executed if 'DECOY' in e[2]]
    print('VIOLATION: decoy executed' if bad else 'OK')
    return 1 if bad else 0
if __name__ == '__main__':
    import logging; logging.disable(logging.CRITICAL)
    sys.exit(asyncio.run(main()))
