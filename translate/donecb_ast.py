"""`ast` half of translate/donecb_skeleton.py (imported by it; not a translator of its own).

Translates every method of ThreadDoneCallback (nextline/utils/done_callback/thread.py) into the
statement trees of coq/theories/DoneCb/SkelSyntax.v: polarity of every test, right-hand side of
every store, arguments of every call, `__init__`, defaults.  Fail closed: any construct that is not
understood raises AstError (a broken tie obligation).  Ignored: docstrings, `pass`, and
`logger.<level>(...)` calls whose arguments are constants.
"""
from __future__ import annotations

import ast
from pathlib import Path

SRC = 'nextline/utils/done_callback/thread.py'
CLASS = 'ThreadDoneCallback'
EXPECTED_METHODS = ['__init__', 'register', 'close', '_monitor', '__enter__', '__exit__']

SELF_ATTRS = {'_active': 'FActive', '_closed': 'FClosed', '_done': 'FDone', '_interval': 'FInterval',
              '_lock': 'FLock', '_t': 'FThread', '_monitor': 'FMonitor', 'close': 'FClose'}
# global name -> (where it must come from, constructor)
GLOBALS = {
    'current_thread': (('threading', 'current_thread'), 'GCurrentThread'),
    'Lock': (('threading', 'Lock'), 'GLock'),
    'ExcThread': (('nextline.utils.thread_exception', 'ExcThread'), 'GExcThread'),
    'time': (('time', None), 'GTime'),
    'set': (None, 'GSet'),
    'RuntimeError': (None, 'GRuntimeError'),
    'BaseException': (None, 'GBaseException'),
}
METHODS = {'is_alive': 'NmIsAlive', 'add': 'NmAdd', 'join': 'NmJoin', 'start': 'NmStart',
           'append': 'NmAppend', 'sleep': 'NmSleep'}
BINOPS = {ast.Sub: 'BSub', ast.BitOr: 'BOr', ast.BitAnd: 'BAnd', ast.BitXor: 'BXor'}
LOG_LEVELS = {'debug', 'info', 'warning', 'error', 'exception', 'critical', 'log'}


class AstError(Exception):
    pass


def cstr(s: str) -> str:
    if any(ord(c) < 32 or ord(c) > 126 for c in s):
        raise AstError(f'non-printable identifier {s!r}')
    return '"' + s.replace('"', '""') + '"%string'


def clist(xs) -> str:
    return '[' + '; '.join(xs) + ']'


class Module:
    def __init__(self, tree: ast.Module):
        self.bind: dict[str, tuple] = {}      # name -> (module, original name | None)
        self.loggers: set[str] = set()
        self.cls = None
        for k, st in enumerate(tree.body):
            if isinstance(st, ast.Expr) and isinstance(st.value, ast.Constant) and isinstance(st.value.value, str):
                continue
            if isinstance(st, ast.Import):
                for a in st.names:
                    self._bind(a.asname or a.name.split('.')[0], (a.name, None), st)
            elif isinstance(st, ast.ImportFrom):
                if st.level:
                    raise AstError(f'line {st.lineno}: relative import')
                for a in st.names:
                    if a.name == '*':
                        raise AstError(f'line {st.lineno}: star import')
                    self._bind(a.asname or a.name, (st.module, a.name), st)
            elif isinstance(st, ast.ClassDef) and st.name == CLASS and self.cls is None:
                self._bind(CLASS, ('<class>', CLASS), st)
                self.cls = st
            elif (isinstance(st, ast.Assign) and len(st.targets) == 1 and isinstance(st.targets[0], ast.Name)
                  and self._is_getlogger(st.value)):
                self._bind(st.targets[0].id, ('<logger>', None), st)
                self.loggers.add(st.targets[0].id)
            else:
                raise AstError(f'line {st.lineno}: module-level statement {type(st).__name__} '
                               '(only imports, a logger and the class are allowed)')
        if self.cls is None:
            raise AstError(f'class {CLASS} not found')

    def _is_getlogger(self, e) -> bool:
        if not isinstance(e, ast.Call) or e.keywords:
            return False
        f = e.func
        ok = (isinstance(f, ast.Name) and self.bind.get(f.id) == ('logging', 'getLogger')) or (
            isinstance(f, ast.Attribute) and f.attr == 'getLogger' and isinstance(f.value, ast.Name)
            and self.bind.get(f.value.id) == ('logging', None))
        return ok and all(isinstance(a, ast.Name) and a.id == '__name__' or isinstance(a, ast.Constant)
                          for a in e.args)

    def _bind(self, name, origin, st):
        if name in self.bind:
            raise AstError(f'line {st.lineno}: module-level name {name} bound twice')
        self.bind[name] = origin

    def glob(self, name: str) -> str:
        if name in GLOBALS:
            want, ctor = GLOBALS[name]
            have = self.bind.get(name)
            if have == want:
                return ctor
            return f'(GOther {cstr(name + " = " + ".".join(str(x) for x in (have or ("?",)) if x))})'
        have = self.bind.get(name)
        if have is not None and have[0] not in ('<class>', '<logger>'):
            return f'(GOther {cstr(".".join(x for x in have if x))})'
        return f'(GOther {cstr(name)})'


class Method:
    def __init__(self, mod: Module, fn: ast.FunctionDef):
        self.mod = mod
        self.fn = fn
        self.name = fn.name
        a = fn.args
        if fn.decorator_list:
            raise AstError(f'{self.name}: decorator')
        if a.vararg or a.kwarg or a.kwonlyargs or a.posonlyargs or a.kw_defaults:
            raise AstError(f'{self.name}: unsupported parameter kinds')
        if not a.args or a.args[0].arg != 'self':
            raise AstError(f'{self.name}: first parameter is not self')
        self.params = [x.arg for x in a.args[1:]]
        self.locals: dict[str, int] = {p: k for k, p in enumerate(self.params)}
        # every name stored anywhere in the function is a local
        self.assigned = set(self.params)
        for n in ast.walk(fn):
            if isinstance(n, ast.Name) and isinstance(n.ctx, (ast.Store, ast.Del)):
                self.assigned.add(n.id)
            elif isinstance(n, ast.ExceptHandler) and n.name:
                self.assigned.add(n.name)
            elif isinstance(n, (ast.Global, ast.Nonlocal, ast.Lambda, ast.FunctionDef, ast.AsyncFunctionDef,
                                ast.ClassDef, ast.NamedExpr, ast.Await, ast.Yield, ast.YieldFrom)) and n is not fn:
                raise AstError(f'{self.name}: line {n.lineno}: {type(n).__name__}')
        if 'self' in self.assigned:
            raise AstError(f'{self.name}: self is rebound')
        nd = len(a.defaults)
        self.defaults = ['None'] * (len(self.params) - nd) + [f'(Some {self.expr(d)})' for d in a.defaults]

    def err(self, node, what):
        return AstError(f'{self.name}: line {getattr(node, "lineno", "?")}: {what}')

    def local(self, name: str) -> int:
        if name not in self.locals:
            self.locals[name] = len(self.locals)
        return self.locals[name]

    # ---- expressions
    def expr(self, e) -> str:
        X = self.expr
        if isinstance(e, ast.Constant):
            v = e.value
            if v is None:
                return 'PNone'
            if v is True or v is False:
                return f'(PBool {"true" if v else "false"})'
            if isinstance(v, int):
                return f'(PInt ({v})%Z)'
            if isinstance(v, float):
                return f'(PFloat {cstr(repr(v))})'
            if isinstance(v, str):
                return 'PStr'
            raise self.err(e, f'constant {v!r}')
        if isinstance(e, ast.Name):
            if not isinstance(e.ctx, ast.Load):
                raise self.err(e, 'name in a store position')
            if e.id == 'self':
                return 'PSelfObj'
            if e.id in self.assigned:
                return f'(PLocal {self.local(e.id)})'
            return f'(PGlobal {self.mod.glob(e.id)})'
        if isinstance(e, ast.Attribute):
            if not isinstance(e.ctx, ast.Load):
                raise self.err(e, 'attribute in a store position')
            if isinstance(e.value, ast.Name) and e.value.id == 'self':
                if e.attr not in SELF_ATTRS:
                    raise self.err(e, f'unknown attribute self.{e.attr}')
                return f'(PSelf {SELF_ATTRS[e.attr]})'
            m = METHODS.get(e.attr) or f'(NmOther {cstr(e.attr)})'
            return f'(PAttr {X(e.value)} {m})'
        if isinstance(e, ast.UnaryOp) and isinstance(e.op, ast.Not):
            return f'(PNot {X(e.operand)})'
        if isinstance(e, ast.BoolOp):
            c = 'PAndE' if isinstance(e.op, ast.And) else 'POrE'
            out = X(e.values[-1])
            for v in reversed(e.values[:-1]):
                out = f'({c} {X(v)} {out})'
            return out
        if isinstance(e, ast.Compare):
            if len(e.ops) != 1:
                raise self.err(e, 'chained comparison')
            c = {ast.Is: 'PIs', ast.IsNot: 'PIsNot', ast.In: 'PIn', ast.NotIn: 'PNotIn'}.get(type(e.ops[0]))
            if c is None:
                raise self.err(e, f'comparison {type(e.ops[0]).__name__}')
            return f'({c} {X(e.left)} {X(e.comparators[0])})'
        if isinstance(e, ast.BinOp):
            o = BINOPS.get(type(e.op)) or f'(BOtherOp {cstr(type(e.op).__name__)})'
            return f'(PBin {o} {X(e.left)} {X(e.right)})'
        if isinstance(e, ast.Call):
            if any(isinstance(a, ast.Starred) for a in e.args) or any(k.arg is None for k in e.keywords):
                raise self.err(e, 'star arguments')
            kws = clist(f'({cstr(k.arg)}, {X(k.value)})' for k in e.keywords)
            return f'(PCall {X(e.func)} {clist(X(a) for a in e.args)} {kws})'
        if isinstance(e, ast.SetComp):
            if len(e.generators) != 1:
                raise self.err(e, 'comprehension with several generators')
            g = e.generators[0]
            if g.is_async or not isinstance(g.target, ast.Name):
                raise self.err(e, 'comprehension target')
            x = self.local(g.target.id)
            return f'(PSetComp {X(e.elt)} {x} {X(g.iter)} {clist(X(c) for c in g.ifs)})'
        if isinstance(e, ast.List):
            return f'(PListLit {clist(X(a) for a in e.elts)})'
        if isinstance(e, ast.Set):
            return f'(PSetLit {clist(X(a) for a in e.elts)})'
        if isinstance(e, ast.Subscript):
            if not isinstance(e.ctx, ast.Load):
                raise self.err(e, 'subscript in a store position')
            return f'(PSubscr {X(e.value)} {X(e.slice)})'
        raise self.err(e, f'expression {type(e).__name__}')

    # ---- statements
    def ignorable(self, st) -> bool:
        if isinstance(st, ast.Pass):
            return True
        if isinstance(st, ast.Expr):
            v = st.value
            if isinstance(v, ast.Constant) and isinstance(v.value, str):
                return True
            if (isinstance(v, ast.Call) and isinstance(v.func, ast.Attribute) and v.func.attr in LOG_LEVELS
                    and isinstance(v.func.value, ast.Name) and v.func.value.id in self.mod.loggers
                    and v.func.value.id not in self.assigned
                    and all(isinstance(a, ast.Constant) for a in v.args)
                    and all(isinstance(k.value, ast.Constant) for k in v.keywords)):
                return True
        return False

    def block(self, sts) -> str:
        return clist(self.stmt(s) for s in sts if not self.ignorable(s))

    def target(self, t, value: str, node) -> str:
        if isinstance(t, ast.Name):
            if t.id == 'self':
                raise self.err(node, 'self is rebound')
            return f'(KAssign {self.local(t.id)} {value})'
        if isinstance(t, ast.Attribute) and isinstance(t.value, ast.Name) and t.value.id == 'self':
            if t.attr not in SELF_ATTRS or t.attr in ('_monitor', 'close'):
                raise self.err(node, f'store to self.{t.attr}')
            return f'(KSetAttr {SELF_ATTRS[t.attr]} {value})'
        raise self.err(node, 'assignment target')

    def stmt(self, st) -> str:
        X, B = self.expr, self.block
        if isinstance(st, ast.Assign):
            if len(st.targets) != 1:
                raise self.err(st, 'multiple assignment')
            return self.target(st.targets[0], X(st.value), st)
        if isinstance(st, ast.AnnAssign):
            if st.value is None:
                raise self.err(st, 'annotation without value')
            return self.target(st.target, X(st.value), st)
        if isinstance(st, ast.Expr):
            return f'(KExpr {X(st.value)})'
        if isinstance(st, ast.If):
            return f'(KIf {X(st.test)} {B(st.body)} {B(st.orelse)})'
        if isinstance(st, ast.While):
            if st.orelse:
                raise self.err(st, 'while/else')
            return f'(KWhile {X(st.test)} {B(st.body)})'
        if isinstance(st, ast.For):
            if st.orelse or not isinstance(st.target, ast.Name):
                raise self.err(st, 'for/else or structured target')
            it = X(st.iter)
            return f'(KFor {self.local(st.target.id)} {it} {B(st.body)})'
        if isinstance(st, ast.With):
            if len(st.items) != 1 or st.items[0].optional_vars is not None:
                raise self.err(st, 'with: several items or `as`')
            return f'(KWith {X(st.items[0].context_expr)} {B(st.body)})'
        if isinstance(st, ast.Try):
            if st.orelse or st.finalbody or len(st.handlers) != 1:
                raise self.err(st, 'try: else/finally/several handlers')
            h = st.handlers[0]
            if h.type is None or h.name is None:
                raise self.err(st, 'bare except / except without a name')
            body = B(st.body)
            cls = X(h.type)
            return f'(KTry {body} {cls} {self.local(h.name)} {B(h.body)})'
        if isinstance(st, ast.Raise):
            if st.exc is None or st.cause is not None:
                raise self.err(st, 'bare raise / raise from')
            return f'(KRaise {X(st.exc)})'
        if isinstance(st, ast.Return):
            return f'(KReturn {X(st.value) if st.value is not None else "PNone"})'
        if isinstance(st, ast.Break):
            return 'KBreak'
        if isinstance(st, ast.Delete):
            if not all(isinstance(t, ast.Name) and t.id != 'self' for t in st.targets):
                raise self.err(st, 'del of a non-local')
            return f'(KDel {clist(str(self.local(t.id)) for t in st.targets)})'
        raise self.err(st, f'statement {type(st).__name__}')

    def emit(self) -> list[str]:
        body = self.block(self.fn.body)
        nm = self.name.strip('_')
        return [f'(* {CLASS}.{self.name}: locals ' +
                ', '.join(f'{k}={n}' for n, k in sorted(self.locals.items(), key=lambda x: x[1])) + ' *)',
                f'Definition {nm}_ast : pmeth :=',
                f'  mkMeth {len(self.params)} {clist(self.defaults)}',
                f'    {body}.', '']


def translate_ast(repo: Path) -> list[str]:
    path = repo / SRC
    tree = ast.parse(path.read_text(), filename=str(path))
    mod = Module(tree)
    cls = mod.cls
    if cls.bases or cls.keywords or cls.decorator_list:
        raise AstError(f'class {CLASS}: bases / keywords / decorators')
    meths = {}
    for st in cls.body:
        if isinstance(st, ast.Expr) and isinstance(st.value, ast.Constant) and isinstance(st.value.value, str):
            continue
        if isinstance(st, ast.FunctionDef):
            if st.name in meths:
                raise AstError(f'method {st.name} defined twice')
            meths[st.name] = st
            continue
        raise AstError(f'line {st.lineno}: class-level statement {type(st).__name__}')
    if sorted(meths) != sorted(EXPECTED_METHODS):
        raise AstError(f'methods of {CLASS}: {sorted(meths)} (expected {sorted(EXPECTED_METHODS)})')
    L = []
    for m in EXPECTED_METHODS:
        L += Method(mod, meths[m]).emit()
    return L


if __name__ == '__main__':
    import sys
    print('\n'.join(translate_ast(Path(sys.argv[1] if len(sys.argv) > 1 else '/repo'))))
