"""Fail-closed translator for the emitter of the subprocess (C09) -> Gen/EmitterSkel.v

Translates with `ast` (expressions and statements are parsed by shape, nothing is pinned as text)

  nextline/spawned/plugin/plugins/repeat.py      Repeater.on_start_trace / on_end_trace / on_trace_call / on_cmdloop /
                                                 on_prompt / on_write_stdout (and init: what _run_no / _hook / _queue_out are)
  nextline/spawned/plugin/plugins/local_.py      Factory._context (the `with` around a trace call, the trace-call counter),
                                                 TraceCallHandler (on_trace_call, is_on_trace_call, current_trace_call_no,
                                                 current_trace_call_info and the private helpers they call)
  nextline/spawned/plugin/plugins/concurrency.py TaskAndThreadKeeper.filtered / _on_start / _on_end (+ that the end is reached through
                                                 the done-callback), TaskOrThreadToTraceMapper (trace counter, _map, current_trace_no)
  nextline/spawned/plugin/plugins/pdb_/factory.py CmdloopHook.cmdloop (the guard), PromptFunc._prompt_func (prompt counter)
  nextline/spawned/plugin/plugins/pdb_/custom.py  CustomizedPdb.cmdloop
  nextline/count.py                              the counters (start value, itertools.count)
  nextline/spawned/plugin/plugins/__init__.py    registration order (order in which stacked context managers are entered)

into terms of coq/theories/Events/Syntax.v.  coq/theories/Events/Tie.v interprets them.

Fail closed.  Inside the translated functions every statement must be recognised.  What is DROPPED (leaves no
trace in the generated term) is only: docstrings; `logger.<level>(...)` / `self._logger.<level>(...)` /
`logger = getLogger(...)` whose arguments contain no Call, NamedExpr, Await, Yield; bare annotations; timestamps
(`x = datetime.datetime.utcnow()` and the `started_at=/ended_at=/written_at=` fields that hold them); the final
`return <name>` of _prompt_func.  `assert` is translated (SAssertEq / SAssertTrue: the interpreter raises).  Calls
into untranslated machinery are recognised by exact shape and leave an `SExt "<tag>"` in the term.
In the translated classes and modules the translator also refuses: class bases / keywords / class decorators other
than the expected ones; class-body statements that are not the expected `def`s (class-level attributes, special
methods, further hookimpls); decorators and default argument values other than the expected ones; statements of
`__init__` / `init` other than the expected plain bindings; module-level statements other than imports, `def`,
`class`, docstrings (rebinding or monkeypatching of a translated name); sibling methods that mention a tracked
dict / set / counter or the outgoing queue.  nextline/events.py (the nine child-side event classes) and
TraceCallInfo in nextline/spawned/types.py are pinned by shape (fields, `__post_init__`).
Everything else raises EmitterError and `./check C09` reports a broken tie obligation.
"""
from __future__ import annotations

import ast
import sys
from pathlib import Path

OUTPUT = 'EmitterSkel.v'
PLUG = 'nextline/spawned/plugin/plugins'
SRC_REPEAT = f'{PLUG}/repeat.py'
SRC_LOCAL = f'{PLUG}/local_.py'
SRC_CONC = f'{PLUG}/concurrency.py'
SRC_FACTORY = f'{PLUG}/pdb_/factory.py'
SRC_CUSTOM = f'{PLUG}/pdb_/custom.py'
SRC_COUNT = 'nextline/count.py'
SRC_REG = f'{PLUG}/__init__.py'
SRC_EVENTS = 'nextline/events.py'
SRC_TYPES = 'nextline/spawned/types.py'


class EmitterError(Exception):
    pass


EVENTS = {'OnStartTrace', 'OnEndTrace', 'OnStartTraceCall', 'OnEndTraceCall', 'OnStartCmdloop', 'OnEndCmdloop',
          'OnStartPrompt', 'OnEndPrompt', 'OnWriteStdout'}
RECORDS = EVENTS | {'TraceCallInfo'}
TIME_FIELDS = {'started_at', 'ended_at', 'written_at'}
RECORD_FIELDS: dict[str, list[str]] = {}     # class -> the fields its constructor takes (filled by record_shapes)
FIRST_TRACKED = {'current_trace_no', 'current_trace_call_no', 'current_trace_call_info', 'is_on_trace_call'}
FIRST_EXT = {'current_thread_no', 'current_task_no', 'prompt'}
PROC_HOOKS = {'on_start_trace', 'on_end_trace', 'on_write_stdout', 'on_start_task_or_thread', 'on_end_task_or_thread'}
WITH_HOOKS = {'on_trace_call', 'on_cmdloop', 'on_prompt'}
COUNTER_CTORS = {'TraceNoCounter': 'CTrace', 'TraceCallNoCounter': 'CCall', 'PromptNoCounter': 'CPrompt'}
MAP_CTORS = {'dict', 'set', 'WeakKeyDictionary', 'WeakSet', 'defaultdict'}

CONTROL = (ast.Await, ast.Yield, ast.YieldFrom, ast.Return, ast.Raise, ast.Break, ast.Continue, ast.FunctionDef,
           ast.AsyncFunctionDef, ast.ClassDef, ast.Lambda, ast.Global, ast.Nonlocal, ast.While, ast.For, ast.AsyncFor,
           ast.With, ast.AsyncWith, ast.Try, ast.Match, ast.Delete, ast.Import, ast.ImportFrom, ast.NamedExpr)


# ---------------------------------------------------------------- helpers

def norm(n) -> str:
    return ast.unparse(n).strip()


def cq(s: str) -> str:
    if '"' in s or '\\' in s or '\n' in s:
        raise EmitterError(f'string {s!r} cannot be written as a Coq string')
    return f'"{s}"'


def clist(xs) -> str:
    return '[' + '; '.join(xs) + ']'


def strip_doc(body):
    if body and isinstance(body[0], ast.Expr) and isinstance(body[0].value, ast.Constant) and isinstance(body[0].value.value, str):
        return body[1:]
    return body


def is_name(n, s) -> bool:
    return isinstance(n, ast.Name) and n.id == s


def chain(n):
    """a.b.c -> ['a','b','c'] or None"""
    out = []
    while isinstance(n, ast.Attribute):
        out.append(n.attr)
        n = n.value
    if isinstance(n, ast.Name):
        out.append(n.id)
        return out[::-1]
    return None


def idents(node) -> set[str]:
    out = set()
    for n in ast.walk(node):
        if isinstance(n, ast.Name):
            out.add(n.id)
        elif isinstance(n, ast.Attribute):
            out.add(n.attr)
    return out


def has_control(node) -> bool:
    return any(isinstance(n, CONTROL) for n in ast.walk(node))


def find(body, kind, name, what):
    xs = [n for n in body if isinstance(n, kind) and n.name == name]
    if len(xs) != 1:
        raise EmitterError(f'{what}: expected exactly one `{name}`, found {len(xs)}')
    return xs[0]


def params(fn, drop_self=True, defaults_ok=False) -> list[str]:
    a = fn.args
    if a.vararg or a.kwarg or a.posonlyargs:
        raise EmitterError(f'{fn.name}: *args/**kwargs/positional-only parameters')
    if not defaults_ok and (a.defaults or any(d is not None for d in a.kw_defaults)):
        raise EmitterError(f'{fn.name}: default argument values')
    names = [x.arg for x in a.args] + [x.arg for x in a.kwonlyargs]
    if drop_self and names[:1] == ['self']:
        names = names[1:]
    return names


def decos(fn) -> list[str]:
    return [norm(d) for d in fn.decorator_list]


def seq(items: list[str]) -> str:
    items = [i for i in items if i]
    if not items:
        return 'SSkip'
    if len(items) == 1:
        return items[0]
    return f'(SSeq {items[0]} {seq(items[1:])})'


def subscript_base(n):
    """dict[K, V] -> dict ; dict -> dict"""
    if isinstance(n, ast.Subscript):
        n = n.value
    return n.id if isinstance(n, ast.Name) else None


# ---------------------------------------------------------------- per-function context

class Cx:
    def __init__(self, where: str, cls: str | None, hook: list[str], maps: set[str] = frozenset(), untracked: set[str] = frozenset(),
                 counters: dict | None = None, helpers: dict | None = None, run_no: str | None = None,
                 queue: list[str] | None = None):
        self.where = where            # for messages
        self.cls = cls                # class name (attributes are written Cls.attr)
        self.hook = hook              # the chain that denotes the plugin manager: ['self','_hook'] or ['hook']
        self.maps = set(maps)         # attributes that are dicts / sets keyed by trace number or task
        self.untracked = set(untracked)
        self.counters = counters or {}  # callee chain (tuple) -> ctype
        self.helpers = helpers or {}  # private method name -> expr text (inlined)
        self.run_no = run_no
        self.queue = queue
        self.times: set[str] = set()  # locals holding a timestamp
        self.ctxvars: set[str] = set()

    def at(self, st) -> str:
        return f'{self.where}:{getattr(st, "lineno", "?")}'

    def attr(self, a: str) -> str:
        return f'{self.cls}.{a}'

    def tracked_names(self) -> set[str]:
        s = {'hook', '_hook', 'with_', 'gen', 'send', 'put', '_queue_out', 'queue_out', 'current_task_or_thread'}
        s |= self.maps
        for c in self.counters:
            s.add(c[-1])
        return s


def is_timestamp(n) -> bool:
    return isinstance(n, ast.Call) and chain(n.func) in (['datetime', 'datetime', 'utcnow'], ['datetime', 'utcnow'], ['datetime', 'datetime', 'now']) \
        and not n.args and not n.keywords


def hook_call(n, cx: Cx, via: str):
    """<hook>.<via>.<name>(kw...) -> (name, {kw: node}) or None"""
    if not isinstance(n, ast.Call):
        return None
    c = chain(n.func)
    if c is None or len(c) != len(cx.hook) + 2 or c[:len(cx.hook)] != cx.hook or c[len(cx.hook)] != via:
        return None
    if n.args:
        raise EmitterError(f'{cx.where}: positional arguments in hook call `{norm(n)}`')
    kws = {}
    for k in n.keywords:
        if k.arg is None:
            raise EmitterError(f'{cx.where}: ** in hook call `{norm(n)}`')
        kws[k.arg] = k.value
    return c[-1], kws


def self_map(n, cx: Cx):
    """self.<m> with m a map attribute -> 'Cls.m'"""
    if isinstance(n, ast.Attribute) and is_name(n.value, 'self') and n.attr in cx.maps:
        return cx.attr(n.attr)
    return None


# ---------------------------------------------------------------- expressions

def tr_expr(n, cx: Cx) -> str:
    w = cx.where
    if isinstance(n, ast.Constant):
        if n.value is None:
            return 'ENone'
        if type(n.value) is bool:
            return f'(EBool {"true" if n.value else "false"})'
        if type(n.value) is str:
            return f'(EStr {cq(n.value)})'
        raise EmitterError(f'{w}: constant `{norm(n)}`')
    if isinstance(n, ast.Name):
        if n.id in cx.times:
            raise EmitterError(f'{w}: timestamp `{n.id}` used as data')
        return f'(EVar {cq(n.id)})'
    if isinstance(n, ast.UnaryOp) and isinstance(n.op, ast.Not):
        return f'(ENot {tr_expr(n.operand, cx)})'
    if isinstance(n, ast.Tuple):
        return f'(ETuple {clist([tr_expr(x, cx) for x in n.elts])})'
    if isinstance(n, ast.Compare) and len(n.ops) == 1 and isinstance(n.ops[0], (ast.Is, ast.IsNot)) \
            and isinstance(n.comparators[0], ast.Constant) and n.comparators[0].value is None:
        e = f'(EIsNone {tr_expr(n.left, cx)})'
        return e if isinstance(n.ops[0], ast.Is) else f'(ENot {e})'
    if isinstance(n, ast.Compare) and len(n.ops) == 1 and isinstance(n.ops[0], (ast.In, ast.NotIn)):
        m = self_map(n.comparators[0], cx)
        if m is None:
            raise EmitterError(f'{w}: `{norm(n)}`: membership in something that is not a tracked map/set')
        e = f'(EIn {tr_expr(n.left, cx)} {cq(m)})'
        return e if isinstance(n.ops[0], ast.In) else f'(ENot {e})'
    if isinstance(n, ast.Subscript):
        m = self_map(n.value, cx)
        if m is not None:
            return f'(EMapIdx {cq(m)} {tr_expr(n.slice, cx)})'
        raise EmitterError(f'{w}: subscript `{norm(n)}`')
    if isinstance(n, ast.Attribute):
        if is_name(n.value, 'self'):
            if cx.run_no and n.attr == cx.run_no:
                return 'ERunNo'
            if n.attr in cx.maps:
                raise EmitterError(f'{w}: the map `{norm(n)}` used as a value')
            if n.attr in cx.untracked or [n.attr] == cx.hook[1:] or (cx.queue and n.attr == cx.queue[-1]):
                raise EmitterError(f'{w}: `{norm(n)}` used as a value')
            return f'(EAttr {cq(cx.attr(n.attr))})'
        return f'(EField {tr_expr(n.value, cx)} {cq(n.attr)})'
    if isinstance(n, ast.Call):
        if is_name(n.func, 'current_task_or_thread') and not n.args and not n.keywords:
            return 'ECurrent'
        hc = hook_call(n, cx, 'hook')
        if hc is not None:
            name, kws = hc
            if name in FIRST_TRACKED:
                if kws:
                    raise EmitterError(f'{w}: `{norm(n)}` with arguments')
                return f'(EHook {cq(name)})'
            if name in FIRST_EXT:
                for v in kws.values():
                    tr_expr(v, cx)      # the arguments must at least be expressions of the language
                return f'(EHookExt {cq(name)})'
            raise EmitterError(f'{w}: hook `{name}` used as a value')
        # self._helper()
        c = chain(n.func)
        if c and len(c) == 2 and c[0] == 'self' and c[1] in cx.helpers and not n.args and not n.keywords:
            return cx.helpers[c[1]]
        # self.<m>.get(k)
        if isinstance(n.func, ast.Attribute) and n.func.attr == 'get' and len(n.args) == 1 and not n.keywords:
            m = self_map(n.func.value, cx)
            if m is not None:
                return f'(EMapGet {cq(m)} {tr_expr(n.args[0], cx)})'
        # Record(kw=..)
        if isinstance(n.func, ast.Name) and n.func.id in RECORDS:
            if n.args:
                raise EmitterError(f'{w}: positional arguments in `{norm(n)}`')
            fs = []
            if sorted(k.arg or '**' for k in n.keywords) != sorted(RECORD_FIELDS.get(n.func.id, ['?'])):
                raise EmitterError(f'{w}: `{n.func.id}(...)` is not given exactly its fields {RECORD_FIELDS.get(n.func.id)}')
            for k in n.keywords:
                if k.arg is None:
                    raise EmitterError(f'{w}: ** in `{norm(n)}`')
                if k.arg in TIME_FIELDS:
                    if not (is_timestamp(k.value) or (isinstance(k.value, ast.Name) and k.value.id in cx.times)):
                        raise EmitterError(f'{w}: field {k.arg} of {n.func.id} is not a timestamp')
                    continue
                fs.append(f'({cq(k.arg)}, {tr_expr(k.value, cx)})')
            return f'(EMk {cq(n.func.id)} {clist(fs)})'
    raise EmitterError(f'{w}: expression `{norm(n)}` not recognised')


def tr_exprfun(fn, cx: Cx) -> str:
    """body of a first-result hook / private helper:  (x = e)* [if (x := e) is None: return None] return e"""
    body = [st for st in strip_doc(fn.body) if not is_logging(st)]
    if not body:
        raise EmitterError(f'{cx.where}: empty body')

    def go(i: int) -> str:
        st = body[i]
        last = i == len(body) - 1
        if isinstance(st, ast.Return):
            if not last or st.value is None:
                raise EmitterError(f'{cx.at(st)}: `{norm(st)}`')
            return tr_expr(st.value, cx)
        if last:
            raise EmitterError(f'{cx.at(st)}: the function does not end with `return <expr>`')
        if isinstance(st, (ast.Assign, ast.AnnAssign)):
            t = st.targets[0] if isinstance(st, ast.Assign) and len(st.targets) == 1 else getattr(st, 'target', None)
            if isinstance(t, ast.Name) and st.value is not None:
                return f'(ELet {cq(t.id)} {tr_expr(st.value, cx)} {go(i + 1)})'
        if isinstance(st, ast.If) and not st.orelse and len(st.body) == 1 and isinstance(st.body[0], ast.Return) \
                and (st.body[0].value is None or (isinstance(st.body[0].value, ast.Constant) and st.body[0].value.value is None)):
            t = st.test
            if isinstance(t, ast.Compare) and len(t.ops) == 1 and isinstance(t.ops[0], ast.Is) \
                    and isinstance(t.comparators[0], ast.Constant) and t.comparators[0].value is None \
                    and isinstance(t.left, ast.NamedExpr) and isinstance(t.left.target, ast.Name):
                return f'(EIfNone {cq(t.left.target.id)} {tr_expr(t.left.value, cx)} {go(i + 1)})'
        raise EmitterError(f'{cx.at(st)}: statement `{norm(st).splitlines()[0]}` not recognised in a first-result hook')

    return go(0)


# ---------------------------------------------------------------- statements

LOG_LEVELS = {'debug', 'info', 'warning', 'error', 'exception', 'critical'}
IMPURE = (ast.Call, ast.NamedExpr, ast.Await, ast.Yield, ast.YieldFrom, ast.Lambda, ast.ListComp, ast.SetComp, ast.DictComp,
          ast.GeneratorExp)


def pure_args(call) -> bool:
    """the arguments of a call contain no Call / NamedExpr / Await / Yield / comprehension"""
    for a in list(call.args) + [k.value for k in call.keywords]:
        if any(isinstance(n, IMPURE) for n in ast.walk(a)):
            return False
    return True


def is_logging(st) -> bool:
    """`logger.<level>(<pure>)`, `self._logger.<level>(<pure>)`, `logger = getLogger(<pure>)`"""
    if isinstance(st, ast.Expr) and isinstance(st.value, ast.Call):
        c = chain(st.value.func)
        if c and c[-1] in LOG_LEVELS and c[:-1] in (['logger'], ['self', '_logger']):
            return pure_args(st.value)
        return False
    if isinstance(st, ast.Assign) and len(st.targets) == 1 and is_name(st.targets[0], 'logger'):
        return isinstance(st.value, ast.Call) and is_name(st.value.func, 'getLogger') and pure_args(st.value)
    return False


def ignorable(st, cx: Cx) -> bool:
    """what may be dropped without a trace: logging with pure arguments, `pass`, a bare annotation"""
    if is_logging(st) or isinstance(st, ast.Pass):
        return True
    if isinstance(st, ast.AnnAssign) and st.value is None and isinstance(st.target, ast.Name):
        return True
    return False


# calls into machinery that is not translated, recognised by exact shape (normalised source) per function
EXT_SHAPES = {
    'TaskAndThreadKeeper._on_start': {
        'if current is self._main_thread:\n    self._to_end = self._main_thread\nelse:\n    self._callback.register(current)': 'done_callback_register',
        'self._counter()': 'thread_task_id_composer',
    },
}


def tr_body(body, cx: Cx, top: bool = False) -> str:
    body = strip_doc(body)
    out = []
    for i, st in enumerate(body):
        out.append(tr_stmt(st, cx, last=top and i == len(body) - 1))
    return seq(out)


def tr_args(kws: dict, cx: Cx) -> str:
    return clist([f'({cq(k)}, {tr_expr(v, cx)})' for k, v in kws.items()])


def counter_of(n, cx: Cx):
    if isinstance(n, ast.Call) and not n.args and not n.keywords:
        c = chain(n.func)
        if c and tuple(c) in cx.counters:
            return cx.counters[tuple(c)]
    return None


def tr_with_item(item, cx: Cx, inner: str, st) -> str:
    e, var = item.context_expr, item.optional_vars
    if var is not None:
        raise EmitterError(f'{cx.at(st)}: `with ... as {norm(var)}`')
    ctxvar = None
    if isinstance(e, ast.NamedExpr):
        if not isinstance(e.target, ast.Name):
            raise EmitterError(f'{cx.at(st)}: `{norm(e)}`')
        ctxvar, e = e.target.id, e.value
    hc = hook_call(e, cx, 'with_')
    if hc is not None:
        name, kws = hc
        if name not in WITH_HOOKS:
            raise EmitterError(f'{cx.at(st)}: context-manager hook `{name}` is not tracked')
        if ctxvar:
            cx.ctxvars.add(ctxvar)
        cv = f'(Some {cq(ctxvar)})' if ctxvar else 'None'
        return f'(SWithHook {cq(name)} {tr_args(kws, cx)} {cv} {inner})'
    if ctxvar:
        raise EmitterError(f'{cx.at(st)}: `{norm(item.context_expr)}`')
    if isinstance(e, ast.Call) and is_name(e.func, 'catch') and len(e.args) == 1 and not e.keywords and isinstance(e.args[0], ast.Dict):
        for k, v in zip(e.args[0].keys, e.args[0].values):
            if not (isinstance(k, ast.Name) and k.id == 'KeyboardInterrupt' and is_name(v, '_keyboard_interrupt')):
                raise EmitterError(f'{cx.at(st)}: catch() of `{norm(k)}: {norm(v)}`')
        return f'(SWithOpaque {inner})'
    c = chain(e.func) if isinstance(e, ast.Call) else None
    if c == ['self', '_cmdloop_hook'] and not e.args and not e.keywords:
        return f'(SWithFun "cmdloop_hook" {inner})'
    raise EmitterError(f'{cx.at(st)}: `with {norm(item.context_expr)}` not recognised')


def tr_stmt(st, cx: Cx, last: bool = False) -> str:
    w = cx.at(st)
    if is_logging(st):
        return ''
    if isinstance(st, ast.Expr) and isinstance(st.value, ast.Constant) and isinstance(st.value.value, str):
        return ''
    # ---- control
    if isinstance(st, ast.Try):
        if st.orelse:
            raise EmitterError(f'{w}: try/else')
        if st.finalbody and not st.handlers:
            return f'(STry {tr_body(st.body, cx)} {tr_body(st.finalbody, cx)})'
        if len(st.handlers) == 1 and not st.finalbody:
            h = st.handlers[0]
            if not (isinstance(h.type, ast.Name) and h.name is None and all(is_logging(x) for x in h.body)):
                raise EmitterError(f'{w}: except clause other than `except <Name>: <logging>`')
            return f'(STryExcept {tr_body(st.body, cx)} {cq(h.type.id)})'
        raise EmitterError(f'{w}: try statement of an unsupported shape')
    if isinstance(st, ast.With):
        for item in st.items:
            if isinstance(item.context_expr, ast.NamedExpr) and isinstance(item.context_expr.target, ast.Name):
                cx.ctxvars.add(item.context_expr.target.id)
        inner = tr_body(st.body, cx)
        for item in reversed(st.items):
            inner = tr_with_item(item, cx, inner, st)
        return inner
    ext = EXT_SHAPES.get(cx.where, {}).get(norm(st))
    if ext:
        return f'(SExt {cq(ext)})'
    if isinstance(st, ast.If):
        return f'(SIf {tr_expr(st.test, cx)} {tr_body(st.body, cx)} {tr_body(st.orelse, cx)})'
    if isinstance(st, ast.Assert):
        if st.msg is not None and any(isinstance(n, IMPURE) for n in ast.walk(st.msg)):
            raise EmitterError(f'{w}: assert message `{norm(st.msg)}`')
        t = st.test
        if isinstance(t, ast.NamedExpr) and isinstance(t.target, ast.Name):
            # `assert (x := e)`: the binding, then the test
            return seq([f'(SLet {cq(t.target.id)} {tr_expr(t.value, cx)})', f'(SAssertTrue (EVar {cq(t.target.id)}))'])
        if isinstance(t, ast.Compare) and len(t.ops) == 1 and isinstance(t.ops[0], ast.Eq):
            return f'(SAssertEq {tr_expr(t.left, cx)} {tr_expr(t.comparators[0], cx)})'
        return f'(SAssertTrue {tr_expr(t, cx)})'
    if isinstance(st, ast.Raise):
        if st.exc is None:
            raise EmitterError(f'{w}: bare raise')
        e = st.exc.func if isinstance(st.exc, ast.Call) else st.exc
        if not isinstance(e, ast.Name):
            raise EmitterError(f'{w}: `{norm(st)}`')
        return f'(SRaise {cq(e.id)})'
    if isinstance(st, ast.Return):
        if st.value is None or (isinstance(st.value, ast.Constant) and st.value.value is None):
            if last:
                return ''
            raise EmitterError(f'{w}: early return')
        hc = hook_call(st.value, cx, 'with_')
        if hc is not None:
            name, kws = hc
            if kws or name not in WITH_HOOKS or not last:
                raise EmitterError(f'{w}: `{norm(st)}`')
            return f'(SReturnWith {cq(name)})'
        if last and isinstance(st.value, ast.Name):
            return ''       # the value goes back to Pdb (the command just read), not into the stream
        raise EmitterError(f'{w}: `{norm(st)}` not recognised')
    if isinstance(st, ast.FunctionDef):
        # a handler given to catch(): runs only when an exception is raised
        if cx.where.endswith('_context') and st.name == '_keyboard_interrupt' and not st.decorator_list \
                and [norm(x) for x in strip_doc(st.body)] == ['nonlocal keyboard_interrupt_raised', 'keyboard_interrupt_raised = True']:
            return ''        # pinned: it only records that KeyboardInterrupt passed (runs on that exception only)
        raise EmitterError(f'{w}: nested function `{st.name}`')
    if isinstance(st, ast.Delete):
        if len(st.targets) == 1 and isinstance(st.targets[0], ast.Subscript):
            m = self_map(st.targets[0].value, cx)
            if m is not None:
                return f'(SMapDel {cq(m)} {tr_expr(st.targets[0].slice, cx)})'
        raise EmitterError(f'{w}: `{norm(st)}`')
    # ---- expression statements
    if isinstance(st, ast.Expr):
        v = st.value
        if isinstance(v, ast.Yield):
            if v.value is not None:
                raise EmitterError(f'{w}: `{norm(st)}` yields a value')
            return '(SYield None)'
        if isinstance(v, ast.Call):
            c = chain(v.func)
            # queue_out.put(e)
            if cx.queue and c == cx.queue + ['put']:
                if len(v.args) != 1 or v.keywords:
                    raise EmitterError(f'{w}: `{norm(st)}`')
                return f'(SPut {tr_expr(v.args[0], cx)})'
            hc = hook_call(v, cx, 'hook')
            if hc is not None:
                name, kws = hc
                if name in PROC_HOOKS:
                    return f'(SCallHook {cq(name)} {tr_args(kws, cx)})'
                raise EmitterError(f'{w}: hook call `{norm(st)}` is not tracked')
            # ctx.gen.send(e)
            if c and len(c) == 3 and c[1:] == ['gen', 'send'] and c[0] in cx.ctxvars and len(v.args) == 1 and not v.keywords:
                return f'(SSend {cq(c[0])} {tr_expr(v.args[0], cx)})'
            # super().cmdloop(...)
            if isinstance(v.func, ast.Attribute) and v.func.attr == 'cmdloop' and isinstance(v.func.value, ast.Call) \
                    and is_name(v.func.value.func, 'super') and cx.where.endswith('CustomizedPdb.cmdloop'):
                return 'SBody'
            # self.<m>.add(k) / remove(k)
            if isinstance(v.func, ast.Attribute) and v.func.attr in ('add', 'remove', 'discard') and len(v.args) == 1 and not v.keywords:
                m = self_map(v.func.value, cx)
                if m is not None:
                    if v.func.attr == 'discard':
                        raise EmitterError(f'{w}: `{norm(st)}` (discard)')
                    ctor = 'SSetAdd' if v.func.attr == 'add' else 'SSetRemove'
                    return f'({ctor} {cq(m)} {tr_expr(v.args[0], cx)})'
            # self._private(args)
            if c and len(c) == 2 and c[0] == 'self' and c[1] in getattr(cx, 'procs', ()) and not v.keywords:
                return f'(SCall {cq(cx.attr(c[1]))} {clist([tr_expr(a, cx) for a in v.args])})'
    # ---- assignments
    if isinstance(st, (ast.Assign, ast.AnnAssign)):
        if isinstance(st, ast.Assign):
            if len(st.targets) != 1:
                raise EmitterError(f'{w}: multiple assignment')
            t, v = st.targets[0], st.value
        else:
            t, v = st.target, st.value
            if v is None:
                return ''
        if isinstance(t, ast.Name):
            if is_timestamp(v):
                cx.times.add(t.id)
                return ''
            cx.times.discard(t.id)
            if isinstance(v, ast.Yield):
                if v.value is not None:
                    raise EmitterError(f'{w}: `{norm(st)}` yields a value')
                return f'(SYield (Some {cq(t.id)}))'
            ct = counter_of(v, cx)
            if ct:
                return f'(SNext {cq(t.id)} {ct})'
            return f'(SLet {cq(t.id)} {tr_expr(v, cx)})'
        if isinstance(t, ast.Subscript):
            m = self_map(t.value, cx)
            if m is not None:
                return f'(SMapSet {cq(m)} {tr_expr(t.slice, cx)} {tr_expr(v, cx)})'
        if isinstance(t, ast.Attribute) and is_name(t.value, 'self'):
            if t.attr in cx.untracked:
                raise EmitterError(f'{w}: `{norm(st)}` (untranslated machinery outside the recognised shapes)')
            if t.attr in cx.maps or [t.attr] == cx.hook[1:] or (cx.queue and t.attr == cx.queue[-1]) or t.attr == cx.run_no:
                raise EmitterError(f'{w}: `{norm(st)}` rebinds a tracked attribute')
            return f'(SSetAttr {cq(cx.attr(t.attr))} {tr_expr(v, cx)})'
        raise EmitterError(f'{w}: assignment `{norm(st)}` not recognised')
    if ignorable(st, cx):
        return ''
    raise EmitterError(f'{w}: statement `{norm(st).splitlines()[0]}` not recognised')


# ---------------------------------------------------------------- class-level analysis

def init_maps(cls, what: str) -> tuple[set[str], dict]:
    """__init__: which attributes are dicts/sets, which are counters"""
    maps, counters = set(), {}
    inits = [n for n in cls.body if isinstance(n, ast.FunctionDef) and n.name == '__init__']
    for f in inits:
        for st in strip_doc(f.body):
            if isinstance(st, (ast.Assign, ast.AnnAssign)):
                t = st.targets[0] if isinstance(st, ast.Assign) else st.target
                v = st.value
                if isinstance(t, ast.Attribute) and is_name(t.value, 'self') and isinstance(v, ast.Call):
                    base = subscript_base(v.func)
                    if base in MAP_CTORS:
                        if v.args or v.keywords:
                            raise EmitterError(f'{what}.__init__: `{norm(st)}` is not created empty')
                        maps.add(t.attr)
                    elif base in COUNTER_CTORS:
                        counters[t.attr] = (COUNTER_CTORS[base], v)
    return maps, counters


def hookimpl_fn(cls, name: str, what: str, gen: bool):
    f = find(cls.body, ast.FunctionDef, name, what)
    want = ['hookimpl', 'contextmanager'] if gen else ['hookimpl']
    if decos(f) != want:
        raise EmitterError(f'{what}.{name}: decorators {decos(f)}, expected {want}')
    return f


def check_init(cls, what: str, want: dict, ps: list[str], extra: tuple = ()):
    """the hookimpl `init`: exactly the bindings self.<attr> = <parameter or attribute chain of one> that are wanted
    (plus the statements listed in `extra`, by normalised text); nothing else happens there"""
    f = find(cls.body, ast.FunctionDef, 'init', what)
    if decos(f) != ['hookimpl'] or params(f) != ps:
        raise EmitterError(f'{what}.init: decorators/parameters')
    got = {}
    for st in strip_doc(f.body):
        if norm(st) in extra:
            continue
        if isinstance(st, ast.Assign) and len(st.targets) == 1 and isinstance(st.targets[0], ast.Attribute) and is_name(st.targets[0].value, 'self'):
            a = st.targets[0].attr
            if a in got or a not in want or chain(st.value) != want[a]:
                raise EmitterError(f'{what}.init:{st.lineno}: `{norm(st)}` not expected')
            got[a] = st.value
            continue
        raise EmitterError(f'{what}.init:{st.lineno}: statement `{norm(st).splitlines()[0]}` not expected')
    for a in want:
        if a not in got:
            raise EmitterError(f'{what}.init: self.{a} is not bound')
    return f, got


def assigned_attrs_elsewhere(cls, attrs: set[str], allowed: set[str], what: str):
    """tracked attributes are (re)bound only in __init__/init"""
    for f in cls.body:
        if isinstance(f, ast.FunctionDef) and f.name not in allowed:
            for n in ast.walk(f):
                if isinstance(n, (ast.Assign, ast.AnnAssign, ast.AugAssign)):
                    ts = n.targets if isinstance(n, ast.Assign) else [n.target]
                    for t in ts:
                        if isinstance(t, ast.Attribute) and is_name(t.value, 'self') and t.attr in attrs:
                            raise EmitterError(f'{what}.{f.name}:{n.lineno}: rebinds self.{t.attr}')


def check_class(cls, what: str, bases=()):
    if [norm(b) for b in cls.bases] != list(bases) or cls.keywords or cls.decorator_list:
        raise EmitterError(f'{what}: class bases / keywords / decorators other than {list(bases)}')


def class_members(cls, what: str, allowed: set[str]) -> dict:
    """the class body is a docstring and the expected `def`s, each at most once: no class-level attributes,
    no special methods, no further hook implementations"""
    members = {}
    for st in strip_doc(cls.body):
        if isinstance(st, ast.FunctionDef) and st.name in allowed and st.name not in members:
            members[st.name] = st
        else:
            raise EmitterError(f'{what}:{getattr(st, "lineno", "?")}: class member `{norm(st).splitlines()[0]}` not expected')
    return members


def check_module(tree, rel: str, assigns: dict | None = None):
    """module level: imports (no *), def, class, docstring, and the listed plain assignments; nothing is defined or
    imported twice (no rebinding / monkeypatching of a translated name)"""
    assigns = assigns or {}
    seen: set[str] = set()

    def add(name, st):
        if name in seen:
            raise EmitterError(f'{rel}:{st.lineno}: `{name}` is bound twice at module level')
        seen.add(name)
    for st in strip_doc(tree.body):
        if isinstance(st, ast.Import):
            for a in st.names:
                add((a.asname or a.name).split('.')[0], st) if (a.asname or a.name).split('.')[0] not in seen else None
        elif isinstance(st, ast.ImportFrom):
            for a in st.names:
                if a.name == '*':
                    raise EmitterError(f'{rel}:{st.lineno}: star import')
                add(a.asname or a.name, st)
        elif isinstance(st, (ast.FunctionDef, ast.ClassDef)):
            add(st.name, st)
        elif isinstance(st, ast.Assign) and len(st.targets) == 1 and isinstance(st.targets[0], ast.Name) \
                and assigns.get(st.targets[0].id) == norm(st.value):
            add(st.targets[0].id, st)
        else:
            raise EmitterError(f'{rel}:{getattr(st, "lineno", "?")}: module-level statement `{norm(st).splitlines()[0]}` not expected')


def check_ctor_init(f, what: str):
    """__init__(self): only `self.x = <empty dict/set ctor>()`, a counter ctor, ThreadTaskIdComposer(), None, getLogger(__name__)"""
    if params(f) or f.decorator_list:
        raise EmitterError(f'{what}.__init__: parameters/decorators')
    for st in strip_doc(f.body):
        ok = False
        if isinstance(st, (ast.Assign, ast.AnnAssign)):
            t = st.targets[0] if isinstance(st, ast.Assign) and len(st.targets) == 1 else getattr(st, 'target', None)
            v = st.value
            if isinstance(t, ast.Attribute) and is_name(t.value, 'self') and v is not None:
                if isinstance(v, ast.Constant) and v.value is None:
                    ok = True
                elif isinstance(v, ast.Call) and not v.keywords:
                    base = subscript_base(v.func)
                    if base in MAP_CTORS and not v.args:
                        ok = True
                    elif base in COUNTER_CTORS and all(isinstance(a, ast.Constant) for a in v.args):
                        ok = True
                    elif base == 'ThreadTaskIdComposer' and not v.args:
                        ok = True
                    elif base == 'getLogger' and [norm(a) for a in v.args] == ['__name__']:
                        ok = True
        if not ok:
            raise EmitterError(f'{what}.__init__:{st.lineno}: statement `{norm(st).splitlines()[0]}` not expected')


def check_siblings(members: dict, names, forbidden: set[str], what: str):
    """methods that are not translated must not mention the tracked dicts / sets / counters / queue"""
    for n in names:
        if n in members:
            bad = idents(members[n]) & forbidden
            if bad:
                raise EmitterError(f'{what}.{n}: untranslated method mentions {sorted(bad)}')


def no_decorators(fn, what: str):
    if fn.decorator_list:
        raise EmitterError(f'{what}: decorators')


def body_shapes(fn, what: str, allowed: list[str], skip=()):
    """every statement of the body (docstring and the nested defs in `skip` apart) is one of the given shapes"""
    for st in strip_doc(fn.body):
        if isinstance(st, ast.FunctionDef) and st.name in skip:
            continue
        if norm(st) not in allowed:
            raise EmitterError(f'{what}:{st.lineno}: statement `{norm(st).splitlines()[0]}` not expected')


def fun(ps: list[str], body: str) -> str:
    return f'(mkF {clist([cq(p) for p in ps])}\n    {body})'


# ---------------------------------------------------------------- the files

def parse(repo: Path, rel: str):
    p = repo / rel
    if not p.exists():
        raise EmitterError(f'{p} not found')
    return ast.parse(p.read_text())


def tr_repeater(tree) -> dict:
    check_module(tree, SRC_REPEAT)
    cls = find(tree.body, ast.ClassDef, 'Repeater', SRC_REPEAT)
    check_class(cls, 'Repeater')
    check_init(cls, 'Repeater', {'_hook': ['hook'], '_run_no': ['run_arg', 'run_no'], '_queue_out': ['queue_out']},
               ['hook', 'run_arg', 'queue_out'])
    assigned_attrs_elsewhere(cls, {'_hook', '_run_no', '_queue_out'}, {'init'}, 'Repeater')
    out = {}
    spec = {'on_start_trace': (False, ['trace_no']), 'on_end_trace': (False, ['trace_no']),
            'on_trace_call': (True, ['trace_call_info']), 'on_cmdloop': (True, []),
            'on_prompt': (True, ['prompt_no', 'text']), 'on_write_stdout': (False, ['trace_no', 'line'])}
    seen = set()
    for st in strip_doc(cls.body):
        if isinstance(st, ast.FunctionDef) and st.name == 'init':
            continue
        if isinstance(st, ast.FunctionDef) and st.name in spec:
            gen, ps = spec[st.name]
            f = hookimpl_fn(cls, st.name, 'Repeater', gen)
            if params(f) != ps:
                raise EmitterError(f'Repeater.{st.name}: parameters {params(f)}')
            cx = Cx(f'Repeater.{st.name}', 'Repeater', ['self', '_hook'], run_no='_run_no', queue=['self', '_queue_out'])
            out[f'Repeater.{st.name}'] = fun(ps, tr_body(f.body, cx, top=True))
            seen.add(st.name)
            continue
        raise EmitterError(f'Repeater:{getattr(st, "lineno", "?")}: member `{norm(st).splitlines()[0]}` not recognised')
    if seen != set(spec):
        raise EmitterError(f'Repeater: missing hooks {sorted(set(spec) - seen)}')
    return out


def tr_local(tree) -> dict:
    res = {}
    check_module(tree, SRC_LOCAL)
    # ---- Factory / _factory / _context
    fac = find(tree.body, ast.FunctionDef, 'Factory', SRC_LOCAL)
    if params(fac) != ['hook']:
        raise EmitterError('local_.Factory: parameters')
    no_decorators(fac, 'local_.Factory')
    inner = find(fac.body, ast.FunctionDef, '_factory', 'local_.Factory')
    if params(inner):
        raise EmitterError('local_._factory: parameters')
    no_decorators(inner, 'local_._factory')
    ctx = find(inner.body, ast.FunctionDef, '_context', 'local_.Factory._factory')
    counter_line = 'trace_call_no_counter = TraceCallNoCounter()'
    body_shapes(fac, 'local_.Factory', [counter_line, 'return _factory'], skip=('_factory',))
    body_shapes(inner, 'local_._factory', ['trace = hook.hook.create_local_trace_func()', counter_line,
                                           'return WithContext(trace, context=_context)'], skip=('_context',))
    if decos(ctx) != ['contextmanager'] or params(ctx) != ['frame', 'event', 'arg']:
        raise EmitterError('local_._context: decorators/parameters')
    # where the trace-call counter object is created
    scope = None
    cname = None
    for level, body, sc in (('Factory', fac.body, 'PerRun'), ('_factory', inner.body, 'PerTrace'), ('_context', ctx.body, None)):
        for st in body:
            if isinstance(st, (ast.Assign, ast.AnnAssign)):
                v = st.value
                if isinstance(v, ast.Call) and isinstance(v.func, ast.Name) and v.func.id in COUNTER_CTORS:
                    if COUNTER_CTORS[v.func.id] != 'CCall' or scope is not None or sc is None:
                        raise EmitterError(f'local_.{level}:{st.lineno}: counter `{norm(st)}` created in an unsupported place')
                    t = st.targets[0] if isinstance(st, ast.Assign) else st.target
                    if not isinstance(t, ast.Name):
                        raise EmitterError(f'local_.{level}:{st.lineno}: `{norm(st)}`')
                    scope, cname, cstart = sc, t.id, v
    if scope is None:
        raise EmitterError('local_.Factory: the trace-call counter is not created')
    res['ccall'] = (scope, cstart)
    # Factory returns _factory; _factory returns WithContext(trace, context=_context); trace = create_local_trace_func()
    if not (isinstance(fac.body[-1], ast.Return) and is_name(fac.body[-1].value, '_factory')):
        raise EmitterError('local_.Factory: does not return _factory')
    r = inner.body[-1]
    ok = isinstance(r, ast.Return) and isinstance(r.value, ast.Call) and is_name(r.value.func, 'WithContext') and len(r.value.args) == 1 \
        and [k.arg for k in r.value.keywords] == ['context'] and is_name(r.value.keywords[0].value, '_context')
    if not ok:
        raise EmitterError('local_._factory: does not return WithContext(trace, context=_context)')
    cx = Cx('local_._context', None, ['hook'], counters={(cname,): 'CCall'})
    res['funs'] = {'_context': fun(['frame', 'event', 'arg'], tr_body(ctx.body, cx, top=True))}
    # LocalTraceFunc.init: factory = Factory(hook) once per run, the per-trace map is defaultdict(factory)
    ltf = find(tree.body, ast.ClassDef, 'LocalTraceFunc', SRC_LOCAL)
    check_class(ltf, 'LocalTraceFunc')
    lm = class_members(ltf, 'LocalTraceFunc', {'init', 'local_trace_func', 'clean_exception'})
    check_init(ltf, 'LocalTraceFunc', {'_hook': ['hook']}, ['hook'],
               extra=('factory = Factory(hook)', 'self._map = defaultdict[TraceNo, TraceFunction](factory)'))
    check_siblings(lm, ['clean_exception'], {'_map', '_hook', 'Factory', 'put'}, 'LocalTraceFunc')
    ini = find(ltf.body, ast.FunctionDef, 'init', 'LocalTraceFunc')
    calls = [n for n in ast.walk(ini) if isinstance(n, ast.Call) and is_name(n.func, 'Factory')]
    if len(calls) != 1:
        raise EmitterError('LocalTraceFunc.init: Factory(hook) is not called exactly once')
    for f in ltf.body:
        if isinstance(f, ast.FunctionDef) and f.name != 'init' and any(isinstance(n, ast.Name) and n.id == 'Factory' for n in ast.walk(f)):
            raise EmitterError(f'LocalTraceFunc.{f.name}: calls Factory')
    ltfn = find(ltf.body, ast.FunctionDef, 'local_trace_func', 'LocalTraceFunc')
    want = ['trace_no = self._hook.hook.current_trace_no()', 'local_trace_func = self._map[trace_no]', 'return local_trace_func(frame, event, arg)']
    if [norm(s) for s in strip_doc(ltfn.body)] != want:
        # the per-trace Pdb/trace function is looked up by the CURRENT trace number
        raise EmitterError('LocalTraceFunc.local_trace_func: not `self._map[current_trace_no()](frame, event, arg)`')
    # ---- TraceCallHandler
    tch = find(tree.body, ast.ClassDef, 'TraceCallHandler', SRC_LOCAL)
    check_class(tch, 'TraceCallHandler')
    tm = class_members(tch, 'TraceCallHandler', {'__init__', 'init', '_current_trace_no', '_current_trace_call_info', 'on_trace_call',
                                                 'is_on_trace_call', 'current_trace_call_no', 'current_trace_args',
                                                 'current_trace_call_info'})
    check_ctor_init(tm['__init__'], 'TraceCallHandler') if '__init__' in tm else None
    maps, counters = init_maps(tch, 'TraceCallHandler')
    if counters:
        raise EmitterError('TraceCallHandler: unexpected counter')
    check_init(tch, 'TraceCallHandler', {'_hook': ['hook']}, ['hook'])
    check_siblings(tm, ['current_trace_args'], set(maps) | {'put', '_queue_out'}, 'TraceCallHandler')
    assigned_attrs_elsewhere(tch, maps | {'_hook'}, {'__init__', 'init'}, 'TraceCallHandler')
    helpers = {}
    members = {st.name: st for st in tch.body if isinstance(st, ast.FunctionDef)}
    # private helpers (no parameters, an expression): inlined where they are called
    for name in ('_current_trace_no', '_current_trace_call_info'):
        if name in members:
            f = members[name]
            if params(f) or f.decorator_list:
                raise EmitterError(f'TraceCallHandler.{name}: parameters/decorators')
            cx = Cx(f'TraceCallHandler.{name}', 'TraceCallHandler', ['self', '_hook'], maps=maps, helpers=dict(helpers))
            helpers[name] = tr_exprfun(f, cx)
    exprs = {}
    for name, f in members.items():
        if name in ('__init__', 'init') or name in helpers:
            continue
        if name == 'on_trace_call':
            g = hookimpl_fn(tch, name, 'TraceCallHandler', True)
            if params(g) != ['trace_call_info']:
                raise EmitterError('TraceCallHandler.on_trace_call: parameters')
            cx = Cx('TraceCallHandler.on_trace_call', 'TraceCallHandler', ['self', '_hook'], maps=maps, helpers=helpers)
            res['funs']['TraceCallHandler.on_trace_call'] = fun(['trace_call_info'], tr_body(g.body, cx, top=True))
        elif name in FIRST_TRACKED:
            g = hookimpl_fn(tch, name, 'TraceCallHandler', False)
            if params(g):
                raise EmitterError(f'TraceCallHandler.{name}: parameters')
            cx = Cx(f'TraceCallHandler.{name}', 'TraceCallHandler', ['self', '_hook'], maps=maps, helpers=helpers)
            exprs[name] = tr_exprfun(g, cx)
        elif name == 'current_trace_args':
            continue        # used by the module filter only (C05)
        else:
            raise EmitterError(f'TraceCallHandler.{name}: member not recognised')
    for h in ('is_on_trace_call', 'current_trace_call_no', 'current_trace_call_info'):
        if h not in exprs:
            raise EmitterError(f'TraceCallHandler.{h} missing')
    if 'TraceCallHandler.on_trace_call' not in res['funs']:
        raise EmitterError('TraceCallHandler.on_trace_call missing')
    res['exprs'] = exprs
    return res


def tr_concurrency(tree) -> dict:
    res = {'funs': {}, 'exprs': {}}
    check_module(tree, SRC_CONC)
    # ---- TaskAndThreadKeeper
    kp = find(tree.body, ast.ClassDef, 'TaskAndThreadKeeper', SRC_CONC)
    check_class(kp, 'TaskAndThreadKeeper')
    km = class_members(kp, 'TaskAndThreadKeeper', {'__init__', 'init', 'context', 'filtered', '_on_start', '_on_end',
                                                   'current_thread_no', 'current_task_no'})
    check_ctor_init(km['__init__'], 'TaskAndThreadKeeper') if '__init__' in km else None
    maps, counters = init_maps(kp, 'TaskAndThreadKeeper')
    if counters:
        raise EmitterError('TaskAndThreadKeeper: unexpected counter')
    check_init(kp, 'TaskAndThreadKeeper', {'_hook': ['hook']}, ['hook'])
    check_siblings(km, ['context', 'current_thread_no', 'current_task_no'], set(maps) | {'_hook', 'put', '_queue_out'}, 'TaskAndThreadKeeper')
    assigned_attrs_elsewhere(kp, maps | {'_hook'}, {'__init__', 'init'}, 'TaskAndThreadKeeper')
    untracked = {'_callback', '_main_thread', '_to_end', '_counter', '_logger'}
    members = {st.name: st for st in kp.body if isinstance(st, ast.FunctionDef)}
    for name, ps, deco in (('filtered', [], ['hookimpl']), ('_on_start', ['current'], []), ('_on_end', ['ending'], [])):
        if name not in members:
            raise EmitterError(f'TaskAndThreadKeeper.{name} missing')
        f = members[name]
        if params(f) != ps or decos(f) != deco:
            raise EmitterError(f'TaskAndThreadKeeper.{name}: parameters/decorators')
        cx = Cx(f'TaskAndThreadKeeper.{name}', 'TaskAndThreadKeeper', ['self', '_hook'], maps=maps, untracked=untracked)
        cx.procs = {'_on_start', '_on_end'}
        res['funs'][f'TaskAndThreadKeeper.{name}'] = fun(ps, tr_body(f.body, cx, top=True))
    # the end of a trace is reached through the done-callback (or, for the main thread, at the exit of `context`)
    c = members.get('context')
    if c is None or decos(c) != ['hookimpl', 'contextmanager']:
        raise EmitterError('TaskAndThreadKeeper.context missing')
    src = [norm(n) for n in ast.walk(c) if isinstance(n, (ast.Assign, ast.Expr, ast.If))]
    if not any(s == 'self._callback = ThreadTaskDoneCallback(done=self._on_end)' for s in src):
        raise EmitterError('TaskAndThreadKeeper.context: the done-callback is not ThreadTaskDoneCallback(done=self._on_end)')
    tries = [n for n in c.body if isinstance(n, ast.Try)]
    fin = [norm(s) for t in tries for s in t.finalbody]
    if len(tries) != 1 or 'self._callback.close()' not in fin or not any(s.startswith('if self._to_end:') and 'self._on_end(self._to_end)' in s for s in fin):
        raise EmitterError('TaskAndThreadKeeper.context: finally does not close the callback and end the main thread')
    s_on_start = [norm(n) for n in members['_on_start'].body]
    if not any(s.replace('\n', ' ').split() == 'if current is self._main_thread: self._to_end = self._main_thread else: self._callback.register(current)'.split()
               for s in s_on_start):
        raise EmitterError('TaskAndThreadKeeper._on_start: the thread/task is not registered with the done-callback')
    for name in members:
        if name not in ('__init__', 'init', 'context', 'filtered', '_on_start', '_on_end', 'current_thread_no', 'current_task_no'):
            raise EmitterError(f'TaskAndThreadKeeper.{name}: member not recognised')
    # ---- TaskOrThreadToTraceMapper
    mp = find(tree.body, ast.ClassDef, 'TaskOrThreadToTraceMapper', SRC_CONC)
    check_class(mp, 'TaskOrThreadToTraceMapper')
    mm = class_members(mp, 'TaskOrThreadToTraceMapper', {'__init__', 'init', 'on_start_task_or_thread', 'on_end_task_or_thread',
                                                         'current_trace_no'})
    check_ctor_init(mm['__init__'], 'TaskOrThreadToTraceMapper') if '__init__' in mm else None
    maps, counters = init_maps(mp, 'TaskOrThreadToTraceMapper')
    if len(counters) != 1 or list(counters.values())[0][0] != 'CTrace':
        raise EmitterError('TaskOrThreadToTraceMapper.__init__: expected exactly one TraceNoCounter attribute')
    cattr = list(counters)[0]
    res['ctrace'] = ('PerRun', counters[cattr][1])
    check_init(mp, 'TaskOrThreadToTraceMapper', {'_hook': ['hook']}, ['hook'])
    assigned_attrs_elsewhere(mp, maps | {'_hook', cattr}, {'__init__', 'init'}, 'TaskOrThreadToTraceMapper')
    members = {st.name: st for st in mp.body if isinstance(st, ast.FunctionDef)}
    cn = {('self', cattr): 'CTrace'}
    for name, ps in (('on_start_task_or_thread', []), ('on_end_task_or_thread', ['task_or_thread'])):
        f = hookimpl_fn(mp, name, 'TaskOrThreadToTraceMapper', False)
        if params(f) != ps:
            raise EmitterError(f'TaskOrThreadToTraceMapper.{name}: parameters')
        cx = Cx(f'TaskOrThreadToTraceMapper.{name}', 'TaskOrThreadToTraceMapper', ['self', '_hook'], maps=maps, untracked={'_logger'}, counters=cn)
        res['funs'][f'TaskOrThreadToTraceMapper.{name}'] = fun(ps, tr_body(f.body, cx, top=True))
    f = hookimpl_fn(mp, 'current_trace_no', 'TaskOrThreadToTraceMapper', False)
    cx = Cx('TaskOrThreadToTraceMapper.current_trace_no', 'TaskOrThreadToTraceMapper', ['self', '_hook'], maps=maps, counters=cn)
    res['exprs']['current_trace_no'] = tr_exprfun(f, cx)
    for name in members:
        if name not in ('__init__', 'init', 'on_start_task_or_thread', 'on_end_task_or_thread', 'current_trace_no'):
            raise EmitterError(f'TaskOrThreadToTraceMapper.{name}: member not recognised')
    return res


def tr_factory(tree) -> dict:
    res = {'funs': {}}
    check_module(tree, SRC_FACTORY)
    # CmdloopHook
    ch = find(tree.body, ast.FunctionDef, 'CmdloopHook', SRC_FACTORY)
    if params(ch) != ['hook']:
        raise EmitterError('CmdloopHook: parameters')
    no_decorators(ch, 'CmdloopHook')
    body_shapes(ch, 'CmdloopHook', ['return cmdloop'], skip=('cmdloop',))
    cl = find(ch.body, ast.FunctionDef, 'cmdloop', 'CmdloopHook')
    if params(cl) or cl.decorator_list:
        raise EmitterError('CmdloopHook.cmdloop: parameters/decorators')
    if not (isinstance(ch.body[-1], ast.Return) and is_name(ch.body[-1].value, 'cmdloop')):
        raise EmitterError('CmdloopHook: does not return cmdloop')
    cx = Cx('CmdloopHook.cmdloop', None, ['hook'])
    res['funs']['cmdloop_hook'] = fun([], tr_body(cl.body, cx, top=True))
    # PromptFunc
    pf = find(tree.body, ast.FunctionDef, 'PromptFunc', SRC_FACTORY)
    if params(pf) != ['hook']:
        raise EmitterError('PromptFunc: parameters')
    no_decorators(pf, 'PromptFunc')
    body_shapes(pf, 'PromptFunc', ['counter = PromptNoCounter(1)', 'counter = PromptNoCounter()', 'logger = getLogger(__name__)',
                                   'return _prompt_func'], skip=('_prompt_func',))
    inner = find(pf.body, ast.FunctionDef, '_prompt_func', 'PromptFunc')
    if params(inner) != ['text'] or inner.decorator_list:
        raise EmitterError('PromptFunc._prompt_func: parameters/decorators')
    if not (isinstance(pf.body[-1], ast.Return) and is_name(pf.body[-1].value, '_prompt_func')):
        raise EmitterError('PromptFunc: does not return _prompt_func')
    created = None
    for level, body, sc in (('PromptFunc', pf.body, 'outer'), ('_prompt_func', inner.body, None)):
        for st in body:
            if isinstance(st, (ast.Assign, ast.AnnAssign)) and isinstance(st.value, ast.Call) and isinstance(st.value.func, ast.Name) \
                    and st.value.func.id in COUNTER_CTORS:
                t = st.targets[0] if isinstance(st, ast.Assign) else st.target
                if COUNTER_CTORS[st.value.func.id] != 'CPrompt' or created is not None or sc is None or not isinstance(t, ast.Name):
                    raise EmitterError(f'{level}:{st.lineno}: counter `{norm(st)}` created in an unsupported place')
                created = (t.id, st.value)
    if created is None:
        raise EmitterError('PromptFunc: the prompt counter is not created')
    cx = Cx('PromptFunc._prompt_func', None, ['hook'], counters={(created[0],): 'CPrompt'})
    res['funs']['_prompt_func'] = fun(['text'], tr_body(inner.body, cx, top=True))
    # Factory: PromptFunc / CmdloopHook are called once per run (outer body) or once per trace (_factory)
    fac = find(tree.body, ast.FunctionDef, 'Factory', SRC_FACTORY)
    if params(fac) != ['hook']:
        raise EmitterError('pdb_.Factory: parameters')
    no_decorators(fac, 'pdb_.Factory')
    inner_f = find(fac.body, ast.FunctionDef, '_factory', 'pdb_.Factory')
    if params(inner_f):
        raise EmitterError('pdb_._factory: parameters')
    no_decorators(inner_f, 'pdb_._factory')
    pins = ['cmdloop_hook = CmdloopHook(hook=hook)', 'prompt_func = PromptFunc(hook=hook)']
    body_shapes(fac, 'pdb_.Factory', pins + ['return _factory'], skip=('_factory',))
    body_shapes(inner_f, 'pdb_._factory', pins + ['stdio = StdInOut(prompt_func=prompt_func)',
                                                  'pdb = CustomizedPdb(cmdloop_hook=cmdloop_hook, stdin=stdio, stdout=stdio)',
                                                  'stdio.prompt_end = pdb.prompt', 'return pdb.trace_dispatch'])
    scope = None
    names = {}
    for level, body, sc in (('Factory', fac.body, 'PerRun'), ('_factory', inner_f.body, 'PerTrace')):
        for st in body:
            if isinstance(st, ast.Assign) and len(st.targets) == 1 and isinstance(st.targets[0], ast.Name) and isinstance(st.value, ast.Call) \
                    and isinstance(st.value.func, ast.Name) and st.value.func.id in ('PromptFunc', 'CmdloopHook'):
                if st.value.func.id in names:
                    raise EmitterError(f'pdb_.{level}:{st.lineno}: {st.value.func.id} called twice')
                names[st.value.func.id] = st.targets[0].id
                if st.value.func.id == 'PromptFunc':
                    scope = sc
    if scope is None or 'CmdloopHook' not in names:
        raise EmitterError('pdb_.Factory: PromptFunc / CmdloopHook are not called')
    # they reach the Pdb instance: StdInOut(prompt_func=<p>), CustomizedPdb(cmdloop_hook=<c>, ...)
    ok_p = ok_c = False
    for n in ast.walk(inner_f):
        if isinstance(n, ast.Call) and is_name(n.func, 'StdInOut'):
            ok_p = any(k.arg == 'prompt_func' and is_name(k.value, names['PromptFunc']) for k in n.keywords)
        if isinstance(n, ast.Call) and is_name(n.func, 'CustomizedPdb'):
            ok_c = any(k.arg == 'cmdloop_hook' and is_name(k.value, names['CmdloopHook']) for k in n.keywords)
    if not (ok_p and ok_c):
        raise EmitterError('pdb_._factory: prompt_func / cmdloop_hook are not passed to StdInOut / CustomizedPdb')
    pif = find(tree.body, ast.ClassDef, 'PdbInstanceFactory', SRC_FACTORY)
    check_class(pif, 'PdbInstanceFactory')
    pm = class_members(pif, 'PdbInstanceFactory', {'init', 'create_local_trace_func'})
    check_init(pif, 'PdbInstanceFactory', {}, ['hook'], extra=('self._factory = Factory(hook=hook)',))
    if 'create_local_trace_func' not in pm or decos(pm['create_local_trace_func']) != ['hookimpl'] or params(pm['create_local_trace_func']) \
            or [norm(x) for x in strip_doc(pm['create_local_trace_func'].body)] != ['return self._factory()']:
        raise EmitterError('PdbInstanceFactory.create_local_trace_func: is not `return self._factory()`')
    ini = find(pif.body, ast.FunctionDef, 'init', 'PdbInstanceFactory')
    if len([n for n in ast.walk(ini) if isinstance(n, ast.Call) and is_name(n.func, 'Factory')]) != 1:
        raise EmitterError('PdbInstanceFactory.init: Factory(hook) is not called exactly once')
    for f in pif.body:
        if isinstance(f, ast.FunctionDef) and f.name != 'init' and any(isinstance(n, ast.Name) and n.id == 'Factory' for n in ast.walk(f)):
            raise EmitterError(f'PdbInstanceFactory.{f.name}: calls Factory')
    res['cprompt'] = (scope, created[1])
    return res


def tr_custom(tree) -> dict:
    check_module(tree, SRC_CUSTOM)
    cls = find(tree.body, ast.ClassDef, 'CustomizedPdb', SRC_CUSTOM)
    check_class(cls, 'CustomizedPdb', bases=['Pdb'])
    # no further override of a Pdb / Cmd method (do_*, onecmd, precmd, postcmd, preloop, postloop, interaction ...)
    cm = class_members(cls, 'CustomizedPdb', {'__init__', '_cmdloop', 'cmdloop', 'set_continue'})
    check_siblings(cm, ['set_continue'], {'_cmdloop_hook', 'cmdloop', '_cmdloop'}, 'CustomizedPdb')
    f = find(cls.body, ast.FunctionDef, 'cmdloop', 'CustomizedPdb')
    if params(f, defaults_ok=True) != ['intro'] or f.decorator_list or [norm(d) for d in f.args.defaults] != ['None']:
        raise EmitterError('CustomizedPdb.cmdloop: parameters/defaults/decorators')
    # __init__ stores the hook it is given
    ini = find(cls.body, ast.FunctionDef, '__init__', 'CustomizedPdb')
    if 'self._cmdloop_hook = cmdloop_hook' not in [norm(s) for s in ini.body]:
        raise EmitterError('CustomizedPdb.__init__: self._cmdloop_hook = cmdloop_hook missing')
    assigned_attrs_elsewhere(cls, {'_cmdloop_hook'}, {'__init__'}, 'CustomizedPdb')
    # Pdb's own _cmdloop goes through self.cmdloop()
    if sum(1 for n in ast.walk(ini) if isinstance(n, ast.Attribute) and n.attr == '_cmdloop_hook') != 1:
        raise EmitterError('CustomizedPdb.__init__: self._cmdloop_hook mentioned more than once')
    c2 = find(cls.body, ast.FunctionDef, '_cmdloop', 'CustomizedPdb')
    if params(c2) or c2.decorator_list or [norm(s) for s in strip_doc(c2.body)] != ['self.cmdloop()']:
        raise EmitterError('CustomizedPdb._cmdloop: is not `self.cmdloop()`')
    cx = Cx('CustomizedPdb.cmdloop', 'CustomizedPdb', ['self', '_no_hook_here'])
    return {'CustomizedPdb.cmdloop': fun(['intro'], tr_body(f.body, cx, top=True))}


def tr_count(tree) -> dict:
    """XNoCounter(start=<d>) = CastedCounter(count(start).__next__, X); CastedCounter(src, type_)() = type_(src())"""
    check_module(tree, SRC_COUNT, assigns={'_T': "TypeVar('_T', bound=int)"})
    imp = [a.name for st in tree.body if isinstance(st, ast.ImportFrom) and st.module == 'itertools' for a in st.names]
    if 'count' not in imp:
        raise EmitterError('count.py: `from itertools import count` missing')
    cc = find(tree.body, ast.FunctionDef, 'CastedCounter', SRC_COUNT)
    no_decorators(cc, 'CastedCounter')
    if params(cc, False) != ['src', 'type_']:
        raise EmitterError('CastedCounter: parameters')
    body = strip_doc(cc.body)
    ok = len(body) == 2 and isinstance(body[0], ast.FunctionDef) and not params(body[0], False) \
        and [norm(s) for s in strip_doc(body[0].body)] == ['return type_(src())'] \
        and isinstance(body[1], ast.Return) and is_name(body[1].value, body[0].name)
    if not ok:
        raise EmitterError('CastedCounter: is not `def f(): return type_(src())`; return f')
    out = {}
    for name in COUNTER_CTORS:
        f = find(tree.body, ast.FunctionDef, name, SRC_COUNT)
        no_decorators(f, name)
        if params(f, False, defaults_ok=True) != ['start'] or len(f.args.defaults) != 1 or not isinstance(f.args.defaults[0], ast.Constant) \
                or type(f.args.defaults[0].value) is not int:
            raise EmitterError(f'{name}: parameters/default')
        body = strip_doc(f.body)
        if len(body) != 1 or not isinstance(body[0], ast.Return):
            raise EmitterError(f'{name}: body')
        v = body[0].value
        ok = isinstance(v, ast.Call) and is_name(v.func, 'CastedCounter') and len(v.args) == 2 and not v.keywords \
            and norm(v.args[0]) == 'count(start).__next__' and isinstance(v.args[1], ast.Name)
        if not ok:
            raise EmitterError(f'{name}: is not `return CastedCounter(count(start).__next__, <type>)`')
        out[name] = f.args.defaults[0].value
    return out


def start_of(call, defaults: dict, what: str) -> int:
    name = call.func.id
    if call.keywords and [k.arg for k in call.keywords] != ['start']:
        raise EmitterError(f'{what}: `{norm(call)}`')
    args = list(call.args) + [k.value for k in call.keywords]
    if not args:
        return defaults[name]
    if len(args) == 1 and isinstance(args[0], ast.Constant) and type(args[0].value) is int:
        return args[0].value
    raise EmitterError(f'{what}: start value of `{norm(call)}` is not an integer literal')


def registration(repo: Path, tracked_classes: set[str]) -> tuple[list[str], int, list[str]]:
    tree = parse(repo, SRC_REG)
    check_module(tree, SRC_REG, assigns={'__all__': "['register']"})
    reg = find(tree.body, ast.FunctionDef, 'register', SRC_REG)
    if reg.decorator_list or params(reg, False) != ['hook', 'run_arg']:
        raise EmitterError('register: decorators/parameters')
    order = []

    def walk(body):
        for st in body:
            if isinstance(st, ast.Expr) and isinstance(st.value, ast.Call) and chain(st.value.func) == ['hook', 'register']:
                if len(st.value.args) != 1 or not isinstance(st.value.args[0], ast.Name):
                    raise EmitterError(f'register:{st.lineno}: `{norm(st)}`')
                order.append(st.value.args[0].id)
            elif isinstance(st, ast.If):
                walk(st.body)
                walk(st.orelse)
            elif isinstance(st, ast.Expr) and isinstance(st.value, ast.Constant):
                continue
            else:
                raise EmitterError(f'register:{st.lineno}: statement `{norm(st).splitlines()[0]}` not recognised')
    walk(strip_doc(reg.body))
    tracked = [c for c in order if c in tracked_classes]
    if len(set(tracked)) != len(tracked) or set(tracked) != tracked_classes:
        raise EmitterError(f'register: tracked plugin classes registered {tracked}, expected each of {sorted(tracked_classes)} once')
    # other implementations of the tracked hooks, and other users of the outgoing queue, in nextline/spawned
    others = []
    putters = 0
    for p in sorted((repo / 'nextline/spawned').rglob('*.py')):
        rel = str(p.relative_to(repo))
        try:
            t = ast.parse(p.read_text())
        except SyntaxError as e:
            raise EmitterError(f'{rel}: {e}')
        for n in ast.walk(t):
            if isinstance(n, ast.Call) and isinstance(n.func, ast.Attribute) and n.func.attr in ('put', 'put_nowait') and rel != SRC_REPEAT:
                if 'queue_out' in norm(n.func.value):
                    putters += 1
        if not rel.startswith(PLUG) or rel.endswith('spec.py'):
            continue
        for c in [n for n in ast.walk(t) if isinstance(n, ast.ClassDef)]:
            if c.name in tracked_classes:
                continue
            for f in c.body:
                if isinstance(f, ast.FunctionDef) and f.name in (WITH_HOOKS | PROC_HOOKS | FIRST_TRACKED) and 'hookimpl' in decos(f):
                    if f.name in FIRST_TRACKED or f.name in ('on_trace_call', 'on_prompt'):
                        raise EmitterError(f'{rel}: {c.name}.{f.name} is another implementation of a tracked hook')
                    if idents(c) & {'queue_out', '_queue_out', 'QueueOut'}:
                        raise EmitterError(f'{rel}: {c.name} implements {f.name} and touches the outgoing queue')
                    others.append(f'{c.name}.{f.name}')
    return tracked, putters, others


def record_shapes(repo: Path) -> dict:
    """PIN (shape of the source): the nine child-side event classes of nextline/events.py are plain dataclasses over
    `Event` whose only method is `__post_init__: _assert_naive_datetime(self.<time field>)`, and TraceCallInfo
    (spawned/types.py) derives file_name / line_no / frame_object_id / event from args as Events/Interp.v [field] assumes"""
    RECORD_FIELDS.clear()
    te = parse(repo, SRC_EVENTS)
    base = find(te.body, ast.ClassDef, 'Event', SRC_EVENTS)
    if decos(base) != ['dataclass'] or base.bases or [norm(x) for x in strip_doc(base.body)] != ['pass']:
        raise EmitterError('events.Event: not an empty dataclass')
    fn = find(te.body, ast.FunctionDef, '_assert_naive_datetime', SRC_EVENTS)
    if [norm(x) for x in strip_doc(fn.body)] != ["if is_timezone_aware(dt):\n    raise ValueError(f'Not a timezone-naive object: {dt!r}')"] \
            or fn.decorator_list:
        raise EmitterError('events._assert_naive_datetime: body')
    seen = set()
    for st in te.body:
        if isinstance(st, (ast.ClassDef, ast.FunctionDef)):
            if st.name in seen:
                raise EmitterError(f'{SRC_EVENTS}: `{st.name}` defined twice')
            seen.add(st.name)
        elif isinstance(st, (ast.Assign, ast.AugAssign, ast.Delete)) or (isinstance(st, ast.Expr) and not isinstance(st.value, ast.Constant)):
            raise EmitterError(f'{SRC_EVENTS}:{st.lineno}: module-level statement `{norm(st).splitlines()[0]}`')
    for name in sorted(EVENTS):
        c = find(te.body, ast.ClassDef, name, SRC_EVENTS)
        if decos(c) != ['dataclass'] or [norm(b) for b in c.bases] != ['Event'] or c.keywords:
            raise EmitterError(f'events.{name}: not `@dataclass class {name}(Event)`')
        fields, post = [], None
        for st in strip_doc(c.body):
            if isinstance(st, ast.AnnAssign) and isinstance(st.target, ast.Name) and st.value is None:
                fields.append(st.target.id)
            elif isinstance(st, ast.FunctionDef) and st.name == '__post_init__' and post is None and not st.decorator_list and not params(st):
                post = [norm(x) for x in strip_doc(st.body)]
            else:
                raise EmitterError(f'events.{name}:{st.lineno}: member `{norm(st).splitlines()[0]}` not expected')
        tf = [f for f in fields if f in TIME_FIELDS]
        if len(tf) != 1 or post != [f'_assert_naive_datetime(self.{tf[0]})']:
            raise EmitterError(f'events.{name}: __post_init__ is not `_assert_naive_datetime(self.<time field>)`')
        RECORD_FIELDS[name] = fields
    tt = parse(repo, SRC_TYPES)
    c = find(tt.body, ast.ClassDef, 'TraceCallInfo', SRC_TYPES)
    want = ['trace_call_no: TraceCallNo', 'args: TraceArgs', 'file_name: str = field(init=False)', 'line_no: int = field(init=False)',
            'frame_object_id: int = field(init=False)', 'event: str = field(init=False)',
            'def __post_init__(self) -> None:\n    frame, event, _ = self.args\n    self.file_name = to_canonic_path(frame.f_code.co_filename)\n'
            '    self.line_no = frame.f_lineno\n    self.frame_object_id = id(frame)\n    self.event = event']
    if decos(c) != ['dataclass'] or c.bases or c.keywords or [norm(x) for x in strip_doc(c.body)] != want:
        raise EmitterError('types.TraceCallInfo: fields / __post_init__ are not the ones Events/Interp.v assumes')
    RECORD_FIELDS['TraceCallInfo'] = ['trace_call_no', 'args']
    return dict(RECORD_FIELDS)


# ---------------------------------------------------------------- all of it

def skeleton(repo: Path) -> dict:
    repo = Path(repo)
    funs: dict[str, str] = {}
    exprs: dict[str, str] = {}
    records = record_shapes(repo)
    funs.update(tr_repeater(parse(repo, SRC_REPEAT)))
    loc = tr_local(parse(repo, SRC_LOCAL))
    funs.update(loc['funs'])
    exprs.update(loc['exprs'])
    con = tr_concurrency(parse(repo, SRC_CONC))
    funs.update(con['funs'])
    exprs.update(con['exprs'])
    fac = tr_factory(parse(repo, SRC_FACTORY))
    funs.update(fac['funs'])
    funs.update(tr_custom(parse(repo, SRC_CUSTOM)))
    defaults = tr_count(parse(repo, SRC_COUNT))
    counters = {
        'CTrace': (con['ctrace'][0], start_of(con['ctrace'][1], defaults, 'TaskOrThreadToTraceMapper')),
        'CCall': (loc['ccall'][0], start_of(loc['ccall'][1], defaults, 'local_.Factory')),
        'CPrompt': (fac['cprompt'][0], start_of(fac['cprompt'][1], defaults, 'PromptFunc')),
    }
    tracked_classes = {'Repeater', 'TraceCallHandler', 'TaskOrThreadToTraceMapper', 'TaskAndThreadKeeper'}
    order, putters, others = registration(repo, tracked_classes)
    call_order = order[::-1]        # pluggy calls the implementations in LIFO order of registration
    with_impls, call_impls = {}, {}
    for h in sorted(WITH_HOOKS):
        with_impls[h] = [f'{c}.{h}' for c in call_order if f'{c}.{h}' in funs]
    for h in sorted(PROC_HOOKS):
        call_impls[h] = [f'{c}.{h}' for c in call_order if f'{c}.{h}' in funs]
    return {'funs': funs, 'exprs': exprs, 'counters': counters, 'with_impls': with_impls, 'call_impls': call_impls,
            'putters': putters, 'others': sorted(others), 'defaults': defaults, 'records': records}


def ident_of(name: str) -> str:
    return 'f_' + name.replace('.', '_').strip('_').replace('__', '_')


def translate(repo: Path) -> str:
    sk = skeleton(Path(repo))
    L = [
        '(** GENERATED by translate/emitter_skeleton.py (ast, CPython %d.%d) -- do not edit.' % sys.version_info[:2],
        f'    From {SRC_REPEAT}, {SRC_LOCAL}, {SRC_CONC},',
        f'    {SRC_FACTORY}, {SRC_CUSTOM}, {SRC_COUNT}, {SRC_REG}.',
        '    Terms of Events/Syntax.v; interpreted and tied to Events/Emitter.v by Events/Tie.v. *)',
        'From Coq Require Import List String ZArith.',
        'From NL Require Import Events.Syntax.',
        'Import ListNotations.',
        'Local Open Scope string_scope.',
        '',
        '(** the counters: where the object is created, its first value (nextline/count.py: itertools.count(start).__next__) *)',
    ]
    for c in ('CTrace', 'CCall', 'CPrompt'):
        L.append(f'Definition decl_{c} : scope * Z := ({sk["counters"][c][0]}, {sk["counters"][c][1]}%Z).')
    L += ['Definition counter_decl (c : ctype) : scope * Z :=',
          '  match c with CTrace => decl_CTrace | CCall => decl_CCall | CPrompt => decl_CPrompt end.',
          'Definition counter_step : Z := 1%Z.     (* itertools.count *)',
          '']
    L.append('(** the translated functions *)')
    for name, body in sk['funs'].items():
        L.append(f'Definition {ident_of(name)} : func :=\n  {body}.')
        L.append('')
    L.append('Definition funs : list (string * func) :=')
    L.append('  ' + clist([f'({cq(n)}, {ident_of(n)})' for n in sk['funs']]) + '.')
    L.append('')
    L.append('(** first-result hooks implemented in the tracked files, as expressions *)')
    for name, e in sk['exprs'].items():
        L.append(f'Definition h_{name} : expr :=\n  {e}.')
    L.append('Definition hook_exprs : list (string * expr) :=')
    L.append('  ' + clist([f'({cq(n)}, h_{n})' for n in sk['exprs']]) + '.')
    L.append('')
    L.append('(** implementations of the context-manager hooks / plain hooks, in the order pluggy calls them (LIFO of registration) *)')
    L.append('Definition with_impls : list (string * list string) :=')
    L.append('  ' + clist([f'({cq(h)}, {clist([cq(x) for x in v])})' for h, v in sk['with_impls'].items()]) + '.')
    L.append('Definition call_impls : list (string * list string) :=')
    L.append('  ' + clist([f'({cq(h)}, {clist([cq(x) for x in v])})' for h, v in sk['call_impls'].items()]) + '.')
    L.append('')
    L.append('(** the fields of the event classes (nextline/events.py) and of TraceCallInfo; every constructor call above is given exactly these *)')
    L.append('Definition record_fields : list (string * list string) :=')
    L.append('  ' + clist([f'({cq(c)}, {clist([cq(x) for x in fs])})' for c, fs in sorted(sk['records'].items())]) + '.')
    L.append('')
    L.append(f'(** implementations of these hooks in other plugins (none touches the outgoing queue): {", ".join(sk["others"]) or "none"} *)')
    L.append(f'Definition other_queue_out_putters : nat := {sk["putters"]}.   (* `<..queue_out..>.put(..)` in nextline/spawned outside repeat.py *)')
    L.append('')
    return '\n'.join(L)


if __name__ == '__main__':
    print(translate(Path(sys.argv[1] if len(sys.argv) > 1 else '/repo')))
